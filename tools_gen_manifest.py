#!/venv/bin/python
"""Regenerates MANIFEST.json from the table below (kept in one place so it stays valid)."""
import json, os, sys

HERE = os.path.dirname(os.path.abspath(__file__))
BASE = json.load(open("/root/.vp/BASELINE.json"))["cmd"] if os.path.exists("/root/.vp/BASELINE.json") else ""

CHECKS = {}   # filled below: id -> dict(level, text, note, technique, engine)
NA = {}

def chk(pid, category, text, note, technique, engine="pool", design=None):
    CHECKS[pid] = dict(category=category, text=text, note=note, technique=technique, engine=engine,
                       design=design or f"DESIGN.md section 3, {pid}")

exec(open(os.path.join(HERE, "manifest_table.py")).read())

props = [json.loads(l)["id"] for l in open(os.path.join(HERE, "properties.jsonl"))]
m = {
 "version": 1,
 "setup_cmd": "/venv/bin/python -m pip install -q --no-index --find-links /opt/veriftools/wheels --target /verif/.deps icontract deal >/dev/null 2>&1; /venv/bin/python -m compileall -q /verif/vlib /verif/checks /verif/check.py >/dev/null; echo setup-ok",
 "hooks": {
  "guard": "PYTHON_MYPY_VERIF",
  "enable": "no instrumentation lives in /repo: checks prepend /verif/vlib/shim (a sitecustomize.py that wraps functions of the real modules after import) to PYTHONPATH and set PYTHON_MYPY_VERIF=1 for the processes under test; in-process pool workers install their recording wrappers themselves",
  "baseline_off_cmd": "cd /repo && env -u PYTHON_MYPY_VERIF -u PYTHONPATH /venv/bin/python -m pytest -ra -q -p no:cacheprovider --timeout=900 --continue-on-collection-errors -n 16",
  "source_commits": [],
  "add_only": True,
 },
 "engines": [
  {"name": "pool", "path": "vlib/pool.py", "serves_properties": sorted(CHECKS), "kind_free_text": "16 long-lived /venv/bin/python workers running the real mypy in-process (JSON line protocol)"},
  {"name": "shim", "path": "vlib/shim/sitecustomize.py", "serves_properties": ["C04", "C07"], "kind_free_text": "external wrap/fault/schedule layer loaded via PYTHONPATH in CLI, coordinator, build workers and daemon; guard PYTHON_MYPY_VERIF"},
  {"name": "histgen", "path": "vlib/histgen.py", "serves_properties": ["C02", "C03", "C04", "C07", "C09", "C10"], "kind_free_text": "seeded multi-module project + edit history generator"},
  {"name": "mutators", "path": "vlib/mutators.py", "serves_properties": ["C20", "C14", "C13"], "kind_free_text": "structure-aware source mutators"},
 ],
 "checks": [],
 "not_applicable": [],
 "notes": "All verdicts are of the form 'held on K observed executions'. Exit 2 = inconclusive (monitor observed too little). Known genuine defects of the unchanged tree are in known_findings.json: keyed by mechanism, and for the seed-independent core workloads additionally by the failing case (history+step, corpus case, mutant), so the same mechanism on another input is still reported. 'fixed' entries name the repairing commit and suppress nothing. Seeded changes and which check catches them: DESIGN.md 8.6 and seeded/<id>/meta.json.",
}
for pid in props:
    if pid in CHECKS:
        c = CHECKS[pid]
        m["checks"].append({
            "property_id": pid,
            "quick_cmd": f"/venv/bin/python check.py {pid} --tier quick",
            "thorough_cmd": f"/venv/bin/python check.py {pid} --tier thorough",
            "evidence_file": f"/verif/evidence/{pid}.json",
            "replay_cmd_template": f"/venv/bin/python check.py {pid} --replay {{path}}",
            "engine": c["engine"],
            "level_claimed": {"category": c["category"], "text": c["text"], "design_ref": c["design"]},
            "level_note": c["note"],
            "technique": c["technique"],
        })
    else:
        m["not_applicable"].append({"property_id": pid, "reason": NA.get(pid, "check not built yet in this round (runtime monitoring applies; see DESIGN.md section 3) - not claimed until it exists and is silent on the unchanged tree")})
json.dump(m, open(os.path.join(HERE, "MANIFEST.json"), "w"), indent=1)
import jsonschema  # type: ignore
try:
    jsonschema.validate(m, json.load(open("/root/.vp/MANIFEST.schema.json")))
    print("MANIFEST valid;", len(m["checks"]), "checks,", len(m["not_applicable"]), "not_applicable")
except Exception as e:
    print("INVALID", e); sys.exit(1)
