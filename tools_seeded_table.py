#!/venv/bin/python
"""Offline: fold /var/tmp/seval/<id>_s<seed>.json results into seeded/<id>/meta.json (`caught_by`) and print the
markdown table for DESIGN.md 8.6.   tools_seeded_table.py [--update <dir-with-eval-json>]"""
import json, os, re, sys, glob
HERE = os.path.dirname(os.path.abspath(__file__))


def main():
    if "--update" in sys.argv:
        d = sys.argv[sys.argv.index("--update") + 1]
        for f in sorted(glob.glob(os.path.join(d, "*.json"))):
            sid = os.path.basename(f).split("_s")[0]
            txt = open(f).read()
            try:
                r = json.loads(txt[txt.index("{"):txt.rindex("}") + 1])
            except Exception:
                print("unreadable", f)
                continue
            mp = os.path.join(HERE, "seeded", sid, "meta.json")
            m = json.load(open(mp))
            cb = m.get("caught_by") or {}
            if not isinstance(cb, dict):
                cb = {}
            if r["rc"] == 1 and r["violation_keys"]:
                cb[r["pid"]] = {"tier": "quick", "keys": r["violation_keys"][:4]}
            elif r["pid"] not in cb:
                cb[r["pid"]] = {"tier": "quick", "keys": [], "rc": r["rc"]}
            m["caught_by"] = cb
            json.dump(m, open(mp, "w"), indent=1)
    print("| seed | file | change | caught by (check: first mechanism keys) |")
    print("|------|------|--------|------------------------------------------|")
    for sid in sorted(os.listdir(os.path.join(HERE, "seeded"))):
        m = json.load(open(os.path.join(HERE, "seeded", sid, "meta.json")))
        n = os.path.join(HERE, "seeded", sid, "notes.md")
        title = open(n).readline().strip("# \n") if os.path.exists(n) else ""
        title = re.sub(r"^Seed(ed change)? [AB]\s*(\([^)]*\))?\s*[-:—]*\s*", "", title)
        files = re.findall(r"^diff --git a/(\S+)", open(os.path.join(HERE, "seeded", sid, "patch.diff")).read(), re.M)
        cb = m.get("caught_by") or {}
        got = "; ".join(f"{p}: " + ", ".join("`" + k[:70].replace("|", "/") + "`" for k in v["keys"][:2]) for p, v in cb.items() if v.get("keys")) if isinstance(cb, dict) else str(cb)
        print(f"| {sid} | {', '.join(files)} | {title or m.get('needs_to_manifest', '')[:100]} | {got or '**missed**'} |")


if __name__ == "__main__":
    main()
