"""Shared plumbing for all checks: paths, tiers, seeds, evidence, verdicts, known findings."""

from __future__ import annotations

import contextlib
import hashlib
import json
import os
import random
import shutil
import subprocess
import sys
import tempfile
import time
from typing import Any, Iterator

VERIF = os.path.dirname(os.path.dirname(os.path.abspath(__file__)))
REPO = os.environ.get("VERIF_REPO", "/repo")
PY = os.environ.get("VERIF_PY", "/venv/bin/python")
SHIM_DIR = os.path.join(VERIF, "vlib", "shim")
DEPS_DIR = os.path.join(VERIF, ".deps")
WORK_ROOT = os.environ.get("VERIF_WORK", "/var/tmp")
GUARD = "PYTHON_MYPY_VERIF"
NCPU = int(os.environ.get("VERIF_JOBS", str(os.cpu_count() or 4)))


CORE_SEED = 0   # seed of the seed-independent core workloads (see DESIGN.md 2.9)


def seed() -> int:
    try:
        return int(os.environ.get("VERIF_SEED", "0"))
    except ValueError:
        return 0


def fingerprint(*parts: Any) -> str:
    h = hashlib.sha1()
    for p in parts:
        h.update(repr(p).encode("utf-8", "replace"))
        h.update(b"\0")
    return h.hexdigest()[:16]


def rng_for(*parts: Any) -> random.Random:
    return random.Random(fingerprint(seed(), *parts))


def rng_fixed(*parts: Any) -> random.Random:
    """Seed-INDEPENDENT stream for core workloads whose known findings are listed per case (the constant is the
    stream the per-case lists in known_findings.json were recorded with)."""
    return random.Random(fingerprint(1, *parts))


def base_env(shim: bool = False, **extra: str) -> dict[str, str]:
    """Environment for processes under test. Hooks are on only when shim=True."""
    env = {k: v for k, v in os.environ.items() if not k.startswith("VERIF_HOOK_")}
    env.pop(GUARD, None)
    env.pop("MYPYPATH", None)
    env.pop("MYPY_CACHE_DIR", None)
    env["PYTHONHASHSEED"] = env.get("PYTHONHASHSEED_FORCE", "0")
    env["PYTHONDONTWRITEBYTECODE"] = "1"
    env["VERIF_REPO"] = REPO
    pp = [VERIF]
    if shim:
        env[GUARD] = "1"
        pp.insert(0, SHIM_DIR)
    if REPO != "/repo":
        # scratch copy of the repository under test takes precedence over the editable install
        pp.insert(0, REPO)
    env["PYTHONPATH"] = os.pathsep.join(pp)
    env.update(extra)
    return env


def ensure_deps() -> bool:
    """Offline install of icontract/deal into .deps (git-ignored, so absent after a restore)."""
    marker = os.path.join(DEPS_DIR, "icontract")
    if os.path.isdir(marker):
        return True
    os.makedirs(DEPS_DIR, exist_ok=True)
    try:
        subprocess.run(
            [PY, "-m", "pip", "install", "-q", "--no-index", "--find-links",
             "/opt/veriftools/wheels", "--target", DEPS_DIR, "icontract", "deal"],
            check=True, timeout=300, stdout=subprocess.DEVNULL, stderr=subprocess.DEVNULL)
    except Exception:
        return os.path.isdir(marker)
    return os.path.isdir(marker)


@contextlib.contextmanager
def workdir(tag: str) -> Iterator[str]:
    d = tempfile.mkdtemp(prefix=f"verif-{tag}-", dir=WORK_ROOT)
    try:
        yield d
    finally:
        shutil.rmtree(d, ignore_errors=True)


class Ctx:
    """Per-run context: tier, seed, evidence accumulation, verdict bookkeeping."""

    def __init__(self, pid: str, tier: str, level: str = "exploration") -> None:
        self.pid = pid
        self.tier = tier
        self.seed = seed()
        self.level = level
        self.t0 = time.time()
        self.evaluations = 0
        self.nontrivial: set[str] = set()
        self.samples: list[Any] = []
        self.rule = ""
        self.cells: dict[str, int] = {}
        self.extra: dict[str, Any] = {}
        self.assumptions: list[str] = []
        self.inconclusive: dict[str, int] = {}
        self.violations: list[dict[str, Any]] = []
        self.known_hits: dict[str, dict[str, Any]] = {}
        self.collected: list[dict[str, Any]] = []
        self.floor_nontrivial = 2
        self.floor_evaluations = 1
        self.exhaustive: bool | None = None
        self._kf = load_known(pid)
        self.max_samples = 8
        self.max_reported = int(os.environ.get("VERIF_MAX_REPORT", "10"))

    # --- accounting -------------------------------------------------------
    def count(self, n: int = 1) -> None:
        self.evaluations += n

    def nontriv(self, *fp: Any) -> None:
        self.nontrivial.add(fingerprint(*fp))

    def cell(self, name: str, n: int = 1) -> None:
        self.cells[name] = self.cells.get(name, 0) + n

    def sample(self, s: Any, force: bool = False) -> None:
        if len(self.samples) < self.max_samples or force:
            self.samples.append(s)

    def inconc(self, why: str, n: int = 1) -> None:
        self.inconclusive[why] = self.inconclusive.get(why, 0) + n

    # --- verdicts ---------------------------------------------------------
    def violation(self, key: str, what: str, witness: dict[str, Any], case: str | None = None) -> None:
        """Report a refuting observation. `key` is the mechanism key (classifier output, never a random value).
        `case` optionally names the deterministic input/history (+step) that fails: a known finding may be listed
        for specific cases only, so that the same mechanism failing on ANOTHER input is still reported."""
        kf = self._kf.get(key)
        if kf is not None and kf.get("status") == "open" and (kf.get("cases") is None or (case is not None and case in kf["cases"])):
            hit = self.known_hits.setdefault(key, {"what": kf.get("what_fails", what), "n": 0, "example": witness})
            hit["n"] += 1
            if os.environ.get("VERIF_COLLECT"):
                self.collected.append({"key": key, "case": case, "what": what[:300], "known": True})
            return
        if os.environ.get("VERIF_COLLECT"):
            self.collected.append({"key": key, "case": case, "what": what[:300], "known": False})
        witness = dict(witness)
        witness["case_id"] = case
        self.violations.append({"key": key, "what": what, "witness": witness})

    def finish(self) -> int:
        wall = time.time() - self.t0
        for key, hit in sorted(self.known_hits.items()):
            print(f"KNOWN-FINDING: property={self.pid} {key}: {hit['what']} (observed {hit['n']}x this run)")
        rc = 0
        seen_keys: set[str] = set()
        nrep = 0
        for v in self.violations:
            if v["key"] in seen_keys and nrep >= self.max_reported:
                continue
            seen_keys.add(v["key"])
            nrep += 1
            if nrep > self.max_reported:
                continue
            path = save_replay(self.pid, v)
            print(f"VIOLATION property={self.pid} replay={path}")
            print(f"  key={v['key']} :: {v['what']}"[:600])
            rc = 1
        if len(self.violations) > nrep:
            print(f"  (+{len(self.violations) - nrep} more violations not written out)")
        n_nt = len(self.nontrivial)
        if rc == 0 and (n_nt < self.floor_nontrivial or self.evaluations < self.floor_evaluations):
            print(f"INCONCLUSIVE property={self.pid} evaluations={self.evaluations} "
                  f"(floor {self.floor_evaluations}) distinct_nontrivial={n_nt} (floor {self.floor_nontrivial})")
            rc = 2
        cov: dict[str, Any] = {
            "evaluations": self.evaluations,
            "distinct_nontrivial": n_nt,
            "rule": self.rule,
            "samples": self.samples[: max(self.max_samples, 1)] or ["<none>"],
            "cells": dict(sorted(self.cells.items())),
            "inconclusive": self.inconclusive,
            "known_findings_observed": {k: v["n"] for k, v in self.known_hits.items()},
            "violation_keys": {k: sum(1 for v in self.violations if v["key"] == k)
                               for k in sorted({v["key"] for v in self.violations})},
            "floors": {"distinct_nontrivial": self.floor_nontrivial, "evaluations": self.floor_evaluations},
        }
        if self.exhaustive is not None:
            cov["exhaustive"] = self.exhaustive
        cov.update(self.extra)
        ev = {
            "property_id": self.pid,
            "tier": self.tier,
            "seed": self.seed,
            "level": self.level,
            "coverage": cov,
            "assumptions": self.assumptions,
            "wall_s": round(wall, 2),
            "violations": len(self.violations),
            "verdict": {0: "held-on-observed", 1: "violated", 2: "inconclusive"}[rc],
            "repo": REPO,
        }
        if os.environ.get("VERIF_COLLECT"):
            # offline triage aid (never used by a registered command): every violation with its key and case id
            with open(os.environ["VERIF_COLLECT"], "a") as f:
                for c in self.collected:
                    f.write(json.dumps({"property": self.pid, "seed": self.seed, "tier": self.tier, **c}) + "\n")
        os.makedirs(os.path.join(VERIF, "evidence"), exist_ok=True)
        tmp = os.path.join(VERIF, "evidence", f".{self.pid}.json.tmp")
        with open(tmp, "w") as f:
            json.dump(ev, f, indent=1, default=str, sort_keys=False)
            f.write("\n")
        os.replace(tmp, os.path.join(VERIF, "evidence", f"{self.pid}.json"))
        print(f"[{self.pid}] tier={self.tier} seed={self.seed} evaluations={self.evaluations} "
              f"distinct_nontrivial={n_nt} violations={len(self.violations)} "
              f"known={sum(h['n'] for h in self.known_hits.values())} "
              f"inconclusive={sum(self.inconclusive.values())} wall={wall:.1f}s rc={rc}")
        return rc


def load_known(pid: str) -> dict[str, dict[str, Any]]:
    path = os.path.join(VERIF, "known_findings.json")
    try:
        with open(path) as f:
            data = json.load(f)
    except OSError:
        return {}
    return {e["key"]: e for e in data.get("findings", []) if e.get("property") == pid}


def save_replay(pid: str, v: dict[str, Any]) -> str:
    d = os.path.join(VERIF, "replays", pid)
    os.makedirs(d, exist_ok=True)
    name = fingerprint(v["key"], json.dumps(v["witness"], sort_keys=True, default=str)) + ".json"
    path = os.path.join(d, name)
    with open(path, "w") as f:
        json.dump({"property": pid, **v}, f, indent=1, default=str)
    return path


def write_files(root: str, files: dict[str, str], mtime: float | None = None) -> None:
    for rel, text in files.items():
        p = os.path.join(root, rel)
        os.makedirs(os.path.dirname(p) or root, exist_ok=True)
        with open(p, "w", encoding="utf-8", newline="") as f:
            f.write(text)
        if mtime is not None:
            os.utime(p, (mtime, mtime))


def run_cli(args: list[str], cwd: str, env: dict[str, str] | None = None, timeout: float = 180,
            module: str = "mypy") -> dict[str, Any]:
    """Fresh-process run of `python -m <module> args`. Timeout => status None (inconclusive)."""
    t0 = time.time()
    try:
        p = subprocess.run([PY, "-m", module, *args], cwd=cwd, env=env or base_env(),
                           capture_output=True, text=True, timeout=timeout,
                           stdin=subprocess.DEVNULL, start_new_session=True)
        return {"out": p.stdout, "err": p.stderr, "status": p.returncode, "wall": time.time() - t0}
    except subprocess.TimeoutExpired as e:
        return {"out": (e.stdout or b"").decode("utf-8", "replace") if isinstance(e.stdout, bytes) else (e.stdout or ""),
                "err": "TIMEOUT", "status": None, "wall": time.time() - t0}
