"""Part 4 of the C05/C06 program generator: assembly of units into three-module programs.

program = {"name", "files": {"<p>_a.py": src, ...}, "modules": [...], "units": [unit...], "classes": {...}, "prelude": str}
unit    = {"name", "mod", "src", "calls": [{"id", "setup", "call", "post", ...}], "tags", "kind", "lines": (first, last)}
"""

from __future__ import annotations

import random
from typing import Any

from vlib.c05_templates import DIRECTED, TEMPLATES
from vlib.c05_units import free_function

IMPORTS = """\
import math
from dataclasses import dataclass, field
from enum import Enum
from typing import Any, Callable, ClassVar, Final, Generator, Iterator, NamedTuple, Optional, Union
from mypy_extensions import i64, mypyc_attr, trait
"""

PRELUDE_A = '''
class MyErr(Exception):
    pass


class Pt:
    def __init__(self, x: int, y: int = 0) -> None:
        self.x = x
        self.y = y

    def norm1(self) -> int:
        return abs(self.x) + abs(self.y)

    def dot(self, o: 'Pt') -> int:
        return self.x * o.x + self.y * o.y

    def shifted(self, d: int) -> 'Pt':
        return Pt(self.x + d, self.y - d)

    def as_tuple(self) -> tuple[int, int]:
        return (self.x, self.y)

    def __add__(self, o: 'Pt') -> 'Pt':
        return Pt(self.x + o.x, self.y + o.y)

    def __eq__(self, o: object) -> bool:
        return isinstance(o, Pt) and self.x == o.x and self.y == o.y

    def __hash__(self) -> int:
        return hash((self.x, self.y))

    def __str__(self) -> str:
        return '<' + str(self.x) + ',' + str(self.y) + '>'

    def __repr__(self) -> str:
        return 'Pt(' + str(self.x) + ', ' + str(self.y) + ')'


class Pt3(Pt):
    def __init__(self, x: int, y: int, name: str) -> None:
        super().__init__(x, y)
        self.name = name

    def norm1(self) -> int:
        return super().norm1() + len(self.name)

    def shifted(self, d: int) -> 'Pt':
        return Pt3(self.x + d, self.y, self.name + '+')

    def __repr__(self) -> str:
        return 'Pt3(' + str(self.x) + ', ' + str(self.y) + ', ' + repr(self.name) + ')'


class Ctx:
    def __init__(self, name: str, suppress: bool) -> None:
        self.name = name
        self.suppress = suppress

    def __enter__(self) -> 'Ctx':
        print('enter', self.name)
        return self

    def __exit__(self, et: object, ev: object, tb: object) -> bool:
        print('exit', self.name, 'none' if ev is None else type(ev).__name__)
        return self.suppress and ev is not None and isinstance(ev, (ValueError, KeyError, IndexError, ZeroDivisionError))


def add3(a: int, b: int = 10, *, c: int = 100) -> int:
    return a + b * 2 + c * 3


def scale(x: float, k: float = 2.0) -> float:
    return x * k + 0.5


def idi64(x: i64) -> i64:
    return x


def optid(x: Optional[int]) -> Optional[int]:
    if x is None:
        return None
    return x + 1


def tupid(t: tuple[int, str]) -> tuple[int, str]:
    return (t[0] + 1, t[1])


def sum_all(*xs: int) -> int:
    t = 0
    for x in xs:
        t += x
    return t
'''

FROM_A = "from {a} import Ctx, MyErr, Pt, Pt3, add3, idi64, optid, scale, sum_all, tupid\n"
BASE_CLASSES = {"Pt": ["x", "y"], "Pt3": ["x", "y", "name"], "Ctx": ["name", "suppress"], "H": ["v", "seq"], "IC": ["v", "items"]}


def make_unit(rng: random.Random, name: str, dialect: str) -> dict[str, Any]:
    hostile_ok = dialect == "mem"
    if rng.random() < (0.4 if dialect == "c05" else 0.45):
        u = free_function(rng, name + "_f", hostile=rng.random() < (0.7 if hostile_ok else 0.2))
    else:
        weights = []
        for f, w in TEMPLATES:
            if dialect == "mem" and f.__name__ in ("t_store", "t_uninit"):
                w *= 3
            if dialect == "mem" and f.__name__ in ("t_callshape", "t_narrow", "t_pycall"):
                w *= 0.4
            weights.append(w)
        f = rng.choices([t[0] for t in TEMPLATES], weights=weights)[0]
        u = f(rng, name, rng.random() < (0.6 if hostile_ok else 0.12))
    u["name"] = name
    u.setdefault("classes", {})
    u.setdefault("prelude", "")
    for k, c in enumerate(u["calls"]):
        c["id"] = f"{name}#{k}"
    return u


def assemble(name: str, units: list[dict[str, Any]]) -> dict[str, Any]:
    mods = [f"{name}_a", f"{name}_b", f"{name}_c"]
    texts = {mods[0]: IMPORTS + PRELUDE_A, mods[1]: IMPORTS + FROM_A.format(a=mods[0]),
             mods[2]: IMPORTS + FROM_A.format(a=mods[0]) + f"import {mods[1]}\n"}
    classes = dict(BASE_CLASSES)
    prelude = ""
    for i, u in enumerate(units):
        m = u.get("mod") or mods[i % 3]
        u["mod"] = m
        first = texts[m].count("\n") + 3
        texts[m] += f"\n\n# ==unit {u['name']} [{u['kind']}]\n" + u["src"].rstrip("\n") + "\n"
        u["lines"] = [first - 1, texts[m].count("\n") + 1]
        classes.update(u.get("classes") or {})
        prelude += u.get("prelude") or ""
    return {"name": name, "modules": mods, "files": {m + ".py": t for m, t in texts.items()}, "units": units, "classes": classes,
            "prelude": prelude}


def generate(rng: random.Random, name: str, n_units: int, dialect: str = "c05") -> dict[str, Any]:
    units = [make_unit(rng, f"u{k}", dialect) for k in range(n_units)]
    for j, f in enumerate(DIRECTED):
        u = f(rng, f"u{n_units + j}", False)
        u["name"] = f"u{n_units + j}"
        u.setdefault("classes", {})
        u.setdefault("prelude", "")
        for k, c in enumerate(u["calls"]):
            c["id"] = f"{u['name']}#{k}"
        units.append(u)
    return assemble(name, units)


def drop_units(prog: dict[str, Any], names: set[str]) -> dict[str, Any]:
    keep = [u for u in prog["units"] if u["name"] not in names]
    return assemble(prog["name"], keep)


def unit_at(prog: dict[str, Any], file: str, line: int) -> str | None:
    mod = file[:-3] if file.endswith(".py") else file
    for u in prog["units"]:
        if u["mod"] == mod and u["lines"][0] <= line <= u["lines"][1]:
            return u["name"]
    return None


def spec_for(prog: dict[str, Any], mode: str, **extra: Any) -> dict[str, Any]:
    return {"mode": mode, "modules": prog["modules"], "classes": prog["classes"], "prelude": prog["prelude"],
            "units": [{"name": u["name"], "calls": u["calls"]} for u in prog["units"]], **extra}


def standalone(unit: dict[str, Any], modname: str = "native") -> str:
    """Single-module source holding the prelude and this unit only (self-contained witnesses and repros)."""
    return IMPORTS + PRELUDE_A + "\n\n" + unit["src"].rstrip("\n") + "\n"
