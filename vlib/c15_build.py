"""Build helper for the mypyc numeric harness (C15): type probe with the real mypy, compile with the real
mypyc + lib-rt of the repository under test (VERIF_REPO), in production-like and sanitizer configurations.

Everything runs in fresh subprocesses of /venv/bin/python with common.base_env(), so the mypy/mypyc that is
imported is the current working tree (or the scratch copy VERIF_REPO points at). Nothing is cached between
check runs: every run re-emits C from the current mypyc and recompiles the current lib-rt.
"""

from __future__ import annotations

import glob
import os
import re
import subprocess
import sys
import time
from typing import Any

from vlib import common

SAN_CFLAGS = ("-O1 -g -fno-omit-frame-pointer -fsanitize=address,undefined "
              "-fno-sanitize=shift-base,signed-integer-overflow -fsanitize=float-cast-overflow,integer-divide-by-zero "
              "-fsanitize-recover=undefined,float-cast-overflow,integer-divide-by-zero")
SAN_LDFLAGS = "-fsanitize=address,undefined -shared-libasan"

CONFIGS: dict[str, dict[str, Any]] = {
    "o0": {"opt": "0", "env": {}},
    "o3": {"opt": "3", "env": {}},
    "san": {"opt": "1", "env": {"CC": "clang", "LDSHARED": "clang -shared", "CFLAGS": SAN_CFLAGS, "LDFLAGS": SAN_LDFLAGS}},
}

SETUP = """\
import sys
from setuptools import setup
from mypyc.build import mypycify
setup(name={name!r}, ext_modules=mypycify([{file!r}], opt_level={opt!r}, debug_level="1"), script_args=["build_ext", "--inplace", "-q"])
"""


def asan_runtime() -> str | None:
    try:
        p = subprocess.run(["clang", "-print-file-name=libclang_rt.asan-x86_64.so"], capture_output=True, text=True, timeout=30)
    except (OSError, subprocess.TimeoutExpired):
        return None
    path = p.stdout.strip()
    return path if os.path.isabs(path) and os.path.exists(path) else None


def san_run_env(log_prefix: str) -> dict[str, str] | None:
    """Environment additions for a process that loads a sanitizer-built module."""
    rt = asan_runtime()
    if rt is None:
        return None
    return {"LD_PRELOAD": rt, "PYTHONMALLOC": "malloc",
            "ASAN_OPTIONS": f"detect_leaks=0:abort_on_error=0:log_path={log_prefix}:halt_on_error=1",
            "UBSAN_OPTIONS": f"print_stacktrace=0:log_path={log_prefix}:halt_on_error=0"}


def probe_types(source: str, wd: str) -> dict[str, Any]:
    """Run the real mypy on `source`; return {"types": {def_line: revealed}, "errors": {line: msg}, "raw_tail": str}."""
    os.makedirs(wd, exist_ok=True)
    path = os.path.join(wd, "c15probe.py")
    with open(path, "w") as f:
        f.write(source)
    r = common.run_cli(["--no-error-summary", "--hide-error-context", "--no-color-output", "--show-traceback",
                        "--cache-dir", os.path.join(wd, ".probe-cache"), "c15probe.py"], cwd=wd, timeout=600)
    types: dict[int, str] = {}
    errors: dict[int, str] = {}
    if r["status"] is None:
        return {"timeout": True, "types": {}, "errors": {}, "raw_tail": r["out"][-2000:]}
    for ln in r["out"].splitlines():
        m = re.match(r'c15probe\.py:(\d+): note: Revealed type is "(.*)"$', ln)
        if m:
            types[int(m.group(1))] = m.group(2)
            continue
        m = re.match(r"c15probe\.py:(\d+): error: (.*)$", ln)
        if m:
            errors.setdefault(int(m.group(1)), m.group(2))
    return {"types": types, "errors": errors, "status": r["status"], "raw_tail": (r["out"] + r["err"])[-3000:]}


def compile_module(modname: str, source: str, outdir: str, config: str, timeout: float = 900) -> dict[str, Any]:
    """mypycify + build_ext of one module in `outdir`; returns {"ok", "so", "errors": [(line, msg)], "log", "wall"}."""
    cfg = CONFIGS[config]
    os.makedirs(outdir, exist_ok=True)
    src = os.path.join(outdir, modname + ".py")
    with open(src, "w") as f:
        f.write(source)
    with open(os.path.join(outdir, f"setup_{modname}.py"), "w") as f:
        f.write(SETUP.format(name=modname, file=modname + ".py", opt=cfg["opt"]))
    env = common.base_env(**cfg["env"])
    env["MYPY_CACHE_DIR"] = os.path.join(outdir, ".mypy_cache_" + modname)
    env.pop("MYPYC_OPT_LEVEL", None)
    t0 = time.time()
    try:
        p = subprocess.run([common.PY, f"setup_{modname}.py"], cwd=outdir, env=env, capture_output=True, text=True,
                           timeout=timeout, stdin=subprocess.DEVNULL, start_new_session=True)
    except subprocess.TimeoutExpired:
        return {"ok": False, "timeout": True, "errors": [], "log": "TIMEOUT", "wall": time.time() - t0}
    log = p.stdout + p.stderr
    sos = glob.glob(os.path.join(outdir, modname + ".*.so")) + glob.glob(os.path.join(outdir, modname + ".so"))
    errors = [(int(m.group(1)), m.group(2)) for m in re.finditer(rf"{modname}\.py:(\d+): error: (.*)", log)]
    ok = p.returncode == 0 and bool(sos)
    return {"ok": ok, "so": sos[0] if sos else None, "errors": errors, "c_errors": [] if ok else c_errors(outdir, log),
            "log": log[-4000:], "rc": p.returncode, "wall": time.time() - t0}


def c_errors(outdir: str, log: str) -> list[tuple[str, str]]:
    """[(python function name, C compiler message)] for C-level errors in code emitted for harness functions."""
    try:
        with open(os.path.join(outdir, "build", "__native.c"), encoding="utf-8", errors="replace") as f:
            clines = f.read().split("\n")
    except OSError:
        return []
    out: list[tuple[str, str]] = []
    for m in re.finditer(r"__native\.c:(\d+):\d+: error: (.*)", log):
        i = min(int(m.group(1)), len(clines)) - 1
        while i >= 0:
            d = re.match(r"[A-Za-z_][\w \*]*\bCPy(?:Def|Py)_(\w+)\(", clines[i])
            if d and not clines[i].startswith((" ", "\t")):
                out.append((d.group(1), m.group(2)))
                break
            i -= 1
    return out


def load_extension(modname: str, so_path: str) -> Any:
    """Import a compiled module from an explicit path (build dirs of different configurations coexist)."""
    import importlib.machinery
    import importlib.util
    loader = importlib.machinery.ExtensionFileLoader(modname, so_path)
    spec = importlib.util.spec_from_file_location(modname, so_path, loader=loader)
    assert spec is not None
    mod = importlib.util.module_from_spec(spec)
    sys.modules[modname] = mod
    loader.exec_module(mod)
    return mod
