"""Helpers that run inside a pool worker (or any /venv/bin/python process): in-process mypy runs
with the raw ErrorInfo stream captured through wrappers on the real `mypy.errors.Errors`."""

from __future__ import annotations

import io
import os
import re
import shutil
import sys
import traceback
from typing import Any

_captured: list[dict[str, Any]] | None = None
_installed = False
_internal: list[dict[str, Any]] = []


def _info_dict(file: str, info: Any, stage: str) -> dict[str, Any]:
    # origin_span may be a one-shot itertools.chain: materialise it ONCE and put an equivalent list back, otherwise
    # reading it here would starve mypy's own `for scope_line in origin_span` loop (observed: ignores stopped applying)
    if not isinstance(info.origin_span, (list, tuple, range)):
        info.origin_span = list(info.origin_span)
    return {
        "stage": stage,
        "file": file,
        "line": info.line,
        "column": info.column,
        "end_line": info.end_line,
        "end_column": info.end_column,
        "severity": info.severity,
        "message": info.message,
        "code": info.code.code if info.code else None,
        "sub_code_of": info.code.sub_code_of.code if info.code and info.code.sub_code_of else None,
        "blocker": bool(info.blocker),
        "only_once": bool(info.only_once),
        "span": list(info.origin_span),
        "hidden": bool(getattr(info, "hidden", False)),
        "id": id(info),
        "parent": id(info.parent_error) if getattr(info, "parent_error", None) is not None else None,
        "module": info.module,
        "target": info.target,
    }


_internal_installed = False


def install_internal_hook() -> None:
    """Record exception class + innermost mypy frame of every report_internal_error call."""
    global _internal_installed
    if _internal_installed:
        return
    _internal_installed = True
    from mypy import errors as E

    orig_internal = E.report_internal_error

    def report_internal_error(err: Exception, *a: Any, **kw: Any) -> Any:
        tb = traceback.extract_tb(err.__traceback__)
        inner = None
        for fr in reversed(tb):
            if "/mypy/" in fr.filename or "/mypyc/" in fr.filename:
                inner = fr
                break
        _internal.append({"exc": type(err).__name__, "msg": str(err)[:200],
                          "func": inner.name if inner else None,
                          "file": os.path.basename(inner.filename) if inner else None,
                          "lineno": inner.lineno if inner else None,
                          "src_file": a[0] if a and isinstance(a[0], str) else kw.get("file"),
                          "src_line": a[1] if len(a) > 1 and isinstance(a[1], int) else kw.get("line"),
                          "tb": "".join(traceback.format_tb(err.__traceback__)[-6:])[-2500:]})
        return orig_internal(err, *a, **kw)

    E.report_internal_error = report_internal_error  # type: ignore[assignment]
    # late importers: patch lazily at each run (cheap)
    _late.append((orig_internal, report_internal_error))


_late: list[tuple[Any, Any]] = []


def _rebind_late() -> None:
    for orig, new in _late:
        for name, m in list(sys.modules.items()):
            if name.startswith("mypy") and getattr(m, "report_internal_error", None) is orig:
                setattr(m, "report_internal_error", new)


def install_capture() -> None:
    """Recording wrappers (originals always called, results unchanged)."""
    global _installed
    install_internal_hook()
    if _installed:
        return
    _installed = True
    from mypy import errors as E

    orig_add = E.Errors.add_error_info
    orig_kept = E.Errors._add_error_info

    def add_error_info(self: Any, info: Any, *, file: str | None = None) -> None:
        if _captured is not None:
            _captured.append(_info_dict(file or self.file, info, "in"))
        return orig_add(self, info, file=file)

    def _add_error_info(self: Any, file: str, info: Any) -> None:
        n = len(self.error_info_map.get(file, ()))
        r = orig_kept(self, file, info)
        if _captured is not None and len(self.error_info_map.get(file, ())) > n:
            _captured.append(_info_dict(file, info, "kept"))
        return r

    E.Errors.add_error_info = add_error_info  # type: ignore[method-assign]
    E.Errors._add_error_info = _add_error_info  # type: ignore[method-assign]


def classify_exc(tb_text: str) -> str:
    """Mechanism key of a traceback: exception class + innermost mypy function."""
    exc = "?"
    func = "?"
    lines = tb_text.strip().splitlines()
    for ln in reversed(lines):
        m = re.match(r"^([A-Za-z_][\w.]*)(:|$)", ln.strip())
        if m and not ln.startswith(" "):
            exc = m.group(1).split(".")[-1]
            break
    for ln in reversed(lines):
        m = re.match(r'\s*File "([^"]*?/(mypyc?)/[^"]*)", line \d+, in (\S+)', ln)
        if m:
            func = os.path.basename(m.group(1)) + ":" + m.group(3)
            break
    return f"{exc}@{func}"


_runs = 0


def cleanup() -> None:
    """Keep a long-lived worker's memory flat: mypy.main raises the GC thresholds process-wide (whole build graphs
    pile up as uncollected cycles) and SourceFinder._crawl_up_helper's class-level lru_cache pins FileSystemCaches.
    Neither affects results; both made 16 workers exceed memory (OOM kills seen as 'worker died rc=-9')."""
    global _runs
    import gc
    _runs += 1
    try:
        from mypy.find_sources import SourceFinder
        SourceFinder._crawl_up_helper.cache_clear()  # type: ignore[attr-defined]
    except Exception:
        pass
    gc.set_threshold(700, 10, 10)
    if _runs % 3 == 0:
        gc.collect()


def run_mypy(args: list[str], cwd: str | None = None, capture: bool = False,
             env: dict[str, str] | None = None) -> dict[str, Any]:
    """In-process equivalent of `python -m mypy args` run from cwd."""
    global _captured
    from mypy.main import main

    install_internal_hook()
    _rebind_late()
    if capture:
        install_capture()
        _captured = []
    del _internal[:]
    old_cwd = os.getcwd()
    old_env: dict[str, str | None] = {}
    if env:
        for k, v in env.items():
            old_env[k] = os.environ.get(k)
            os.environ[k] = v
    out, err = io.StringIO(), io.StringIO()
    status: int | None = 0
    crash = None
    old_out, old_err = sys.stdout, sys.stderr
    try:
        if cwd:
            os.chdir(cwd)
        sys.stdout, sys.stderr = out, err
        try:
            main(args=list(args), stdout=out, stderr=err, clean_exit=True)
        except SystemExit as e:
            status = e.code if isinstance(e.code, int) else (0 if e.code is None else 1)
            if not isinstance(e.code, int) and e.code is not None:
                err.write(str(e.code))
        except BaseException as e:  # an escaped exception is an internal failure (C20)
            status = None
            crash = {"exc": type(e).__name__, "msg": str(e)[:300], "tb": traceback.format_exc()[-6000:]}
            crash["key"] = classify_exc(crash["tb"])
    finally:
        sys.stdout, sys.stderr = old_out, old_err
        os.chdir(old_cwd)
        cleanup()
        for k, v in old_env.items():
            if v is None:
                os.environ.pop(k, None)
            else:
                os.environ[k] = v
    res: dict[str, Any] = {"out": out.getvalue(), "err": err.getvalue(), "status": status}
    if crash:
        res["crash"] = crash
    if _internal:
        res["internal"] = list(_internal)
    if capture:
        res["infos"] = _captured
        _captured = None
    return res


_BASE_CACHES: dict[str, str] = {}


def base_cache(root: str, flags: list[str], tag: str | None = None) -> str:
    """A cache directory that holds records for typeshed modules only, built once per flag set and
    shared (read-only: callers copy it) by all workers of a pool; creation is serialised by flock."""
    import fcntl

    from vlib.common import fingerprint

    tag = tag or fingerprint(sorted(flags))
    d = os.path.join(root, "basecache-" + tag)
    if tag in _BASE_CACHES and os.path.isdir(d):
        return d
    os.makedirs(root, exist_ok=True)
    with open(os.path.join(root, f".lock-{tag}"), "w") as lk:
        fcntl.flock(lk, fcntl.LOCK_EX)
        if not os.path.isdir(d):
            tmp = d + f".tmp{os.getpid()}"
            src = os.path.join(tmp, "src")
            os.makedirs(src, exist_ok=True)
            with open(os.path.join(src, "verif_seed_mod.py"), "w") as f:
                f.write("import typing, collections, dataclasses, enum, abc, sys, os\n")
            r = run_mypy([*flags, "--cache-dir", os.path.join(tmp, "cache"), "verif_seed_mod.py"], cwd=src)
            if r["status"] not in (0, 1):
                shutil.rmtree(tmp, ignore_errors=True)
                raise RuntimeError(f"base cache build failed: {r}")
            os.rename(os.path.join(tmp, "cache"), d)
            shutil.rmtree(tmp, ignore_errors=True)
    _BASE_CACHES[tag] = d
    return d
