"""C08 type universe: the *source text* of a module that the real `mypy.build.build` analyses.

Nothing here constructs mypy `Type` objects: every type the laws are evaluated on is read back from
the symbol tables of a finished build (annotated module variables `v_<name>: <type expr>`, function
signatures, argument types of generic functions for type-variable-scoped types).

`UNIVERSE` is the depth-0/1 universe (every entry of ATOMS becomes one variable); `deep_source()`
writes a second module with seeded random type expressions of nesting depth 2-3 built from the same
vocabulary.
"""

from __future__ import annotations

import random
from typing import Any

PRELUDE = '''
import enum
from typing import (Any, Awaitable, Callable, Generic, Iterable, Iterator, Mapping, NamedTuple, Optional, Protocol,
                    Sequence, Type, TypeVar, Union, overload, final, Final)
from typing_extensions import (Concatenate, Literal, Never, NotRequired, ParamSpec, ReadOnly, Required, TypedDict,
                               TypeVarTuple, Unpack)

T = TypeVar("T")
S = TypeVar("S")
T_co = TypeVar("T_co", covariant=True)
T_contra = TypeVar("T_contra", contravariant=True)
P = ParamSpec("P")
Ts = TypeVarTuple("Ts")


# --- nominal hierarchy with a diamond ---------------------------------------------------------
class A: ...
class B(A): ...
class C(A): ...
class D(B, C): ...
class E: ...
@final
class F(A): ...


# --- generics of every variance -----------------------------------------------------------------
class Inv(Generic[T]):
    x: T
class Co(Generic[T_co]):
    def get(self) -> T_co: ...
class Contra(Generic[T_contra]):
    def put(self, x: T_contra) -> None: ...
class Two(Generic[T_co, T_contra]):
    def get(self) -> T_co: ...
    def put(self, x: T_contra) -> None: ...
class InvB(Inv[B]): ...
class CoSub(Co[T_co]): ...
class CoA(Co[A]): ...
class Mixed(Co[B], Contra[A]): ...
class Auto[X]:                      # PEP 695: variance inferred (covariant)
    def get(self) -> X: ...
class AutoInv[X]:                   # inferred invariant
    def get(self) -> X: ...
    def put(self, x: X) -> None: ...
class Var(Generic[Unpack[Ts]]): ...


# --- protocols ----------------------------------------------------------------------------------
class HasX(Protocol):
    x: int
class HasXY(HasX, Protocol):
    y: str
class HasXro(Protocol):
    @property
    def x(self) -> int: ...
class Closer(Protocol):
    def close(self) -> None: ...
class GenP(Protocol[T_co]):
    def get(self) -> T_co: ...
class SinkP(Protocol[T_contra]):
    def put(self, x: T_contra) -> None: ...
class GenPInv(Protocol[T]):
    def get(self) -> T: ...
    def put(self, x: T) -> None: ...
class RecP(Protocol):
    def nxt(self) -> "RecP": ...
class RecQ(Protocol):
    def nxt(self) -> "RecQ": ...
    def close(self) -> None: ...
class CallP(Protocol):
    def __call__(self, x: int) -> str: ...
class Empty(Protocol): ...
class ImplX:
    x: int
class ImplXY:
    x: int
    y: str
class ImplXbool:
    x: bool
class ImplClose:
    def close(self) -> None: ...
class ImplRec:
    def nxt(self) -> "ImplRec": ...
class ImplRecQ:
    def nxt(self) -> "ImplRecQ": ...
    def close(self) -> None: ...
class ImplCall:
    def __call__(self, x: int) -> str: ...
class NominalX(HasX):
    x: int


# --- enums, named tuples, typed dicts -----------------------------------------------------------
class Color(enum.Enum):
    R = 1
    G = 2
    B = 3
class Two2(enum.Enum):
    ONE = 1
    TWO = 2
class IE(enum.IntEnum):
    LO = 0
    HI = 1
class NT(NamedTuple):
    a: int
    b: str
class NTsub(NT): ...
class NTA(NamedTuple):
    a: A
    b: B
class NTG(NamedTuple, Generic[T]):
    a: T
    b: int
class TD1(TypedDict):
    x: int
class TD2(TypedDict):
    x: int
    y: str
class TD2b(TypedDict):
    x: bool
    y: str
class TDopt(TypedDict, total=False):
    x: int
class TDro(TypedDict):
    x: ReadOnly[int]
class TDroA(TypedDict):
    x: ReadOnly[A]
class TDroB(TypedDict):
    x: ReadOnly[B]
class TDmix(TypedDict):
    x: int
    y: NotRequired[str]
class TDy(TypedDict):
    y: str
class TDzopt(TypedDict, total=False):
    z: int
class TDroopt(TypedDict):
    x: ReadOnly[NotRequired[int]]
class TDG(TypedDict, Generic[T]):
    x: T


# --- functions (signatures are read back as CallableType / Overloaded) ---------------------------
def f_pos(a: int, b: str) -> A: ...
def f_posonly(a: int, b: str, /) -> A: ...
def f_def(a: int, b: str = "") -> B: ...
def f_star(*args: int) -> A: ...
def f_kw(*, k: int) -> A: ...
def f_kwdef(*, k: int = 0) -> A: ...
def f_kwargs(**kw: int) -> A: ...
def f_all(a: int, /, b: str, *args: int, k: bool, **kw: str) -> B: ...
def f_td(**kw: Unpack[TD2]) -> A: ...
def f_gen(x: T) -> T: ...
def f_gen2(x: T, y: S) -> T: ...
def f_genlist(x: Sequence[T]) -> T: ...
@overload
def f_ov(x: int) -> int: ...
@overload
def f_ov(x: str) -> str: ...
def f_ov(x: Any) -> Any: ...
@overload
def f_ov2(x: A) -> A: ...
@overload
def f_ov2(x: E) -> E: ...
def f_ov2(x: Any) -> Any: ...

TB = TypeVar("TB", bound=A)
TBB = TypeVar("TBB", bound=B)
TV = TypeVar("TV", int, str)
TU = TypeVar("TU", bound=Union[A, E])

# type-variable-scoped types are read back from the argument types of this function
def tv_scope(
    tv_T: T, tv_S: S, tv_TB: TB, tv_TBB: TBB, tv_TV: TV, tv_TU: TU,
    tv_list_T: list[T], tv_seq_TB: Sequence[TB], tv_opt_T: Optional[T], tv_type_T: Type[T], tv_type_TB: Type[TB],
    tv_call_T: Callable[[T], T], tv_call_P: Callable[P, int], tv_call_cP: Callable[Concatenate[int, P], int],
    tv_call_P_T: Callable[P, T], tv_tuple_Ts: tuple[Unpack[Ts]], tv_tuple_iTs: tuple[int, Unpack[Ts]],
    tv_call_Ts: Callable[[Unpack[Ts]], None], tv_Var_Ts: Var[Unpack[Ts]], tv_union_T_int: Union[T, int],
    tv_tuple_T_S: tuple[T, S], tv_inv_TB: Inv[TB], tv_co_T: Co[T],
) -> None: ...

# --- recursive aliases ----------------------------------------------------------------------------
JSON = Union[int, str, None, list["JSON"], dict[str, "JSON"]]
Nested = Union[int, Sequence["Nested"]]
NestedB = Union[bool, Sequence["NestedB"]]
RecTup = Optional[tuple[int, "RecTup"]]
RecTupB = Optional[tuple[bool, "RecTupB"]]
type Tree[X] = X | list[Tree[X]]

# --- inferred types: Final names keep a last known value; a tuple display keeps type objects ----------
fin_1: Final = 1
fin_a: Final = "a"
fin_True: Final = True
fin_R: Final = Color.R
objs = (A, B, E, F, Inv, Co, Color, NT, TD1, ImplX, int)
'''

OBJS = ["A", "B", "E", "F", "Inv", "Co", "Color", "NT", "TD1", "ImplX", "int"]
FINALS = ["fin_1", "fin_a", "fin_True", "fin_R"]

# name -> type expression (annotation position)
ATOMS: dict[str, str] = {
    # special forms
    "Any": "Any", "None": "None", "Never": "Never", "object": "object", "type": "type",
    # nominal
    "A": "A", "B": "B", "C": "C", "D": "D", "E": "E", "F": "F",
    # builtins with promotions
    "int": "int", "float": "float", "complex": "complex", "bool": "bool", "str": "str", "bytes": "bytes",
    "bytearray": "bytearray", "memoryview": "memoryview",
    # generics
    "Inv_A": "Inv[A]", "Inv_B": "Inv[B]", "Inv_Any": "Inv[Any]", "InvB": "InvB",
    "Co_A": "Co[A]", "Co_B": "Co[B]", "Co_D": "Co[D]", "CoSub_B": "CoSub[B]", "CoA": "CoA",
    "Contra_A": "Contra[A]", "Contra_B": "Contra[B]", "Contra_int": "Contra[int]", "Contra_float": "Contra[float]",
    "Co_int": "Co[int]", "Co_float": "Co[float]", "Inv_int": "Inv[int]", "Inv_float": "Inv[float]", "Two_B_A": "Two[B, A]", "Two_A_B": "Two[A, B]", "Mixed": "Mixed",
    "Auto_A": "Auto[A]", "Auto_B": "Auto[B]", "AutoInv_A": "AutoInv[A]", "AutoInv_B": "AutoInv[B]",
    "Var_int_str": "Var[int, str]", "Var_int": "Var[int]", "Var_ints": "Var[Unpack[tuple[int, ...]]]",
    "list_A": "list[A]", "list_B": "list[B]", "list_int": "list[int]", "list_Any": "list[Any]",
    "Seq_A": "Sequence[A]", "Seq_B": "Sequence[B]", "Seq_int": "Sequence[int]", "Iterable_A": "Iterable[A]",
    "dict_str_A": "dict[str, A]", "dict_str_B": "dict[str, B]", "Map_str_A": "Mapping[str, A]",
    "Map_str_B": "Mapping[str, B]", "Map_str_object": "Mapping[str, object]", "Map_str_int": "Mapping[str, int]",
    "frozenset_B": "frozenset[B]", "Awaitable_A": "Awaitable[A]",
    # protocols
    "HasX": "HasX", "HasXY": "HasXY", "HasXro": "HasXro", "Closer": "Closer", "GenP_A": "GenP[A]", "GenP_B": "GenP[B]",
    "SinkP_A": "SinkP[A]", "SinkP_B": "SinkP[B]", "SinkP_D": "SinkP[D]", "SinkP_object": "SinkP[object]", "SinkP_int": "SinkP[int]", "SinkP_float": "SinkP[float]",
    "GenP_object": "GenP[object]", "GenPInv_A": "GenPInv[A]", "GenPInv_B": "GenPInv[B]", "RecP": "RecP", "RecQ": "RecQ", "CallP": "CallP",
    "Empty": "Empty", "ImplX": "ImplX", "ImplXY": "ImplXY", "ImplXbool": "ImplXbool", "ImplClose": "ImplClose",
    "ImplRec": "ImplRec", "ImplRecQ": "ImplRecQ", "ImplCall": "ImplCall", "NominalX": "NominalX",
    # enums / literals
    "Color": "Color", "Two2": "Two2", "IE": "IE",
    "Lit_1": "Literal[1]", "Lit_2": "Literal[2]", "Lit_0": "Literal[0]", "Lit_a": "Literal['a']", "Lit_b": "Literal['b']",
    "Lit_True": "Literal[True]", "Lit_False": "Literal[False]", "Lit_bytes": "Literal[b'a']",
    "Lit_R": "Literal[Color.R]", "Lit_G": "Literal[Color.G]", "Lit_ONE": "Literal[Two2.ONE]", "Lit_TWO": "Literal[Two2.TWO]",
    "Lit_LO": "Literal[IE.LO]", "Lit_1_2": "Literal[1, 2]", "Lit_ONE_TWO": "Literal[Two2.ONE, Two2.TWO]",
    "Lit_R_G": "Literal[Color.R, Color.G]", "Lit_T_F": "Literal[True, False]", "Lit_None_1": "Literal[None, 1]",
    # tuples
    "tuple_A_B": "tuple[A, B]", "tuple_B_B": "tuple[B, B]", "tuple_int_str": "tuple[int, str]", "tuple_A": "tuple[A]",
    "tuple_empty": "tuple[()]", "tuple_A_var": "tuple[A, ...]", "tuple_B_var": "tuple[B, ...]",
    "tuple_int_var": "tuple[int, ...]", "tuple_Any_var": "tuple[Any, ...]",
    "tuple_A_Bvar": "tuple[A, Unpack[tuple[B, ...]]]", "tuple_Bvar_A": "tuple[Unpack[tuple[B, ...]], A]",
    "tuple_A_Bvar_C": "tuple[A, Unpack[tuple[B, ...]], C]", "tuple_A_B_B": "tuple[A, B, B]", "tuple_obj_obj": "tuple[object, object]", "tuple_obj": "tuple[object]",
    "tuple_Avar_obj": "tuple[Unpack[tuple[A, ...]], object]", "tuple_bare": "tuple",
    "NT": "NT", "NTsub": "NTsub", "NTA": "NTA", "NTG_int": "NTG[int]", "NTG_bool": "NTG[bool]",
    # typed dicts
    "TD1": "TD1", "TD2": "TD2", "TD2b": "TD2b", "TDopt": "TDopt", "TDro": "TDro", "TDroA": "TDroA", "TDroB": "TDroB",
    "TDmix": "TDmix", "TDy": "TDy", "TDzopt": "TDzopt", "TDroopt": "TDroopt", "TDG_int": "TDG[int]", "TDG_bool": "TDG[bool]",
    # callables
    "call_NT_A": "Callable[[NT], A]", "call_NTA_A": "Callable[[NTA], A]", "Contra_call_ell": "Contra[Callable[..., object]]",
    "Contra_call_A": "Contra[Callable[[A], B]]", "call_str_str": "Callable[[str], str]",
    "call_none": "Callable[[], None]", "call_A_A": "Callable[[A], A]", "call_B_A": "Callable[[B], A]",
    "call_A_B": "Callable[[A], B]", "call_A_B_none": "Callable[[A, B], None]", "call_ell_A": "Callable[..., A]",
    "call_ell_Any": "Callable[..., Any]", "call_int_str": "Callable[[int], str]", "call_ret_call": "Callable[[], Callable[[A], B]]",
    # Type[...]
    "Type_A": "Type[A]", "Type_B": "Type[B]", "Type_D": "Type[D]", "Type_E": "Type[E]", "Type_Any": "Type[Any]",
    "Type_object": "Type[object]", "Type_Color": "Type[Color]", "Type_HasX": "Type[HasX]", "Type_ImplX": "Type[ImplX]",
    "Type_int": "Type[int]", "Type_NT": "Type[NT]", "Type_A_or_E": "Type[Union[A, E]]", "Type_F": "Type[F]",
    "Type_Inv_A": "Type[Inv[A]]", "Type_None": "Type[None]", "Type_TD1": "Type[TD1]", "Type_tuple_A_B": "Type[tuple[A, B]]", "Type_Never": "Type[Never]", "Type_bool": "Type[bool]",
    # unions
    "A_or_E": "Union[A, E]", "B_or_E": "Union[B, E]", "Opt_A": "Optional[A]", "Opt_B": "Optional[B]",
    "int_or_str": "Union[int, str]", "int_or_None": "Optional[int]", "B_or_C": "Union[B, C]", "A_or_Any": "Union[A, Any]",
    "str_or_Lit_1": "Union[str, Literal[1]]", "Color_or_None": "Optional[Color]", "TD1_or_NT": "Union[TD1, NT]",
    "call_or_A": "Union[Callable[[A], A], A]", "Type_A_or_None": "Optional[Type[A]]", "list_A_or_list_B": "Union[list[A], list[B]]",
    "tuple_A_B_or_tuple_A": "Union[tuple[A, B], tuple[A]]", "int_or_float": "Union[int, float]",
    # recursive aliases
    "JSON": "JSON", "Nested": "Nested", "NestedB": "NestedB", "RecTup": "RecTup", "RecTupB": "RecTupB",
    "Tree_int": "Tree[int]", "Tree_bool": "Tree[bool]", "list_JSON": "list[JSON]", "Seq_Nested": "Sequence[Nested]",
}

# names read back from function symbols (FuncDef.type / OverloadedFuncDef.type)
FUNCS = ["f_pos", "f_posonly", "f_def", "f_star", "f_kw", "f_kwdef", "f_kwargs", "f_all", "f_td", "f_gen", "f_gen2",
         "f_genlist", "f_ov", "f_ov2"]
# argument names of tv_scope
TV_ARGS = ["tv_T", "tv_S", "tv_TB", "tv_TBB", "tv_TV", "tv_TU", "tv_list_T", "tv_seq_TB", "tv_opt_T", "tv_type_T",
           "tv_type_TB", "tv_call_T", "tv_call_P", "tv_call_cP", "tv_call_P_T", "tv_tuple_Ts", "tv_tuple_iTs",
           "tv_call_Ts", "tv_Var_Ts", "tv_union_T_int", "tv_tuple_T_S", "tv_inv_TB", "tv_co_T"]


def universe_source() -> str:
    lines = [PRELUDE, ""]
    for name, expr in ATOMS.items():
        lines.append(f"v_{name}: {expr}")
    return "\n".join(lines) + "\n"


def universe_names() -> list[str]:
    """Stable order of the depth-0/1 universe (index = type id used in tasks)."""
    return [*(f"v_{n}" for n in ATOMS), *FUNCS, *TV_ARGS, *FINALS, *(f"obj_{n}" for n in OBJS)]


# ---------------------------------------------------------------------------------------------------
# deeper random types: source expressions only (analysed by the real build)

_LEAVES = ["A", "B", "C", "D", "E", "F", "int", "bool", "str", "float", "None", "object", "Never", "Color", "Two2", "NT",
           "NTA", "TD1", "TD2", "TDro", "TDopt", "TDy", "TDzopt", "HasX", "HasXY", "ImplX", "ImplXY", "RecP", "ImplRec", "Closer",
           "ImplClose", "CallP", "ImplCall", "Literal[1]", "Literal['a']", "Literal[True]", "Literal[Color.R]",
           "Literal[Two2.ONE]", "Literal[Two2.TWO]", "JSON", "Nested", "NestedB", "RecTup", "InvB", "CoA", "Mixed",
           "bytes", "type", "Empty"]
_LEAVES_W = ["A", "B", "C", "D", "E", "int", "bool", "str", "None"]  # over-weighted: related leaves make premises true
_TV_LEAVES = ["T", "S", "TB", "TBB", "TV"]


def _expr(r: random.Random, depth: int, tv: bool) -> str:
    if depth <= 0 or r.random() < 0.12:
        if tv and r.random() < 0.2:
            return r.choice(_TV_LEAVES)
        return r.choice(_LEAVES_W) if r.random() < 0.5 else r.choice(_LEAVES)
    sub = lambda: _expr(r, depth - 1, tv)  # noqa: E731
    k = r.randrange(26)
    if k == 0:
        return f"Inv[{sub()}]"
    if k == 1:
        return f"Co[{sub()}]"
    if k == 2:
        return f"Contra[{sub()}]"
    if k == 3:
        return f"Two[{sub()}, {sub()}]"
    if k == 4:
        return f"list[{sub()}]"
    if k == 5:
        return f"Sequence[{sub()}]"
    if k == 6:
        return f"{r.choice(['dict', 'Mapping'])}[str, {sub()}]"
    if k == 7:
        return f"{r.choice(['GenP', 'SinkP'])}[{sub()}]"
    if k == 8:
        return f"CoSub[{sub()}]"
    if k in (9, 10):
        n = r.randint(2, 3)
        return "Union[" + ", ".join(sub() for _ in range(n)) + "]"
    if k == 11:
        return f"Optional[{sub()}]"
    if k in (12, 13):
        n = r.randint(1, 3)
        return "tuple[" + ", ".join(sub() for _ in range(n)) + "]"
    if k == 14:
        return f"tuple[{sub()}, ...]"
    if k == 15:
        return r.choice([f"tuple[{sub()}, Unpack[tuple[{sub()}, ...]]]", f"tuple[Unpack[tuple[{sub()}, ...]], {sub()}]"])
    if k in (16, 17):
        n = r.randint(0, 2)
        return "Callable[[" + ", ".join(sub() for _ in range(n)) + f"], {sub()}]"
    if k == 18:
        return f"Callable[..., {sub()}]"
    if k == 19:
        s = sub()
        # Type[...] of things mypy accepts without error
        return f"Type[{s}]" if not s.startswith(("Literal", "Callable", "Type", "Never")) else f"Type[{r.choice(_LEAVES_W[:5])}]"
    if k == 20:
        return f"Auto[{sub()}]"
    if k == 21:
        return f"AutoInv[{sub()}]"
    if k == 22:
        return f"NTG[{sub()}]"
    if k == 23:
        return f"TDG[{sub()}]"
    if k == 24:
        return f"Tree[{sub()}]"
    return f"Awaitable[{sub()}]" if r.random() < 0.5 else f"frozenset[{sub()}]"


def deep_exprs(r: random.Random, n: int) -> list[tuple[str, bool]]:
    """n distinct (expression, uses_typevars) of depth 2-3; some are deliberate near-variants of earlier ones
    (one leaf replaced by a related leaf) so that subtype premises hold often enough for transitivity."""
    out: list[tuple[str, bool]] = []
    seen: set[str] = set()
    rel = {"A": ["B", "C", "D", "object"], "B": ["D", "A"], "C": ["D", "A"], "D": ["B", "C", "Never"], "int": ["bool", "float", "object"],
           "bool": ["int", "Literal[True]"], "str": ["Literal['a']", "object"], "None": ["object"], "E": ["object", "A"],
           "object": ["A", "int"], "float": ["int"], "HasX": ["ImplX", "HasXY"], "ImplX": ["HasX"], "Color": ["Literal[Color.R]"],
           "TD1": ["TD2"], "TD2": ["TD1"], "NT": ["tuple[int, str]"]}
    import re
    tries = 0
    while len(out) < n and tries < n * 20:
        tries += 1
        if out and r.random() < 0.45:
            base, tv = r.choice(out)
            toks = [m for m in re.finditer(r"[A-Za-z_][A-Za-z0-9_]*(?![A-Za-z0-9_.'])", base)
                    if m.group(0) in rel and base[max(0, m.start() - 1):m.start()] not in (".", "'")]
            if not toks:
                continue
            m = r.choice(toks)
            e = base[:m.start()] + r.choice(rel[m.group(0)]) + base[m.end():]
        else:
            tv = r.random() < 0.15
            e = _expr(r, r.choice([2, 2, 3]), tv)
        if e in seen or len(e) > 160:
            continue
        seen.add(e)
        out.append((e, tv or any(re.search(rf"\b{t}\b", e) for t in _TV_LEAVES)))
    return out


def deep_source(exprs: list[tuple[str, bool]]) -> str:
    """Module `deep` declaring d_<i>: <expr> (type-variable-free) and one generic function holding the rest."""
    lines = ["from u import *", "from u import T, S, TB, TBB, TV", ""]
    tvs: list[tuple[int, str]] = []
    for i, (e, tv) in enumerate(exprs):
        if tv:
            tvs.append((i, e))
        else:
            lines.append(f"d_{i}: {e}")
    lines.append("def deep_scope(")
    for i, e in tvs:
        lines.append(f"    d_{i}: {e},")
    lines.append(") -> None: ...")
    return "\n".join(lines) + "\n"


def describe() -> dict[str, Any]:
    return {"atoms": len(ATOMS), "funcs": len(FUNCS), "tv_scoped": len(TV_ARGS)}
