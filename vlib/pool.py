"""Pool of long-lived /venv/bin/python workers speaking line-oriented JSON over pipes.

No multiprocessing.Pool (it hangs forever when a child dies): each worker is a plain subprocess
owned by one thread; a dead or hung worker is replaced and the task is reported as
{"ok": False, "timeout"/"died": True} so the caller can classify the case as inconclusive or,
for C20, as the event itself.
"""

from __future__ import annotations

import json
import os
import queue
import select
import subprocess
import threading
import time
from typing import Any, Callable, Iterable, Iterator

from . import common


class _Worker:
    def __init__(self, env: dict[str, str], idx: int, recycle_after: int) -> None:
        self.env = env
        self.idx = idx
        self.recycle_after = recycle_after
        self.proc: subprocess.Popen[bytes] | None = None
        self.served = 0
        self.buf = b""

    def start(self) -> None:
        env = dict(self.env)
        env["VERIF_WORKER_IDX"] = str(self.idx)
        self.proc = subprocess.Popen(
            [common.PY, "-u", "-m", "vlib.worker"], cwd=common.VERIF, env=env,
            stdin=subprocess.PIPE, stdout=subprocess.PIPE, stderr=subprocess.DEVNULL,
            start_new_session=True)
        self.served = 0
        self.buf = b""

    def stop(self) -> None:
        p = self.proc
        self.proc = None
        if p is None:
            return
        try:
            os.killpg(p.pid, 9)
        except OSError:
            pass
        try:
            p.kill()
        except OSError:
            pass
        try:
            p.wait(timeout=10)
        except Exception:
            pass
        for f in (p.stdin, p.stdout):
            try:
                if f:
                    f.close()
            except OSError:
                pass

    def call(self, task: dict[str, Any], timeout: float) -> dict[str, Any]:
        if self.proc is None or self.proc.poll() is not None or self.served >= self.recycle_after:
            self.stop()
            self.start()
        assert self.proc is not None and self.proc.stdin and self.proc.stdout
        self.served += 1
        t0 = time.time()
        try:
            self.proc.stdin.write(json.dumps(task).encode() + b"\n")
            self.proc.stdin.flush()
        except OSError:
            self.stop()
            return {"ok": False, "died": True, "exc": "worker pipe closed on send"}
        fd = self.proc.stdout.fileno()
        deadline = t0 + timeout
        while True:
            nl = self.buf.find(b"\n")
            if nl >= 0:
                line, self.buf = self.buf[:nl], self.buf[nl + 1:]
                try:
                    res = json.loads(line)
                except ValueError:
                    continue
                res["wall"] = time.time() - t0
                return res
            left = deadline - time.time()
            if left <= 0:
                self.stop()
                return {"ok": False, "timeout": True, "wall": time.time() - t0}
            r, _, _ = select.select([fd], [], [], min(left, 1.0))
            if r:
                chunk = os.read(fd, 1 << 16)
                if not chunk:
                    rc = self.proc.poll()
                    if rc is None:
                        try:
                            rc = self.proc.wait(timeout=5)
                        except Exception:
                            rc = None
                    self.stop()
                    return {"ok": False, "died": True, "returncode": rc, "wall": time.time() - t0}
                self.buf += chunk


class Pool:
    def __init__(self, n: int | None = None, env: dict[str, str] | None = None,
                 recycle_after: int = 150) -> None:
        self.n = n or common.NCPU
        self.env = env or common.base_env()
        self.workers = [_Worker(self.env, i, recycle_after) for i in range(self.n)]

    def close(self) -> None:
        for w in self.workers:
            w.stop()

    def __enter__(self) -> "Pool":
        return self

    def __exit__(self, *a: Any) -> None:
        self.close()

    def imap(self, tasks: Iterable[dict[str, Any]], timeout: float = 120.0,
             ) -> Iterator[tuple[dict[str, Any], dict[str, Any]]]:
        """Yield (task, result) pairs in completion order. Task dict: {"fn": "mod:func", "args": {...}}.

        Keys of the task starting with "_" are kept on the parent side only.
        """
        q: "queue.Queue[Any]" = queue.Queue(maxsize=self.n * 4)
        out: "queue.Queue[Any]" = queue.Queue()
        DONE = object()

        feeder_error: list[BaseException] = []

        def feeder() -> None:
            try:
                for t in tasks:
                    q.put(t)
            except BaseException as e:   # a crashing task generator must not hang the pool
                feeder_error.append(e)
            finally:
                for _ in self.workers:
                    q.put(DONE)

        def runner(w: _Worker) -> None:
            while True:
                t = q.get()
                if t is DONE:
                    out.put(DONE)
                    return
                wire = {k: v for k, v in t.items() if not k.startswith("_")}
                try:
                    res = w.call(wire, t.get("_timeout", timeout))
                except Exception as e:  # pool bug, never a verdict
                    res = {"ok": False, "pool_error": repr(e)}
                out.put((t, res))

        threading.Thread(target=feeder, daemon=True).start()
        for w in self.workers:
            threading.Thread(target=runner, args=(w,), daemon=True).start()
        done = 0
        while done < len(self.workers):
            item = out.get()
            if item is DONE:
                done += 1
                continue
            yield item
        if feeder_error:
            raise RuntimeError(f"task generator failed: {feeder_error[0]!r}") from feeder_error[0]

    def map(self, tasks: Iterable[dict[str, Any]], timeout: float = 120.0) -> list[tuple[dict[str, Any], dict[str, Any]]]:
        return list(self.imap(tasks, timeout))
