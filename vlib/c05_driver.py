"""Stand-alone driver process for C05/C06 (run as a script, imports nothing from vlib).

usage: python c05_driver.py <spec.json> <out.jsonl>

The same driver is run with the generated modules importable as *interpreted* .py files (reference) and as
mypyc-compiled extension modules (under test); only the import path differs.  Every observable goes through
one recorder and is appended to <out.jsonl> (one JSON object per driven call, flushed immediately, preceded by
a {"begin": call-id} line so that a process killed by a signal is attributable to the call that was running).

modes
  transcript  (C05) value / exception type+message / captured stdout / post-state of objects passed in
  mem         (C06) refcount deltas and liveness of tracked objects around calls (1 call and R calls on the same
              objects), allocated-block growth over repeated calls, forced failures of the k-th callback of
              hostile objects (k = 1..N), reads of unassigned locals/attributes
"""

from __future__ import annotations

import gc
import importlib
import io
import json
import os
import sys
import weakref

if hasattr(sys, "set_int_max_str_digits"):
    sys.set_int_max_str_digits(0)

MAX_DRAIN = 40
_native_classes: dict = {"H": ["v", "seq"], "IC": ["v", "items"]}


def show(v, depth=0, seen=None):
    """repr-with-type, free of addresses/ids; instances of classes under test are dumped field by field."""
    if depth > 6:
        return "<deep>"
    t = type(v)
    if v is None or t is bool or t is int or t is str or t is bytes or t is float:
        r = repr(v)
        if len(r) > 400:
            r = r[:200] + f"...({len(r)} chars)..." + r[-100:]
        return t.__name__ + ":" + r
    if seen is None:
        seen = set()
    if id(v) in seen:
        return "<cycle>"
    seen = seen | {id(v)}
    if t is list:
        return "list:[" + ", ".join(show(x, depth + 1, seen) for x in v[:60]) + ("" if len(v) <= 60 else f", ...{len(v)}") + "]"
    if t is tuple:
        return "tuple:(" + ", ".join(show(x, depth + 1, seen) for x in v[:60]) + ")"
    if t is dict:
        return "dict:{" + ", ".join(show(k, depth + 1, seen) + ": " + show(x, depth + 1, seen) for k, x in list(v.items())[:60]) + "}"
    if t is set or t is frozenset:
        return t.__name__ + ":{" + ", ".join(sorted(show(x, depth + 1, seen) for x in v)) + "}"
    if isinstance(v, BaseException):
        return "exc:" + t.__name__ + ":" + _msg(v)
    if isinstance(v, type):
        return "type:" + v.__name__
    name = t.__name__
    fields = _native_classes.get(name)
    if fields is None:
        for b in t.__mro__[1:]:
            if b.__name__ in _native_classes:
                fields = _native_classes[b.__name__]
                break
    if fields is not None:
        parts = []
        for f in fields:
            try:
                parts.append(f + "=" + show(getattr(v, f), depth + 1, seen))
            except Exception as e:  # noqa: BLE001 - undefined attribute is an observation
                parts.append(f + "=!" + type(e).__name__)
        return "<" + name + " " + " ".join(parts) + ">"
    if hasattr(v, "__next__"):
        return "<iterator>"
    if callable(v):
        return "<callable>"
    if name in ("range", "complex", "bytearray", "slice"):
        return name + ":" + repr(v)
    return "<" + name + ">"


def _msg(e):
    try:
        return str(e)[:300]
    except Exception as e2:  # noqa: BLE001
        return "<str failed: " + type(e2).__name__ + ">"


# ---------------------------------------------------------------------------------------------------------
# helper classes available to setup/call expressions

class Boom(Exception):
    """Raised by a hostile object's k-th callback."""


class _Ticker:
    def __init__(self):
        self.n = 0
        self.fail_at = None
        self.log = []

    def reset(self, fail_at=None):
        self.n = 0
        self.fail_at = fail_at
        self.log = []

    def tick(self, what):
        self.n += 1
        if len(self.log) < 200:
            self.log.append(what)
        if self.fail_at is not None and self.n == self.fail_at:
            raise Boom(what + "@" + str(self.n))


TICK = _Ticker()


class IC:
    """Plain interpreted class: tracked object / interpreted value passed into compiled code."""

    def __init__(self, v=0):
        self.v = v
        self.items = []

    def __repr__(self):
        return "IC(" + repr(self.v) + ")"

    def __eq__(self, o):
        return isinstance(o, IC) and self.v == o.v

    def __hash__(self):
        return hash(self.v) ^ 0x5A5A

    def bump(self, n=1):
        self.v += n
        return self.v


class H:
    """Hostile object: every special method is a counted callback that may be told to raise."""

    def __init__(self, v=0, items=None):
        self.v = v
        self.seq = list(items) if items is not None else [v, v + 1, v + 2]
        self.child = None

    def __repr__(self):
        TICK.tick("repr")
        return "H(" + repr(self.v) + ")"

    def __str__(self):
        TICK.tick("str")
        return "h" + str(self.v)

    def __format__(self, spec):
        TICK.tick("format")
        return "h" + format(self.v, spec)

    def __eq__(self, o):
        TICK.tick("eq")
        return isinstance(o, H) and self.v == o.v

    def __ne__(self, o):
        TICK.tick("ne")
        return not (isinstance(o, H) and self.v == o.v)

    def __lt__(self, o):
        TICK.tick("lt")
        return self.v < o.v

    def __le__(self, o):
        TICK.tick("le")
        return self.v <= o.v

    def __gt__(self, o):
        TICK.tick("gt")
        return self.v > o.v

    def __ge__(self, o):
        TICK.tick("ge")
        return self.v >= o.v

    def __hash__(self):
        TICK.tick("hash")
        return hash(self.v)

    def __bool__(self):
        TICK.tick("bool")
        return bool(self.v)

    def __len__(self):
        # not a counted callback: CPython's list/tuple builders call it as a length *hint* (PEP 424), an optimisation
        # that compiled code is free to skip
        return len(self.seq)

    def __iter__(self):
        TICK.tick("iter")
        return HIter(self.seq)

    def __getitem__(self, i):
        TICK.tick("getitem")
        return self.seq[i]

    def __setitem__(self, i, x):
        TICK.tick("setitem")
        self.seq[i] = x

    def __contains__(self, x):
        TICK.tick("contains")
        return x in self.seq

    def __call__(self, *a, **k):
        TICK.tick("call")
        return self.v + len(a) + len(k)

    def __add__(self, o):
        TICK.tick("add")
        return H(self.v + (o.v if isinstance(o, H) else o))

    def __radd__(self, o):
        TICK.tick("radd")
        return H(self.v + o)

    def __sub__(self, o):
        TICK.tick("sub")
        return H(self.v - (o.v if isinstance(o, H) else o))

    def __mul__(self, o):
        TICK.tick("mul")
        return H(self.v * (o.v if isinstance(o, H) else o))

    def __neg__(self):
        TICK.tick("neg")
        return H(-self.v)

    def __iadd__(self, o):
        TICK.tick("iadd")
        self.v += o.v if isinstance(o, H) else o
        return self

    def __int__(self):
        TICK.tick("int")
        return int(self.v)

    def __index__(self):
        TICK.tick("index")
        return int(self.v)

    def __float__(self):
        TICK.tick("float")
        return float(self.v)

    def __enter__(self):
        TICK.tick("enter")
        return self

    def __exit__(self, *a):
        TICK.tick("exit")
        return False

    @property
    def prop(self):
        TICK.tick("prop")
        return self.v

    def meth(self, x=0):
        TICK.tick("meth")
        return self.v + x

    def keys(self):
        TICK.tick("keys")
        return list(range(len(self.seq)))


class HIter:
    def __init__(self, seq):
        self.seq = list(seq)
        self.i = 0

    def __iter__(self):
        return self

    def __next__(self):
        TICK.tick("next")
        if self.i >= len(self.seq):
            raise StopIteration
        self.i += 1
        return self.seq[self.i - 1]


def fresh_int(k):
    """A big int object that is not cached/immortal."""
    return (1 << 70) + int(k)


def fresh_str(k):
    return "".join(["tracked-", str(k), "-", "x" * 5])


HELPERS = {"IC": IC, "H": H, "HIter": HIter, "Boom": Boom, "TICK": TICK, "fresh_int": fresh_int, "fresh_str": fresh_str}


# ---------------------------------------------------------------------------------------------------------

class Out:
    def __init__(self, path):
        self.f = open(path, "a", buffering=1)

    def put(self, obj):
        self.f.write(json.dumps(obj, default=repr) + "\n")
        self.f.flush()


def outcome(ns, call, drain=True):
    """Evaluate the call expression; returns (events, result-or-None)."""
    ev = []
    try:
        res = eval(call, ns)  # noqa: S307 - generated driver expression
    except BaseException as e:  # noqa: BLE001 - the exception is the observation
        if isinstance(e, (KeyboardInterrupt, SystemExit)):
            raise
        ev.append(["exc", type(e).__name__, _msg(e)])
        e = None
        return ev, None
    if drain and hasattr(res, "__next__") and not isinstance(res, (HIter,)):
        ev.append(["ret", "<iterator>"])
        n = 0
        while n < MAX_DRAIN:
            try:
                x = next(res)
            except StopIteration as s:
                ev.append(["stop", show(s.value)])
                break
            except BaseException as e:  # noqa: BLE001
                if isinstance(e, (KeyboardInterrupt, SystemExit)):
                    raise
                ev.append(["exc", type(e).__name__, _msg(e)])
                e = None
                break
            ev.append(["yield", show(x)])
            n += 1
        else:
            ev.append(["drain-limit"])
            try:
                res.close()
            except BaseException as e:  # noqa: BLE001
                ev.append(["close-exc", type(e).__name__, _msg(e)])
        return ev, None
    ev.append(["ret", show(res)])
    return ev, res


def run_setup(ns, setup):
    for s in setup:
        try:
            exec(s, ns)  # noqa: S102 - generated driver statement
        except BaseException as e:  # noqa: BLE001
            if isinstance(e, (KeyboardInterrupt, SystemExit)):
                raise
            return ["setup-exc", type(e).__name__, _msg(e), s[:80]]
    return None


def do_transcript(ns, call):
    local = dict(ns)
    ev = []
    se = run_setup(local, call.get("setup", []))
    if se:
        return [se]
    buf = io.StringIO()
    old = sys.stdout
    sys.stdout = buf
    TICK.reset(None)
    try:
        oev, _ = outcome(local, call["call"])
    finally:
        sys.stdout = old
    nticks = TICK.n
    tlog = list(TICK.log)
    TICK.reset(None)
    ev += oev
    ev.append(["out", buf.getvalue()[:2000]])
    for p in call.get("post", []):
        try:
            ev.append(["post", p, show(eval(p, local))])  # noqa: S307
        except BaseException as e:  # noqa: BLE001
            ev.append(["post-exc", p, type(e).__name__, _msg(e)])
    if call.get("hostile") and nticks:
        # the sequence of callbacks into interpreted objects is an effect on objects passed in; then each callback
        # position is forced to raise once: the exception must surface (or be handled) exactly as in CPython
        ev.append(["callbacks", " ".join(tlog[:60])])
        for k in range(1, min(nticks, int(call.get("max_fail", 10))) + 1):
            local = dict(ns)
            if run_setup(local, call.get("setup", [])):
                break
            sys.stdout = io.StringIO()
            TICK.reset(k)
            try:
                fev, _ = outcome(local, call["call"])
            finally:
                sys.stdout = old
            TICK.reset(None)
            ev.append(["forced", k, fev[-1][:3] if fev else None])
    return ev


def _quiet_call(local, call):
    """Run the call with stdout discarded; the result is dropped; returns the short outcome."""
    old = sys.stdout
    sys.stdout = io.StringIO()
    try:
        oev, res = outcome(local, call)
    finally:
        sys.stdout = old
    res = None
    last = oev[-1] if oev else ["none"]
    first = oev[0] if oev else ["none"]
    return [first[:3], last[:3]] if len(oev) > 1 else [first[:3]]


def _trackable(v):
    """Objects whose reference count is meaningful: never immortal / cached / interned ones."""
    t = type(v)
    if v is None or t is bool or t is float or t is bytes:
        return False
    if t is int:
        # ints that fit a tagged short int are unboxed/re-boxed by compiled code (documented: identity not preserved)
        return v >= (1 << 62) or v < -(1 << 62)
    if t is str:
        return v.startswith("tracked-")
    if t is tuple:
        return False  # fixed-length tuples are unboxed too
    return not isinstance(v, type) and not callable(v) or isinstance(v, H)


def _refs(local, names):
    out = []
    for n in names:
        try:
            out.append(sys.getrefcount(local[n]))
        except KeyError:
            out.append(None)
    return out


def _weak(local, names):
    out = {}
    for n in names:
        try:
            out[n] = weakref.ref(local[n])
        except (TypeError, KeyError):
            pass
    return out


def measure(ns, call, fail_at=None, reps=0):
    """One monitored execution: fresh setup, refcounts before, call, drop, collect, refcounts after."""
    local = dict(ns)
    TICK.reset(None)
    se = run_setup(local, call.get("setup", []))
    if se:
        return {"setup": se}
    names = call.get("tracked")
    if names is None:
        names = sorted(n for n in local if n not in ns and _trackable(local[n]))
    gc.collect()
    rc0 = _refs(local, names)
    TICK.reset(fail_at)
    oc = _quiet_call(local, call["call"])
    ticks = TICK.n
    log = list(TICK.log)
    TICK.reset(None)
    gc.collect()
    rc1 = _refs(local, names)
    rec = {"oc": oc, "names": names, "d1": [None if a is None or b is None else b - a for a, b in zip(rc0, rc1)], "ticks": ticks}
    if fail_at is None:
        rec["log"] = log[:60]
    if reps:
        for _ in range(reps):
            _quiet_call(local, call["call"])
            # calls that grow their arguments (a0.extend(a0)) must not be repeated into a memory blow-up
            if any(type(local.get(n)) in (list, dict, set, str, bytes) and len(local[n]) > 3000 for n in local if n not in ns):
                break
        gc.collect()
        rc2 = _refs(local, names)
        rec["dR"] = [None if a is None or b is None else b - a for a, b in zip(rc0, rc2)]
    weak = _weak(local, names)
    post = []
    for p in call.get("post", []):
        try:
            post.append(show(eval(p, local)))  # noqa: S307
        except BaseException as e:  # noqa: BLE001
            post.append("!" + type(e).__name__)
    if post:
        rec["post"] = post
    for n in list(local):
        if n not in ns:
            del local[n]
    local = None
    gc.collect()
    rec["alive"] = sorted(n for n, w in weak.items() if w() is not None)
    return rec


def blocks_growth(ns, call, warm, n):
    def once():
        local = dict(ns)
        if run_setup(local, call.get("setup", [])):
            return
        _quiet_call(local, call["call"])

    for _ in range(warm):
        once()
    gc.collect()
    b0 = sys.getallocatedblocks()
    for _ in range(n):
        once()
    gc.collect()
    b1 = sys.getallocatedblocks()
    for _ in range(n):
        once()
    gc.collect()
    b2 = sys.getallocatedblocks()
    return [b1 - b0, b2 - b1]


def do_mem(ns, call, spec):
    rec = {}
    reps = int(spec.get("reps", 50))
    base = measure(ns, call, None, reps)
    rec["base"] = base
    if "setup" in base:
        return rec
    if call.get("hostile"):
        n = min(base.get("ticks", 0), int(spec.get("max_fail", 24)))
        fails = []
        for k in range(1, n + 1):
            fails.append(measure(ns, call, k, 0))
        rec["fails"] = fails
    if spec.get("blocks") and not call.get("noblocks"):
        rec["blocks"] = blocks_growth(ns, call, int(spec.get("warm", 15)), int(spec.get("block_reps", 60)))
    return rec


def main():
    spec_path, out_path = sys.argv[1], sys.argv[2]
    with open(spec_path) as f:
        spec = json.load(f)
    out = Out(out_path)
    sys.path.insert(0, os.getcwd())
    ns = dict(HELPERS)
    ns["__builtins__"] = __builtins__
    kinds = {}
    try:
        for name in spec["modules"]:
            m = importlib.import_module(name)
            kinds[name] = "so" if (getattr(m, "__file__", "") or "").endswith(".so") else "py"
            for k, v in vars(m).items():
                if not k.startswith("__"):
                    ns[k] = v
            ns[name] = m
    except BaseException as e:  # noqa: BLE001 - import failure is an observation of its own
        import traceback
        out.put({"import_error": [type(e).__name__, _msg(e)], "tb": traceback.format_exc()[-1500:]})
        return 3
    out.put({"loaded": kinds})
    _native_classes.update(spec.get("classes", {}))
    if spec.get("prelude"):
        exec(spec["prelude"], ns)  # noqa: S102
    skip = set(spec.get("skip", []))
    mode = spec.get("mode", "transcript")
    for unit in spec["units"]:
        if unit["name"] in skip:
            continue
        for call in unit["calls"]:
            if call["id"] in skip:
                continue
            out.put({"begin": call["id"], "u": unit["name"]})
            if mode == "transcript":
                out.put({"c": call["id"], "u": unit["name"], "ev": do_transcript(ns, call)})
            else:
                out.put({"c": call["id"], "u": unit["name"], "mem": do_mem(ns, call, spec)})
    out.put({"done": True})
    return 0


if __name__ == "__main__":
    sys.exit(main())
