"""C11 workload: a small package whose *source* makes the real analyser produce every serialized
symbol-node kind, (almost) every flag of the classes' flag tables (VAR_FLAGS, FUNCDEF_FLAGS,
FUNCBASE_FLAGS, TypeInfo.FLAGS) and every Type subclass that can reach a cache file, each with its
optional components present and absent.  (Flags no source program can put on an exported node are
covered by the flag-vector part of the contract, which sets them on real nodes directly.)

`package(variant, rng)` returns {relative path: text}; variants permute names/values/orders so that
different seeds give different interfaces.
"""

from __future__ import annotations

import random

DEP = '''
from __future__ import annotations
import enum
from typing import TypedDict, NamedTuple, Protocol, TypeVar, Generic, Callable, Final, overload
from typing_extensions import deprecated, ParamSpec, TypeVarTuple, Unpack, Required, NotRequired, ReadOnly

T_dep = TypeVar("T_dep")
P_dep = ParamSpec("P_dep")
Ts_dep = TypeVarTuple("Ts_dep")

class Movie(TypedDict, total=False):
    {td_fields}

class Point(NamedTuple):
    x: int
    y: float = 0.0

class Color(enum.Enum):
    {enum_members}
    @enum.member
    def as_member(self) -> int: return 1
    @enum.nonmember
    def not_member(self) -> int: return 2
    def describe(self) -> str: return self.name

class Flagged(enum.Flag):
    A = enum.auto()
    B = enum.auto()

class SupportsClose(Protocol):
    def close(self) -> None: ...

class Box(Generic[T_dep]):
    item: T_dep
    def __init__(self, item: T_dep) -> None:
        self.item = item
    def get(self) -> T_dep: return self.item

def plain(x: int, /, y: str = "", *args: bytes, key: bool = True, **kw: float) -> None: ...
alias_of_plain = plain

@deprecated("old api {tag}")
def old_api(x: int) -> int: return x

@overload
def ov(x: int) -> int: ...
@overload
def ov(x: str) -> str: ...
def ov(x: object) -> object: return x

DEP_CONST: Final = {const}
'''

MAIN = '''
from __future__ import annotations
import abc
import sys
import types
import asyncio
import dataclasses
import enum
import functools
import collections
import nosuchmodule_c11  # type: ignore
from dataclasses import dataclass, field, KW_ONLY
from typing import (Any, AnyStr, Awaitable, Callable, ClassVar, Concatenate, Final, Generic, Iterator, AsyncIterator,
                    Generator, Literal, NamedTuple, NewType, NoReturn, Optional, Protocol, Sequence, Type, TypeVar,
                    TypedDict, Union, overload, runtime_checkable, TYPE_CHECKING, final, Annotated, Mapping,
                    type_check_only)
from typing_extensions import (ParamSpec, TypeVarTuple, Unpack, Self, TypeGuard, TypeIs, TypeAlias, Never, LiteralString,
                               Required, NotRequired, ReadOnly, override, deprecated, dataclass_transform, TypeAliasType,
                               disjoint_base, TypeForm)
from {dep} import (Movie, Point, Color, Flagged, SupportsClose, Box, plain, alias_of_plain, old_api, ov, DEP_CONST,
                   T_dep, P_dep, Ts_dep)
import {dep} as depmod
from {dep} import Box as ReBox

# ---- type variables of every kind, with and without optional parts -------------------------
T = TypeVar("T")
T_co = TypeVar("T_co", covariant=True)
T_contra = TypeVar("T_contra", contravariant=True)
TB = TypeVar("TB", bound="Base")
TV = TypeVar("TV", int, str)
TD = TypeVar("TD", default=int)
P = ParamSpec("P")
PD = ParamSpec("PD", default=[int, str])
Ts = TypeVarTuple("Ts")
TsD = TypeVarTuple("TsD", default=Unpack[tuple[int, str]])

# ---- aliases --------------------------------------------------------------------------------
IntList = list[int]
Pair: TypeAlias = tuple[T, T]
Nested = Union[int, Sequence["Nested"]]
JSON = Union[None, bool, int, float, str, list["JSON"], dict[str, "JSON"]]
Cb = Callable[P, T]
Explicit = TypeAliasType("Explicit", dict[str, T], type_params=(T,))
NoArgs: TypeAlias = "Base"
OptStr = Optional[str]
Pep604 = int | str | None
LitAlias = Literal[1, "a", b"b", True, None, Color.{enum_first}]
AnnAlias = Annotated[int, "meta"]
VarTuple = tuple[int, Unpack[Ts], str]
UserId = NewType("UserId", int)

# ---- variables: every VAR flag reachable from source ---------------------------------------
plain_int = {ival}
annotated_only: int
inferred_list = [1, 2, 3]
inferred_dict = {{"k": [1.5]}}
opt_default: Optional[Base] = None
FINAL_INT: Final = {fint}
FINAL_STR: Final = "{fstr}"
FINAL_BOOL: Final = {fbool}
FINAL_FLOAT: Final = {ffloat}
FINAL_NEG: Final = -{fint}
FINAL_BYTES: Final = b"raw"
FINAL_ANN: Final[Sequence[int]] = ()
final_tuple: Final = (1, "x")
literal_var: Literal["on", "off"] = "on"
type_var: Type[Base]
type_form_any: type
never_fn_result: Callable[[], NoReturn]
callable_ellipsis: Callable[..., int]
callable_kw: Callable[[int, str], Optional[bytes]] = lambda a, b: None
partial_obj = functools.partial(plain, 1)
for index_var in range(3):
    pass
with open(__file__) as with_var:
    pass
try:
    pass
except (OSError, ValueError) as exc_var:
    pass
if sys.version_info >= (3, 99):
    unreachable_var = 1
else:
    reachable_var = "s"
if TYPE_CHECKING:
    only_for_checker: int = 0
    def mypy_only_func() -> None: ...
walrus_holder = [(wal := 10), wal]
star_a, *star_rest = [1, 2, 3]
del_later = 1
del del_later
lam = lambda x: x
narrowed_or = plain_int or "fallback"
movie: Movie = {{"title": "x"}}
anon_td = TypedDict("anon_td", {{"a": int, "b": NotRequired[str]}})
point = Point(1)
nt_functional = NamedTuple("nt_functional", [("p", int), ("q", "Base")])
enum_functional = enum.Enum("enum_functional", "RED GREEN")
color_member = Color.{enum_first}
dep_const_copy = DEP_CONST
module_alias = depmod
# module objects *inside* a type (Instance of types.ModuleType carrying extra_attrs), not a module alias
module_in_list = [depmod]
module_in_tuple = (depmod, 1)
module_in_dict = {{"m": depmod}}
def module_returner(flag: bool = False): return [depmod] if flag else []
uid = UserId(5)
any_explicit: Any = 1
from_untyped_import = nosuchmodule_c11.thing
unannotated_call = nosuchmodule_c11.f()

def __getattr__(name: str) -> int: ...

# ---- functions: every FUNCDEF flag reachable from source -----------------------------------
def untyped(a, b=1, *c, d, **e): return a
def typed(a: int, b: str = "x", /, c: float = 1.0, *, d: bytes = b"") -> list[int]: return [a]
def typed_pos_only(__a: int, __b: str) -> None: ...
def trivial() -> int: ...
def no_return() -> NoReturn: raise RuntimeError
def never_arg(x: Never) -> None: ...
def gen() -> Iterator[int]: yield 1
def gen_full() -> Generator[int, str, bool]:
    x = yield 1
    return True
async def coro(x: int) -> str: return ""
async def agen() -> AsyncIterator[int]: yield 1
@types.coroutine
def awaitable_coro() -> Generator[Any, None, int]: yield; return 1
def generic_fn(x: T, y: Sequence[T]) -> dict[str, T]: return {{}}
def bounded(x: TB) -> TB: return x
def valued(x: TV) -> TV: return x
def defaulted(x: TD) -> list[TD]: return [x]
def guard(x: object) -> TypeGuard[int]: return True
def narrower(x: object) -> TypeIs[str]: return True
def pspec(f: Callable[P, T]) -> Callable[P, list[T]]: ...
def concat(f: Callable[Concatenate[int, P], T]) -> Callable[P, T]: ...
def variadic(*args: Unpack[Ts]) -> tuple[Unpack[Ts]]: return args
def variadic_prefix(*args: Unpack[tuple[int, Unpack[Ts]]]) -> None: ...
def homog(*args: Unpack[tuple[int, ...]]) -> None: ...
def kw_unpack(**kwargs: Unpack[Movie]) -> None: ...
def star_kw(*a: int, **k: str) -> None: ...
def lit(x: Literal[1, 2], y: LiteralString = "") -> Literal["r"]: return "r"
def returns_type(x: Type[T]) -> T: return x()
def returns_callable() -> Callable[[Callable[..., T]], T]: ...
def anystr(a: AnyStr, b: AnyStr) -> AnyStr: return a
def default_expr(x: int = len("abc"), y: Optional[list[int]] = None) -> None: ...
@deprecated("use typed() instead {tag}")
def dep_func() -> None: ...
@functools.lru_cache(maxsize=None)
def cached(x: int) -> int: return x
@functools.wraps(typed)
def wrapped(*a: Any, **k: Any) -> Any: ...
@pspec
def decorated_by_pspec(a: int, *, b: str) -> float: return 1.0
if plain_int:
    def conditional(x: int) -> int: return x
else:
    def conditional(x: int) -> int: return -x
@overload
def over(x: int) -> int: ...
@overload
def over(x: str, y: int = ...) -> str: ...
@overload
@deprecated("bytes overload {tag}")
def over(x: bytes) -> bytes: ...
def over(x: Any, y: Any = 0) -> Any: return x
@dataclass_transform(eq_default=False, order_default=True, kw_only_default=True, frozen_default=True,
                     field_specifiers=(field,))
def my_dataclass(cls: type[T]) -> type[T]: return cls
@type_check_only
def hidden_at_runtime() -> None: ...
def form(x: TypeForm[T]) -> T: ...

# ---- classes: every TypeInfo flag reachable from source ------------------------------------
class Base:
    attr: int = 0
    cvar: ClassVar[dict[str, int]] = {{}}
    CONST: Final = 3
    __slots__ = ("s1", "s2")
    def __init__(self, s1: int = 0) -> None:
        self.s1 = s1
        self.s2: Optional[str] = None
    def method(self, x: int) -> Self: return self
    @classmethod
    def make(cls) -> Self: return cls()
    @staticmethod
    def util(x: int) -> int: return x
    @property
    def ro(self) -> int: return 1
    @property
    def rw(self) -> int: return 1
    @rw.setter
    def rw(self, v: int | str) -> None: ...
    @rw.deleter
    def rw(self) -> None: ...
    @functools.cached_property
    def cached_prop(self) -> str: return ""
    @final
    def sealed(self) -> None: ...
    def explicit_self(self: TB, other: TB) -> TB: return self
    def __eq__(self, other: object) -> bool: return True
    __hash__ = None  # type: ignore
    method_alias = method
    class Inner:
        deep: int = 1
        class Innermost: ...

class Derived(Base, SupportsClose):
    __slots__ = ()
    @override
    def method(self, x: int) -> Self: return self
    def close(self) -> None: ...
    attr = 5

@final
class Sealed(Derived): ...

@disjoint_base
class Solid: ...

class Abstract(abc.ABC):
    @abc.abstractmethod
    def must(self) -> int: ...
    @property
    @abc.abstractmethod
    def must_prop(self) -> int: ...
    @abc.abstractmethod
    def with_body(self) -> int: return 1
    @overload
    @abc.abstractmethod
    def ov_abs(self, x: int) -> int: ...
    @overload
    @abc.abstractmethod
    def ov_abs(self, x: str) -> str: ...
    @abc.abstractmethod
    def ov_abs(self, x: Any) -> Any: ...

class Meta(type):
    def __call__(cls, *a: Any, **k: Any) -> Any: ...
    meta_attr: int
class WithMeta(metaclass=Meta): ...
class SubMeta(WithMeta): ...

@runtime_checkable
class Proto(Protocol[T_co]):
    name: str
    @property
    def value(self) -> T_co: ...
    def implicit_abstract(self) -> int: ...
    def with_default(self) -> int: return 0
class ProtoCall(Protocol):
    def __call__(self, x: int, *, flag: bool = ...) -> str: ...
class ProtoSelf(Protocol):
    def clone(self: T) -> T: ...

class GenericTwo(Generic[T, T_contra]):
    def feed(self, x: T_contra) -> T: ...
class GenericDefault(Generic[T, TD]): ...
class GenericP(Generic[P, T]):
    f: Callable[P, T]
class GenericTs(Generic[T, Unpack[Ts]]):
    def args(self) -> tuple[T, Unpack[Ts]]: ...
class SubBox(Box[int]): ...
class SubBoxT(Box[list[T]], Generic[T]): ...
class FromAny(nosuchmodule_c11.Base):  # fallback_to_any
    x: int
class MetaAny(metaclass=nosuchmodule_c11.Meta):  # meta_fallback_to_any
    pass
class TupleSub(tuple[int, str]): ...
class StrSub(str): ...
class DictSub(dict[str, T]): ...

class NT(NamedTuple):
    a: int
    b: list[str] = []
    def total(self) -> int: return self.a
class NTGeneric(NamedTuple, Generic[T]):
    item: T
class TDTotal(TypedDict):
    {td2_fields}
class TDChild(TDTotal, total=False):
    extra: ReadOnly[list[int]]
class TDGeneric(TypedDict, Generic[T]):
    payload: T
class TDSelfRef(TypedDict):
    children: list["TDSelfRef"]
class TDGenericRec(TypedDict, Generic[T]):   # implicit alias referenced (with arguments) before the class itself is fixed up
    val: T
    children: list["TDGenericRec[T]"]
class NTGenericRec(NamedTuple, Generic[T]):
    val: T
    nxt: Optional["NTGenericRec[T]"]
class AHolderOfGenericNT(TypedDict):          # sorts before NTGeneric: resolves NTGeneric's implicit alias first
    held: NTGeneric[int]
    rec: NTGenericRec[str]
class ZHolderOfGenericTD(NamedTuple):         # sorts after TDGeneric
    held: TDGeneric[int]
    rec: TDGenericRec[bytes]
def use_generic_special(a: NTGeneric[str], b: TDGeneric[str], c: NTGenericRec[int], d: TDGenericRec[int]) -> None: ...

class Shade(enum.Enum):
    LIGHT = 1
    DARK = "dark"
    _ignore_ = ["tmp"]
    aliased = LIGHT
    def helper(self) -> int: return 0
class IntShade(enum.IntEnum):
    ONE = 1
    TWO = 2
class StrShade(str, enum.Enum):
    S = "s"
class AutoShade(enum.Enum):
    A = enum.auto()

@dataclass
class DC:
    a: int
    b: str = "x"
    c: list[int] = field(default_factory=list)
    _: KW_ONLY
    d: float = 0.0
    e: ClassVar[int] = 1
    f: dataclasses.InitVar[int] = 0
@dataclass(frozen=True, order=True, slots=True, kw_only=True)
class DCFrozen:
    k: int
    def __post_init__(self) -> None: ...
@dataclass
class DCChild(DC):
    g: Optional["DCChild"] = None
@dataclass
class DCGeneric(Generic[T]):
    item: T
    items: list[T] = field(default_factory=list)
@my_dataclass
class Transformed:
    z: int
class TransformBase:
    def __init_subclass__(cls, *, frozen: bool = False) -> None: ...
@dataclass_transform()
class TransformMeta(type): ...
class ViaMeta(metaclass=TransformMeta):
    q: int

@deprecated("class gone {tag}")
class OldClass:
    @deprecated("method gone")
    def m(self) -> None: ...
@type_check_only
class OnlyWhenChecking: ...

class SelfTyped:
    def chain(self) -> Self: return self
    @classmethod
    def build(cls) -> Self: return cls()
    nxt: Optional[Self] = None
class UsesInit:
    def __init__(self) -> None:
        self.from_init = 1
        self.from_init_ann: list[Base] = []
        self.final_in_init: Final = "f"
    def later(self) -> None:
        self.from_method = 2.5
    final_unset: Final[int]
class Descriptor:
    @overload
    def __get__(self, inst: None, owner: type) -> Self: ...
    @overload
    def __get__(self, inst: object, owner: type) -> int: ...
    def __get__(self, inst: Any, owner: Any) -> Any: ...
    def __set__(self, inst: object, value: str) -> None: ...
class HasDescriptor:
    d = Descriptor()
class CallableObj:
    def __call__(self, x: int) -> str: ...
class Nested1:
    class Nested2:
        class Nested3:
            leaf: "Nested1.Nested2"
class ConcreteA(Abstract):
    def must(self) -> int: return 1
    @property
    def must_prop(self) -> int: return 1
    def with_body(self) -> int: return 1
    def ov_abs(self, x: Any) -> Any: ...
class ConcreteB(ConcreteA): ...
class ConcreteC(ConcreteA): ...
joined_class_objects = [ConcreteB, ConcreteC]            # CallableType.from_type_type via join
abstract_class_objects = {{"b": ConcreteA, "c": ConcreteB}}
class EllipsisBase(GenericP[..., int]): ...               # Parameters.is_ellipsis_args
ellipsis_val: GenericP[..., str]
@dataclass(order=True)
class OrderedWithCustomLt:
    name: str = "n"
    def __lt__(self, other: "OrderedWithCustomLt") -> bool: ...   # reported; generated one kept as '__lt__-redefinition'
IntBox = Box[int]
box_inst = Box(1)
box_of_box: Box[Box[Optional[Movie]]]
cls_alias = Base
cls_alias_generic = Box
bound_method = Base().method
unbound_method = Base.method
class_method_ref = Base.make
static_ref = Base.util
prop_obj = Base.ro
overloaded_ref = over
type_of_class: type[Base] = Base
union_of_types: Union[type[Base], type[int]]
tuple_homog: tuple[int, ...] = ()
tuple_empty: tuple[()] = ()
tuple_fixed = (1, "a", None, 2.0, b"", Base())
named_tuple_inst = NT(1)
typed_dict_inst: TDChild
literal_enum: Literal[Shade.LIGHT]
literal_bool: Literal[True]
literal_neg: Literal[-3]
nested_alias_val: Nested = [1, [2]]
json_val: JSON = None
explicit_alias_val: Explicit[int] = {{}}
pair_val: Pair[str] = ("a", "b")
cb_val: Cb[[int], str]
cb_concat: Callable[Concatenate[int, P_dep], int]
vartuple_val: VarTuple[float, bool]
generic_ts_val: GenericTs[int, str, bytes]
generic_p_val: GenericP[[int, str], bool]
proto_val: Proto[int]
proto_call_val: ProtoCall
async_val = coro(1)
gen_val = gen()
instance_last_known = "literal-str"
int_last_known: Final = 17
'''

PEP695 = '''
from typing import Callable, Sequence

class Stack[T]:
    def push(self, x: T) -> None: ...
    def pop(self) -> T: ...
class Bounded[T: (int, str), U: Sequence[int]]: ...
class Multi[T, *Ts, **P]:
    f: Callable[P, tuple[T, *Ts]]
def first[T](xs: Sequence[T]) -> T: return xs[0]
def call[**P, R](f: Callable[P, R], *a: P.args, **k: P.kwargs) -> R: return f(*a, **k)
def pack[*Ts](*a: *Ts) -> tuple[*Ts]: return a
type ListOrSet[T] = list[T] | set[T]
type Recursive = int | list[Recursive]
type Plain = int
type WithPS[**P] = Callable[P, int]
type WithTs[*Ts] = tuple[int, *Ts]
class Variance[T_in, T_out]:
    def take(self, x: T_in) -> None: ...
    def give(self) -> T_out: ...
'''


def bounds_module(variant: int, rng: random.Random) -> str:
    """Values at the boundaries of the binary format's variable-length encodings (ints, string/list lengths),
    as Final values, Literal types, long tuples/unions/signatures, deep nesting; plus unusual-but-legal text."""
    out = ["from typing import Final, Literal, Union, Callable, TypedDict, NamedTuple, Optional", "import enum", ""]
    ints: list[int] = []
    for k in range(0, 71):
        for d in (-1, 0, 1):
            ints += [2 ** k + d, -(2 ** k) + d]
    ints += [10 ** 30, -10 ** 30, 0] + [rng.randrange(-2 ** 70, 2 ** 70) for _ in range(20)] + [rng.randrange(-300, 300) for _ in range(20)]
    seen: set[int] = set()
    for v in ints:
        if v in seen:
            continue
        seen.add(v)
        n = f"{'m' if v < 0 else 'p'}{abs(v)}"
        out.append(f"I_{n}: Final = {v}")
        out.append(f"L_{n}: Literal[{v}]")
    lens = [0, 1, 2, 63, 64, 127, 128, 129, 255, 256, 257, 4095, 4096, 16383, 16384, 16385, 65535, 65536, 70001, rng.randrange(3, 3000)]
    alphabets = ["a", "\u00e9", "\u4e2d", "\U0001f600"]
    for ln in lens:
        for ai, ch in enumerate(alphabets if ln <= 4096 else alphabets[:2]):
            out.append(f'S_{ln}_{ai}: Final = "{ch * ln}"')
            if ln <= 300:
                out.append(f'LS_{ln}_{ai}: Literal["{ch * ln}"]')
    out.append('ESC: Final = "tab\\t nl\\n quote\\" backslash\\\\ nul\\x00 bell\\x07 del\\x7f"')
    out.append('BYTES_LIT: Literal[b"\\x00\\xff raw"]')
    for name, val in [("F_zero", "0.0"), ("F_negzero", "-0.0"), ("F_big", "1.7976931348623157e308"), ("F_tiny", "5e-324"),
                      ("F_inf", "1e999"), ("F_neginf", "-1e999"), ("F_third", "0.1"), ("C_j", "1j"), ("C_mixed", "2.5-3j")]:
        out.append(f"{name}: Final = {val}")
    for n in (1, 2, 127, 128, 255, 256, 300):
        out.append(f"T_{n} = ({', '.join(str(i % 7) for i in range(n))},)")
        out.append(f"U_{n}: Union[{', '.join(f'Literal[{i}]' for i in range(n))}]")
        out.append(f"def f_{n}({', '.join(f'a{i}: int = 0' for i in range(n))}) -> None: ...")
        out.append(f"class K_{n}:\n" + "\n".join(f"    m{i}: int = {i}" for i in range(n)))
        out.append(f"TD_{n} = TypedDict('TD_{n}', {{{', '.join(repr('k%d' % ((i * 7919) % 1000 + 1000 * i)) + ': int' for i in range(n))}}})")
        out.append(f"E_{n} = enum.Enum('E_{n}', {[f'v{i}' for i in range(n)]!r})")
    depth = 40
    out.append("deep: " + "list[" * depth + "int" + "]" * depth)
    out.append("deep_cb: " + "Callable[[int], " * 30 + "int" + "]" * 30)
    out.append("deep_opt: " + "Optional[tuple[int, " * 25 + "None" + "]]" * 25)
    out.append("\u00fcnic\u00f6de_name: Final = 1")
    out.append("class \u00c4rger:\n    \u00e4ttr: 'Optional[\u00c4rger]' = None")
    out.append("_: int = 0\n__: int = 0\n__dunder__: int = 0\n_private_name: int = 0")
    return "\n".join(out) + "\n"


NESTING = {
    "c11deep/__init__.py": "from c11deep.er import mod as mod\nfrom c11deep.er.mod import Out\nfrom .er import er\n",
    "c11deep/er/__init__.py": "er = 1\nfrom . import mod\n",
    "c11deep/er/mod.py": ("import c11deep\nclass Out:\n    class In1:\n        class In2:\n            class In3:\n                leaf: 'Out.In1.In2' = None  # type: ignore\n"
                          "                def back(self) -> 'c11deep.er.mod.Out.In1': ...\n"
                          "def factory():\n    class Local:\n        x: int = 1\n        def me(self) -> 'Local': return self\n    return Local()\n"
                          "made = factory()\nalias4 = Out.In1.In2.In3\nalias_val: Out.In1.In2.In3\n"
                          "def two():\n    class Local:\n        y: str = ''\n    return Local\nlocal_cls = two()\n"),
    "c11deep/user.py": ("from c11deep import Out, mod, er\nfrom c11deep.er.mod import made, alias4, local_cls, factory\nimport c11deep.er.mod as m2\n"
                        "a = Out.In1.In2.In3()\nb = made\nc = alias4().back()\nd = local_cls()\ne = m2.Out.In1\nf = factory().me()\n"
                        "class Sub(Out.In1.In2.In3): ...\n"),
}


# legal Python text that is not encodable as UTF-8: kept in a package of its own so that a failure to write it does
# not hide the other modules of a build
SURROGATES = {"c11sur.py": ('from typing import Final, Literal\nLONE: Final = "\\ud800 tail"\nPAIR_HALVES: Final = "\\udc80\\ud800"\n'
                            'def f(x: str = "\\udcff") -> None: ...\nLIT: Literal["\\udfff"]\n')}


def package(variant: int, rng: random.Random) -> dict[str, str]:
    fields = [("title", "Required[str]"), ("year", "int"), ("tags", "ReadOnly[list[str]]"),
              ("rating", "NotRequired[float]"), ("alpha", "bytes"), ("zz_last", "bool")]
    rng.shuffle(fields)
    fields2 = [("key", "str"), ("count", "NotRequired[int]"), ("ro", "ReadOnly[int]"), ("aa", "Required[bool]")]
    rng.shuffle(fields2)
    members = [("RED", "1"), ("GREEN", "'g'"), ("BLUE", "(1, 2)"), ("AMBER", "None")]
    rng.shuffle(members)
    dep = f"c11dep{variant}"
    tag = f"v{variant}"
    out = {
        f"{dep}.py": DEP.format(td_fields="\n    ".join(f"{k}: {t}" for k, t in fields),
                                enum_members="\n    ".join(f"{k} = {v}" for k, v in members),
                                tag=tag, const=rng.choice(["1", "'c'", "2.5", "True"])),
        "c11main.py": MAIN.format(dep=dep, enum_first=members[0][0], ival=rng.randint(0, 9), fint=rng.randint(1, 99),
                                  fstr=rng.choice(["s", "t", "uv"]), fbool=rng.choice(["True", "False"]),
                                  ffloat=rng.choice(["1.5", "2.25", "1e100"]), tag=tag,
                                  td2_fields="\n    ".join(f"{k}: {t}" for k, t in fields2)),
        "c11pep695.py": PEP695,
        "c11pkg/__init__.py": "from c11pkg.sub import leaf as leaf\nfrom . import sub\nfrom .sub import *\n__all__ = ['leaf', 'sub', 'star_exported']\n",
        "c11pkg/sub.py": "import c11pkg\nfrom c11main import Base\n__all__ = ['star_exported']\ndef leaf(b: Base) -> 'c11pkg.sub.Cyc': ...\nstar_exported = 1\n_private = 2\nclass Cyc(Base):\n    up: 'c11pkg.sub.Cyc'\n",
        "c11stub.pyi": "from typing import overload, Any\nx: int\ndef f(a, b=...): ...\nclass C:\n    def m(self) -> None: ...\n    y = ...  # type: Any\n@overload\ndef g(a: int) -> int: ...\n@overload\ndef g(a: str) -> str: ...\ndef __getattr__(name: str) -> Any: ...\n",
    }
    out["c11bounds.py"] = bounds_module(variant, rng)
    out.update(NESTING)
    return out
