"""C18 workload: directory layouts (enumerated core space + sampled extended space), the contents
of the generated files, and structural predicates over layouts. Pure data; no mypy code in here."""

from __future__ import annotations

import itertools
import os
import random
from typing import Any, Iterable, Iterator

ROOT = "r"  # name of the tree root directory (a valid identifier, so that a crawl may pass through it)
EXTS = (".py", ".pyi")
STEMS = ("__init__", "a", "b")
CORE_DIRS = ("", "a", "b", "a/a", "a/b", "b/a", "b/b")

# Extended alphabet (sampled space only)
EXT_DIRNAMES = ("a", "b", "a", "b", "a", "b", "a-stubs", "1x", ".h", "__pycache__", "site-packages")
Layout = tuple[str, ...]

_SWAP = {"a": "b", "b": "a", "a-stubs": "b-stubs", "b-stubs": "a-stubs"}


def _swap_path(p: str) -> str:
    d, f = os.path.split(p)
    stem, ext = os.path.splitext(f)
    parts = [_SWAP.get(x, x) for x in d.split("/")] if d else []
    return "/".join(parts + [_SWAP.get(stem, stem) + ext])


def canon(layout: Iterable[str]) -> Layout:
    """Canonical form under the renaming a<->b (applied to directory names and file stems alike)."""
    a = tuple(sorted(layout))
    b = tuple(sorted(_swap_path(p) for p in a))
    return min(a, b)


def core_positions() -> list[str]:
    return [(d + "/" if d else "") + s + e for d in CORE_DIRS for s in STEMS for e in EXTS]


def enumerate_core(max_files: int = 3, min_files: int = 1) -> list[Layout]:
    """Every layout of min..max files over root + {a,b} + {a,b}x{a,b} directories and
    {__init__,a,b} x {.py,.pyi} file names, one representative per a<->b class."""
    pos = core_positions()
    seen: set[Layout] = set()
    out: list[Layout] = []
    for n in range(min_files, max_files + 1):
        for combo in itertools.combinations(pos, n):
            c = canon(combo)
            if c not in seen:
                seen.add(c)
                out.append(c)
    return out


def sample_extended(rng: random.Random) -> Layout:
    """A layout from the wider space: 2-8 files, depth <= 3, special directory names, optional
    __init__ per directory, .py/.pyi pairs."""
    n_dirs = rng.randint(1, 4)
    dirs: list[str] = [""] if rng.random() < 0.6 else []
    while len(dirs) < n_dirs + 1:
        depth = rng.choice((1, 1, 2, 2, 3))
        parts: list[str] = []
        base = rng.choice(dirs) if dirs and rng.random() < 0.6 else ""
        if base:
            parts = base.split("/")
        while len(parts) < depth:
            special = rng.random() < 0.12
            parts.append(rng.choice(EXT_DIRNAMES) if special else rng.choice(("a", "b")))
        d = "/".join(parts[:3])
        if d not in dirs:
            dirs.append(d)
    files: set[str] = set()
    target = rng.randint(2, 8)
    # optional __init__ per directory (and per intermediate directory)
    alld: set[str] = set()
    for d in dirs:
        ps = d.split("/") if d else []
        for i in range(1, len(ps) + 1):
            alld.add("/".join(ps[:i]))
    p_init = rng.choice((0.0, 0.3, 0.6, 1.0))
    for d in sorted(alld):
        if rng.random() < p_init:
            files.add(d + "/__init__" + (".pyi" if rng.random() < 0.2 else ".py"))
    tries = 0
    while len(files) < target and tries < 40:
        tries += 1
        d = rng.choice(dirs)
        stem = rng.choice(("a", "b", "a", "b", "__init__"))
        ext = ".pyi" if rng.random() < 0.3 else ".py"
        files.add((d + "/" if d else "") + stem + ext)
        if rng.random() < 0.2:  # stub beside source
            files.add((d + "/" if d else "") + stem + (".py" if ext == ".pyi" else ".pyi"))
    files_l = sorted(files)[:8]
    return tuple(files_l)


# --- structural predicates ------------------------------------------------------------------

def dirs_of(layout: Iterable[str]) -> set[str]:
    """All directories (relative to the root, '' = root) that hold a file directly."""
    return {os.path.dirname(p) for p in layout}


def all_dirs(layout: Iterable[str]) -> set[str]:
    out: set[str] = set()
    for p in layout:
        d = os.path.dirname(p)
        while True:
            out.add(d)
            if not d:
                break
            d = os.path.dirname(d)
    return out


def has_init(layout: Iterable[str], d: str) -> bool:
    pre = d + "/" if d else ""
    return any(p in (pre + "__init__.py", pre + "__init__.pyi") for p in layout)


def nontrivial(layout: Layout) -> bool:
    """>= 2 files in >= 2 directories, and >= 1 directory that (transitively) holds files lacks __init__."""
    if len(layout) < 2:
        return False
    ds = dirs_of(layout)
    if len(ds) < 2:
        return False
    return any(not has_init(layout, d) for d in all_dirs(layout))


def features(layout: Layout) -> list[str]:
    f: list[str] = []
    ds = all_dirs(layout)
    if any(not has_init(layout, d) for d in ds if d):
        f.append("dir-without-init")
    if any(has_init(layout, d) for d in ds if d):
        f.append("dir-with-init")
    if has_init(layout, ""):
        f.append("root-init")
    stems = {}
    for p in layout:
        stems.setdefault(os.path.splitext(p)[0], set()).add(os.path.splitext(p)[1])
    if any(len(v) == 2 for v in stems.values()):
        f.append("stub-beside-source")
    if any(os.path.splitext(p)[0] in ds for p in layout):
        f.append("module-and-dir-same-name")
    for d in ds:
        for part in d.split("/"):
            if part.endswith("-stubs"):
                f.append("stubs-dir")
            elif part and not part.isidentifier():
                f.append("special-dir:" + ("dot" if part.startswith(".") else "invalid-identifier"))
            elif part in ("__pycache__",):
                f.append("special-dir:__pycache__")
    depth = max((p.count("/") for p in layout), default=0)
    f.append(f"depth{depth}")
    return sorted(set(f))


def candidates(rel: str, with_root: bool) -> list[str]:
    """Every dotted name under which a file could be imported: all suffixes of its path."""
    d, fn = os.path.split(rel)
    stem = os.path.splitext(fn)[0]
    parts = (d.split("/") if d else []) + ([] if stem == "__init__" else [stem])
    if with_root:
        parts = [ROOT] + parts
    out = []
    for i in range(len(parts)):
        name = ".".join(parts[i:])
        if all(x.isidentifier() for x in parts[i:]) and name:
            out.append(name)
    return out


def valid_modname(m: str) -> bool:
    import keyword
    return bool(m) and all(x.isidentifier() and not keyword.iskeyword(x) for x in m.split("."))


def contents(layout: Layout, mode: str, assigned: dict[str, str] | None = None) -> dict[str, str]:
    """File texts (keys: paths relative to the tree root).

    Every file i defines T_i, has two deliberate errors (an undefined name: semantic analysis; a bad
    assignment: type checking) and, depending on mode, imports other files:
      plain      - no imports
      assigned   - `from M import T_j` for the module name M that mypy itself assigned to file j
      candidates - `from N import T_j` for every dotted suffix N of file j's path (with and without the root dir)
    """
    idx = {p: i for i, p in enumerate(layout)}
    out: dict[str, str] = {}
    for p in layout:
        i = idx[p]
        lines = [f"T_{i}: int"]
        own = set(candidates(p, True) + candidates(p, False))
        if assigned and p in assigned:
            own.add(assigned[p])
        n = 0
        if mode == "assigned":
            for q in layout:
                if q == p or not assigned or q not in assigned:
                    continue
                m = assigned[q]
                # a name the importing file itself answers to would be a self-import: says nothing about q
                if valid_modname(m) and m != "__main__" and m not in own:
                    n += 1
                    lines.append(f"from {m} import T_{idx[q]} as A_{n}")
        elif mode == "candidates":
            seen: set[tuple[str, str]] = set()
            for q in layout:
                if q == p:
                    continue
                for c in candidates(q, True) + candidates(q, False):
                    if (c, q) not in seen and valid_modname(c) and c not in own:
                        seen.add((c, q))
                        n += 1
                        lines.append(f"from {c} import T_{idx[q]} as A_{n}")
        lines.append(f"undefined_{i}")
        lines.append(f"V_{i}: int = ''")
        out[p] = "\n".join(lines) + "\n"
    return out


def iter_core_sample(layouts: list[Layout], rng: random.Random, n: int) -> Iterator[Layout]:
    """n layouts from the core list, biased to the larger (3-file) ones and to non-trivial ones."""
    nt = [x for x in layouts if nontrivial(x)]
    rest = [x for x in layouts if not nontrivial(x)]
    rng.shuffle(nt)
    rng.shuffle(rest)
    k = min(len(nt), int(n * 0.8))
    yield from nt[:k]
    yield from rest[: max(0, n - k)]
