"""Reader for the repository's `.test` data files. Programs are used as *inputs only*:
the expected-output sections are dropped here and never consulted by any oracle."""

from __future__ import annotations

import glob
import os
import re
from typing import Any, Iterator

from . import common

_HEADER = re.compile(r"^\[([a-zA-Z_0-9-]+)(?: +(.*?))?\]$")


class Case:
    __slots__ = ("suite", "name", "main", "files", "steps", "deletes", "flags", "fixtures", "cmd")

    def __init__(self, suite: str, name: str) -> None:
        self.suite = suite
        self.name = name
        self.main = ""
        self.files: dict[str, str] = {}          # step-1 files (other than main)
        self.steps: dict[int, dict[str, str]] = {}   # step -> {path: text}
        self.deletes: dict[int, list[str]] = {}
        self.flags: list[str] = []
        self.fixtures: dict[str, str] = {}       # builtins/typing/_typeshed -> relative fixture path
        self.cmd: str | None = None

    @property
    def id(self) -> str:
        return f"{self.suite}::{self.name}"

    def all_files(self, main_name: str = "main.py") -> dict[str, str]:
        d = {main_name: self.main}
        d.update(self.files)
        return d

    def nsteps(self) -> int:
        return max([1, *self.steps.keys(), *self.deletes.keys()])

    def files_at(self, step: int, main_name: str = "main.py") -> dict[str, str]:
        cur = self.all_files(main_name)
        for s in range(2, step + 1):
            for p in self.deletes.get(s, []):
                for k in list(cur):
                    if k == p or k.startswith(p.rstrip("/") + "/"):
                        del cur[k]
            for p, t in self.steps.get(s, {}).items():
                cur[main_name if p in ("main", "main.py") else p] = t
        return cur

    def as_dict(self) -> dict[str, Any]:
        return {"id": self.id, "main": self.main, "files": self.files, "flags": self.flags}


def _expand(text: str) -> str:
    return text.replace("<ROOT>", ".")


def parse_file(path: str) -> Iterator[Case]:
    suite = os.path.basename(path)
    try:
        with open(path, encoding="utf-8") as f:
            lines = f.read().split("\n")
    except OSError:
        return
    cur: Case | None = None
    sect: tuple[str, str | None] | None = None
    buf: list[str] = []

    def flush() -> None:
        nonlocal buf
        if cur is None or sect is None:
            buf = []
            return
        sid, arg = sect
        while buf and buf[-1] == "":
            buf.pop()
        text = _expand("\n".join(buf)) + "\n" if buf else ""
        # the .test format escapes lines starting with "[" or "--" with a backslash
        text = re.sub(r"(?m)^\\(\[|--)", r"\1", text)
        if sid == "case":
            cur.main = text
            for ln in buf[:6]:
                m = re.match(r"#\s*flags\d*:\s*(.*)$", ln)
                if m and not cur.flags:
                    cur.flags = m.group(1).split()
                m = re.match(r"#\s*cmd:\s*(.*)$", ln)
                if m:
                    cur.cmd = m.group(1)
        elif sid == "file" and arg:
            m = re.match(r"(.*)\.(\d+)$", arg)
            if m:
                cur.steps.setdefault(int(m.group(2)), {})[m.group(1)] = text
            else:
                cur.files[arg] = text
        elif sid == "delete" and arg:
            m = re.match(r"(.*)\.(\d+)$", arg)
            if m:
                cur.deletes.setdefault(int(m.group(2)), []).append(m.group(1))
        elif sid in ("builtins", "typing", "_typeshed") and arg:
            cur.fixtures[sid] = arg
        buf = []

    for ln in lines:
        if ln.startswith("--"):
            continue
        m = _HEADER.match(ln) if ln.startswith("[") else None
        if m and (m.group(1) == "case" or cur is not None):
            flush()
            sid, arg = m.group(1), m.group(2)
            if sid == "case":
                if cur is not None:
                    yield cur
                name = arg or ""
                cur = Case(suite, name)
            sect = (sid, arg)
            continue
        buf.append(ln)
    flush()
    if cur is not None:
        yield cur


def load(patterns: list[str], root: str | None = None) -> list[Case]:
    root = root or os.path.join(common.REPO, "test-data", "unit")
    out: list[Case] = []
    for pat in patterns:
        for path in sorted(glob.glob(os.path.join(root, pat))):
            out.extend(parse_file(path))
    return out


def uses_fixture_only_features(c: Case) -> bool:
    """Programs that cannot make sense with the real typeshed (they define their own builtins etc.)."""
    for p in list(c.files) + [p for s in c.steps.values() for p in s]:
        base = os.path.basename(p)
        if base in ("builtins.pyi", "typing.pyi", "builtins.py", "typing.py", "_typeshed.pyi", "types.pyi",
                    "typing_extensions.pyi", "abc.pyi", "sys.pyi", "collections.pyi", "enum.pyi"):
            return True
    return False


def has_config_files(c: Case) -> bool:
    """Cases that bring their own mypy.ini / pyproject.toml / setup.cfg / plugins: the config is auto-discovered from the
    working directory and usually points at test-only plugins - not a plain program input."""
    names = list(c.files) + [p for s in c.steps.values() for p in s]
    return any(os.path.basename(p) in ("mypy.ini", "pyproject.toml", "setup.cfg", ".mypy.ini", "tox.ini") or p.endswith((".ini", ".toml", ".cfg"))
               for p in names) or any("plugin" in f for f in c.flags)


_TYPE_COMMENT = re.compile(r"#\s*type:\s*(?!ignore\b)")


def has_type_comments(text: str) -> bool:
    return bool(_TYPE_COMMENT.search(text))
