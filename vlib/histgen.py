"""Seeded generator of small multi-module projects and edit histories (C02, C03, C04, C07, C09, C10).

A project is a model (modules -> definitions + uses of other modules' definitions). *Uses* are
rendered from what the definition looked like when the use was created and are not updated when the
definition later changes, so interface edits propagate errors into other modules - exactly what the
incremental machinery must track. `history()` returns the list of {path: text} versions.
"""

from __future__ import annotations

import copy
import random
from typing import Any

SCALARS = ["int", "str", "bool", "float", "bytes"]
TYPES = SCALARS + ["None", "List[int]", "List[str]", "Dict[str, int]", "Optional[int]", "Optional[str]",
                   "Tuple[int, str]", "Tuple[int, ...]", "Union[int, str]", "Callable[[int], str]", "Set[int]"]
VALUE = {"int": "1", "str": "'s'", "bool": "True", "float": "1.5", "bytes": "b'b'", "None": "None",
         "List[int]": "[1]", "List[str]": "['a']", "Dict[str, int]": "{'k': 1}", "Optional[int]": "None",
         "Optional[str]": "'o'", "Tuple[int, str]": "(1, 's')", "Tuple[int, ...]": "(1, 2)",
         "Union[int, str]": "2", "Callable[[int], str]": "str", "Set[int]": "{1}"}
HEADER = ("from typing import (Any, Callable, Dict, Generic, List, NamedTuple, NewType, Optional, Protocol, Set, Tuple,\n"
          "                    TypedDict, TypeVar, Union, overload, Final, TYPE_CHECKING)\n"
          "import abc, dataclasses, enum\n")

DEF_KINDS = ["func", "cls", "const", "alias", "typeddict", "namedtuple", "dataclass", "protocol", "enum",
             "overload", "generic", "decorator", "newtype", "final", "property", "abstract", "async", "classvar",
             "gnamedtuple", "gtypeddict"]


class Def:
    def __init__(self, name: str, kind: str, rng: random.Random) -> None:
        self.name = name
        self.kind = kind
        self.t1 = rng.choice(SCALARS)
        self.t2 = rng.choice(TYPES)
        self.t3 = rng.choice(SCALARS)
        self.extra = False      # extra parameter / field / member present
        self.base: str | None = None   # rendered base class expression (for cls)
        self.body_v = 0         # body-only variation counter
        self.body_err = False   # a type error inside the body (not interface)

    # ---- rendering of the definition -------------------------------------------------------
    def render(self) -> str:
        n, t1, t2, t3 = self.name, self.t1, self.t2, self.t3
        ex = self.extra
        noise = f"    _n{self.body_v} = {self.body_v}\n" if self.body_v else ""
        err = "    _bad: int = 'body'\n" if self.body_err else ""
        k = self.kind
        if k == "func":
            p = f"x: {t1}, y: {t3} = {VALUE[t3]}" + (f", z: {t1} = {VALUE[t1]}" if ex else "")
            return f"def {n}({p}) -> {t2}:\n{noise}{err}    return {VALUE[t2]}\n"
        if k == "cls":
            b = f"({self.base})" if self.base else ""
            m2 = f"    def extra(self) -> {t3}:\n        return {VALUE[t3]}\n" if ex else ""
            return (f"class {n}{b}:\n    attr: {t1} = {VALUE[t1]}\n    def meth(self, x: {t3}) -> {t2}:\n"
                    f"{noise.replace('    ', '        ')}{err.replace('    ', '        ')}        return {VALUE[t2]}\n{m2}")
        if k == "const":
            return f"{n}: {t2} = {VALUE[t2]}\n"
        if k == "alias":
            return f"{n} = {'Optional[' + t2 + ']' if ex else t2}\n" if t2 != "None" else f"{n} = Optional[{t1}]\n"
        if k == "typeddict":
            f2 = f"    z: {t3}\n" if ex else ""
            return f"class {n}(TypedDict):\n    a: {t1}\n    b: {t2}\n{f2}"
        if k == "namedtuple":
            f2 = f"    z: {t3} = {VALUE[t3]}\n" if ex else ""
            return f"class {n}(NamedTuple):\n    a: {t1}\n    b: {t2}\n{f2}"
        if k == "dataclass":
            f2 = f"    z: {t3} = {VALUE[t3]}\n" if ex else ""
            return f"@dataclasses.dataclass\nclass {n}:\n    a: {t1}\n    b: {t2} = dataclasses.field(default_factory=lambda: {VALUE[t2]})\n{f2}"
        if k == "protocol":
            m2 = f"    def q(self) -> {t3}: ...\n" if ex else ""
            return f"class {n}(Protocol):\n    def p(self, x: {t1}) -> {t2}: ...\n{m2}"
        if k == "enum":
            m2 = f"    Z = {VALUE[t3]}\n" if ex else ""
            return f"class {n}(enum.Enum):\n    X = {VALUE[t1]}\n    Y = {VALUE[t1]}\n{m2}"
        if k == "overload":
            o3 = f"@overload\ndef {n}(x: bytes) -> {t3}: ...\n" if ex and t1 != "bytes" and "bytes" not in ("int", "str") else ""
            a, b = ("int", "str")
            return (f"@overload\ndef {n}(x: {a}) -> {t1}: ...\n@overload\ndef {n}(x: {b}) -> {t2}: ...\n{o3}"
                    f"def {n}(x: Any) -> Any:\n{noise}{err}    return x\n")
        if k == "generic":
            bound = f", bound={t1}" if ex else ""
            return (f"_T_{n} = TypeVar('_T_{n}'{bound})\nclass {n}(Generic[_T_{n}]):\n    def __init__(self, v: _T_{n}) -> None:\n"
                    f"        self.v = v\n    def get(self) -> _T_{n}:\n{noise.replace('    ', '        ')}        return self.v\n")
        if k == "decorator":
            return (f"def {n}(f: Callable[[{t1}], {t1}]) -> Callable[[{t1}], {t2}]:\n"
                    f"    def w(a: {t1}) -> {t2}:\n{noise.replace('    ', '        ')}        return {VALUE[t2]}\n    return w\n")
        if k == "newtype":
            return f"{n} = NewType('{n}', {t1})\n"
        if k == "final":
            return f"{n}: Final = {VALUE[t1]}\n"
        if k == "property":
            setter = (f"    @val.setter\n    def val(self, v: {t1}) -> None:\n        pass\n" if ex else "")
            return f"class {n}:\n    @property\n    def val(self) -> {t1}:\n{noise.replace('    ', '        ')}        return {VALUE[t1]}\n{setter}"
        if k == "abstract":
            dec = "    @abc.abstractmethod\n" if ex else ""
            return f"class {n}(abc.ABC):\n{dec}    def am(self) -> {t1}:\n        return {VALUE[t1]}\n    @staticmethod\n    def sm(x: {t3}) -> {t2}:\n        return {VALUE[t2]}\n"
        if k == "async":
            return f"async def {n}(x: {t1}) -> {t2}:\n{noise}{err}    return {VALUE[t2]}\n"
        if k == "gnamedtuple":
            # generic named tuple, referenced by a class defined (and sorting) before it and recursively by itself
            rec = f"    nxt: Optional['{n}[_T_{n}]'] = None\n" if ex else ""
            return (f"_T_{n} = TypeVar('_T_{n}')\nclass A_{n}:\n    held: '{n}[{t1}]'\n"
                    f"class {n}(NamedTuple, Generic[_T_{n}]):\n    a: _T_{n}\n    b: {t2}\n{rec}")
        if k == "gtypeddict":
            f2 = f"    z: {t3}\n" if ex else ""
            return (f"_T_{n} = TypeVar('_T_{n}')\nclass A_{n}(TypedDict):\n    held: '{n}[{t1}]'\n"
                    f"class {n}(TypedDict, Generic[_T_{n}]):\n    a: _T_{n}\n    b: {t2}\n{f2}")
        if k == "classvar":
            return f"class {n}:\n    count = {VALUE[t1]}\n    @classmethod\n    def make(cls, x: {t3}) -> '{n}':\n        return cls()\n" + (f"    def __call__(self) -> {t2}:\n        return {VALUE[t2]}\n" if ex else "")
        raise AssertionError(k)

    # ---- a use of the definition, as it looks *now* ------------------------------------------
    def use(self, ref: str, uid: str, rng: random.Random) -> str:
        t1, t2, t3 = self.t1, self.t2, self.t3
        k = self.kind
        if k == "func":
            return rng.choice([f"u{uid}: {t2} = {ref}({VALUE[t1]})\n",
                               f"u{uid}: {t2} = {ref}({VALUE[t1]}, y={VALUE[t3]})\n",
                               f"reveal_type({ref})\n",
                               f"def w{uid}(a: {t1}) -> {t2}:\n    return {ref}(a)\n"])
        if k == "cls":
            return rng.choice([f"u{uid}: {t1} = {ref}().attr\n",
                               f"u{uid}: {t2} = {ref}().meth({VALUE[t3]})\n",
                               f"class S{uid}({ref}):\n    def meth(self, x: {t3}) -> {t2}:\n        return {VALUE[t2]}\n",
                               f"class S{uid}({ref}):\n    attr = {VALUE[t1]}\nreveal_type(S{uid}().meth)\n",
                               f"def w{uid}(o: {ref}) -> {t1}:\n    return o.attr\n"])
        if k == "const":
            return rng.choice([f"u{uid}: {t2} = {ref}\n", f"reveal_type({ref})\n"])
        if k == "alias":
            t = t2 if t2 != "None" else t1
            return rng.choice([f"u{uid}: {ref} = {VALUE[t]}\n", f"def w{uid}(a: {ref}) -> None:\n    reveal_type(a)\n"])
        if k == "typeddict":
            return rng.choice([f"u{uid}: {ref} = {{'a': {VALUE[t1]}, 'b': {VALUE[t2]}}}\n",
                               f"def w{uid}(d: {ref}) -> {t1}:\n    return d['a']\n"])
        if k == "namedtuple":
            return rng.choice([f"u{uid} = {ref}({VALUE[t1]}, {VALUE[t2]})\nv{uid}: {t1} = u{uid}.a\n",
                               f"def w{uid}(d: {ref}) -> {t2}:\n    a, b = d\n    return b\n"])
        if k == "dataclass":
            return rng.choice([f"u{uid} = {ref}({VALUE[t1]})\nv{uid}: {t2} = u{uid}.b\n",
                               f"u{uid} = {ref}(a={VALUE[t1]}, b={VALUE[t2]})\n"])
        if k == "protocol":
            return (f"class I{uid}:\n    def p(self, x: {t1}) -> {t2}:\n        return {VALUE[t2]}\n"
                    f"def w{uid}(o: {ref}) -> None: ...\nw{uid}(I{uid}())\n")
        if k == "enum":
            return rng.choice([f"u{uid}: {ref} = {ref}.X\n", f"reveal_type({ref}.Y.value)\n",
                               f"def w{uid}(e: {ref}) -> int:\n    if e is {ref}.X:\n        return 1\n    elif e is {ref}.Y:\n        return 2\n    reveal_type(e)\n    return 3\n"])
        if k == "overload":
            return rng.choice([f"u{uid}: {t1} = {ref}(1)\n", f"u{uid}: {t2} = {ref}('s')\n", f"reveal_type({ref}(b'x'))\n"])
        if k == "generic":
            return rng.choice([f"u{uid}: {ref}[{t1}] = {ref}({VALUE[t1]})\n", f"reveal_type({ref}({VALUE[t3]}).get())\n",
                               f"u{uid} = {ref}('x').get()\n"])
        if k == "decorator":
            return f"@{ref}\ndef g{uid}(a: {t1}) -> {t1}:\n    return a\nu{uid}: {t2} = g{uid}({VALUE[t1]})\n"
        if k == "newtype":
            return rng.choice([f"u{uid}: {ref} = {ref}({VALUE[t1]})\n", f"def w{uid}(a: {ref}) -> {t1}:\n    return a\n"])
        if k == "final":
            return rng.choice([f"u{uid}: {t1} = {ref}\n", f"reveal_type({ref})\n"])
        if k == "property":
            return rng.choice([f"u{uid}: {t1} = {ref}().val\n", f"{ref}().val = {VALUE[t1]}\n"])
        if k == "abstract":
            return rng.choice([f"u{uid} = {ref}()\n", f"u{uid}: {t2} = {ref}.sm({VALUE[t3]})\n",
                               f"class S{uid}({ref}):\n    pass\nS{uid}()\n"])
        if k == "async":
            return f"async def w{uid}() -> {t2}:\n    return await {ref}({VALUE[t1]})\n"
        if k == "gnamedtuple":
            return rng.choice([f"u{uid}: {t1} = {ref}({VALUE[t1]}, {VALUE[t2]}).a\n", f"reveal_type({ref}({VALUE[t3]}, {VALUE[t2]}).a)\n",
                               f"def w{uid}(p: {ref}[{t1}]) -> {t1}:\n    return p.a\n", f"u{uid}: {ref}[{t1}] = {ref}({VALUE[t1]}, {VALUE[t2]})\nreveal_type(u{uid})\n"])
        if k == "gtypeddict":
            return rng.choice([f"u{uid}: {ref}[{t1}] = {{'a': {VALUE[t1]}, 'b': {VALUE[t2]}}}\nreveal_type(u{uid}['a'])\n",
                               f"def w{uid}(d: {ref}[{t1}]) -> {t1}:\n    return d['a']\n"])
        if k == "classvar":
            return rng.choice([f"u{uid}: {t1} = {ref}.count\n", f"u{uid} = {ref}.make({VALUE[t3]})\n", f"reveal_type({ref}.make({VALUE[t3]})())\n"])
        raise AssertionError(k)


class Module:
    def __init__(self, name: str, is_pkg: bool = False) -> None:
        self.name = name            # dotted
        self.is_pkg = is_pkg
        self.defs: list[Def] = []
        self.imports: list[tuple[str, str, str]] = []   # (form, target module, extra) form in import|from|star|func|tc|fromas|fromsub
        self.ignored_imports: set[tuple[str, str, str]] = set()   # import lines carrying `# type: ignore`
        self.uses: list[str] = []   # rendered use blocks (frozen text)
        self.prefix: list[str] = []  # raw lines at the top (inline config, ignores...)
        self.syntax_error = False
        self.stub: bool = False     # a sibling .pyi exists (rendered from the defs, bodies elided)
        self.stub_only = False
        self.stub_copy = False      # the stub is a byte-identical copy of the source

    def path(self) -> str:
        p = self.name.replace(".", "/")
        return p + "/__init__.py" if self.is_pkg else p + ".py"

    def render(self) -> str:
        out = list(self.prefix) + [HEADER]
        late: list[str] = []
        for form, target, extra in self.imports:
            ign = "  # type: ignore" if (form, target, extra) in self.ignored_imports else ""
            if form == "import":
                out.append(f"import {target}{ign}\n")
            elif form == "fromsub":
                out.append(f"from {target.rpartition('.')[0]} import {target.rpartition('.')[2]}{ign}\n")
            elif form == "from":
                out.append(f"from {target} import {extra}{ign}\n")
            elif form == "star":
                out.append(f"from {target} import *\n")
            elif form == "tc":
                out.append(f"if TYPE_CHECKING:\n    import {target}\n")
            elif form == "func":
                late.append(f"def _late_{target.replace('.', '_')}() -> None:\n    import {target}\n    reveal_type({target})\n")
            elif form == "fromas":
                out.append(f"from {target} import {extra} as {extra}_x\n")
        for d in self.defs:
            out.append(d.render())
        out.extend(self.uses)
        out.extend(late)
        if self.syntax_error:
            out.append("def broken(:\n")
        return "".join(out)

    def render_stub(self) -> str:
        import re
        text = self.render()
        # a crude but valid stub: keep the module, it is already fully annotated.  The header line makes the
        # stub's text differ from the source's (an identical copy is the separate `stub_copy` scenario).
        if self.stub_copy:
            return text
        return "# stub\n" + re.sub(r"(?m)^(\s*)_bad: int = 'body'\n", "", text)


class Project:
    def __init__(self, rng: random.Random, n_modules: int = 5, kinds: list[str] | None = None,
                 cycles: bool = True, packages: bool = True, ops: list[str] | None = None,
                 import_forms: list[str] | None = None) -> None:
        self.rng = rng
        self.ops = ops
        self.import_forms = import_forms
        self.kinds = kinds or DEF_KINDS
        self.mods: dict[str, Module] = {}
        self.uid = 0
        self.removed: dict[str, Module] = {}
        names = ["ma", "mb", "mc", "md", "me", "mf", "mg", "mh"][:n_modules]
        if packages and n_modules >= 4:
            names[-1] = "pk.sub"
            names[-2] = "pk"
        for nm in names:
            self.mods[nm] = Module(nm, is_pkg=(nm == "pk"))
        order = list(self.mods)
        for i, nm in enumerate(order):
            m = self.mods[nm]
            for _ in range(rng.randint(2, 4)):
                self.add_def(m)
        for i, nm in enumerate(order):
            m = self.mods[nm]
            cands = order[i + 1:] if not cycles else [x for x in order if x != nm]
            later = order[i + 1:]
            for tgt in rng.sample(later, min(len(later), rng.randint(1, 2))) if later else []:
                self.add_import(m, tgt)
            if cycles and i > 0 and rng.random() < 0.35:
                self.add_import(m, rng.choice(order[:i]), forms=["import", "tc", "func"])
        for nm in order:
            for _ in range(rng.randint(2, 5)):
                self.add_use(self.mods[nm])
        self.main = "main"
        mm = Module("main")
        self.mods = {"main": mm, **self.mods}
        for tgt in order[: max(2, len(order) // 2)]:
            self.add_import(mm, tgt)
        for _ in range(3):
            self.add_use(mm)

    # ---- building blocks ---------------------------------------------------------------------
    def new_uid(self) -> str:
        self.uid += 1
        return str(self.uid)

    def add_def(self, m: Module) -> Def | None:
        kind = self.rng.choice(self.kinds)
        name = {"func": "f", "cls": "C", "const": "K", "alias": "A", "typeddict": "TD", "namedtuple": "NT",
                "dataclass": "DC", "protocol": "P", "enum": "E", "overload": "ov", "generic": "G", "decorator": "deco",
                "newtype": "NW", "final": "FIN", "property": "PR", "abstract": "AB", "async": "af", "classvar": "CV",
                "gnamedtuple": "GN", "gtypeddict": "GD"}[kind] + self.new_uid()
        d = Def(name, kind, self.rng)
        m.defs.append(d)
        return d

    def add_import(self, m: Module, tgt: str, forms: list[str] | None = None) -> None:
        if tgt not in self.mods and tgt != "main":
            pass
        form = self.rng.choice(forms or self.import_forms or ["import", "import", "from", "from", "star", "fromas", "func", "tc"])
        t = self.mods.get(tgt)
        extra = ""
        if "." in tgt and forms is None and self.import_forms is None and self.rng.random() < 0.5:
            form = "fromsub"
        if form in ("from", "fromas"):
            if not t or not t.defs:
                form = "import"
            else:
                extra = self.rng.choice(t.defs).name
        if any(f == form and g == tgt and e == extra for f, g, e in m.imports):
            return
        m.imports.append((form, tgt, extra))

    def refs(self, m: Module) -> list[tuple[Def, str]]:
        """(definition, expression that refers to it from module m)"""
        out: list[tuple[Def, str]] = []
        for form, tgt, extra in m.imports:
            t = self.mods.get(tgt)
            if t is None:
                continue
            if form in ("import",):
                out += [(d, f"{tgt}.{d.name}") for d in t.defs]
            elif form == "fromsub":
                out += [(d, f"{tgt.rpartition('.')[2]}.{d.name}") for d in t.defs]
            elif form == "from":
                out += [(d, d.name) for d in t.defs if d.name == extra]
            elif form == "fromas":
                out += [(d, d.name + "_x") for d in t.defs if d.name == extra]
            elif form == "star":
                out += [(d, d.name) for d in t.defs]
        return out

    def add_use(self, m: Module) -> bool:
        refs = self.refs(m)
        if not refs:
            return False
        d, ref = self.rng.choice(refs)
        m.uses.append(d.use(ref, self.new_uid(), self.rng))
        return True

    def files(self) -> dict[str, str]:
        out: dict[str, str] = {}
        for m in self.mods.values():
            if not m.stub_only:
                out[m.path()] = m.render()
            if m.stub or m.stub_only:
                out[m.path() + "i"] = m.render_stub()
        return out

    # ---- edit operators ------------------------------------------------------------------------
    def edit(self) -> str:
        rng = self.rng
        mods = [m for k, m in self.mods.items()]
        nonmain = [m for m in mods if m.name != "main"]
        m = rng.choice(nonmain or mods)
        ops = ["sig", "sig", "sig", "body", "body_err", "extra", "rename_def", "delete_def", "add_def", "add_use", "add_use",
               "add_import", "remove_import", "delete_module", "restore_module", "add_module", "stub_toggle",
               "syntax_error", "touch", "equal_size", "ignore_line", "inline_config", "base_change", "to_package",
               "drop_uses", "kind_change", "ignore_import"]
        if self.ops is not None and "stub_copy" in self.ops:
            ops.append("stub_copy")
        if self.ops is not None:
            ops = [o for o in ops if o in self.ops]
        op = rng.choice(ops)
        if self.removed and "restore_module" in ops and rng.random() < 0.3:
            op = "restore_module"   # something deleted earlier comes back (package appears again)
        if op == "sig" and m.defs:
            d = rng.choice(m.defs)
            which = rng.choice(["t1", "t2", "t3"])
            setattr(d, which, rng.choice(TYPES if which == "t2" else SCALARS))
        elif op == "equal_size" and m.defs:
            d = rng.choice(m.defs)
            d.t1 = {"int": "str", "str": "int", "bool": "bool", "float": "bytes", "bytes": "float"}[d.t1]
        elif op == "body" and m.defs:
            rng.choice(m.defs).body_v += 1
        elif op == "body_err" and m.defs:
            d = rng.choice(m.defs)
            d.body_err = not d.body_err
        elif op == "extra" and m.defs:
            d = rng.choice(m.defs)
            d.extra = not d.extra
        elif op == "rename_def" and m.defs:
            d = rng.choice(m.defs)
            d.name = d.name + "r"
        elif op == "delete_def" and len(m.defs) > 1:
            m.defs.remove(rng.choice(m.defs))
        elif op == "add_def":
            self.add_def(m)
        elif op == "add_use":
            self.add_use(rng.choice(mods))
        elif op == "drop_uses" and m.uses:
            m.uses.pop(rng.randrange(len(m.uses)))
        elif op == "add_import":
            src = rng.choice(mods)
            tgt = rng.choice([x.name for x in mods if x is not src] or ["ma"])
            self.add_import(src, tgt)
            self.add_use(src)
        elif op == "remove_import":
            src = rng.choice(mods)
            if src.imports:
                src.imports.pop(rng.randrange(len(src.imports)))
        elif op == "delete_module" and len(nonmain) > 2:
            for nm in [x for x in list(self.mods) if x == m.name or x.startswith(m.name + ".")]:
                self.removed[nm] = self.mods.pop(nm)
        elif op == "restore_module" and self.removed:
            k = rng.choice(sorted(self.removed))
            for nm in [x for x in list(self.removed) if x == k or x.startswith(k + ".") or k.startswith(x + ".")]:
                if nm not in self.mods:
                    self.mods[nm] = self.removed.pop(nm)
        elif op == "add_module":
            nm = f"mx{self.new_uid()}"
            nmod = Module(nm)
            self.mods[nm] = nmod
            for _ in range(2):
                self.add_def(nmod)
            src = rng.choice(mods)
            self.add_import(src, nm)
            self.add_use(src)
            if rng.random() < 0.5:
                self.add_import(nmod, rng.choice([x.name for x in mods]))
                self.add_use(nmod)
        elif op == "stub_toggle" and not m.is_pkg:
            r = rng.random()
            if m.stub or m.stub_only:
                m.stub = m.stub_only = m.stub_copy = False
            elif r < 0.6:
                m.stub = True
            else:
                m.stub_only = True
        elif op == "stub_copy" and not m.is_pkg and not (m.stub or m.stub_only):
            m.stub = m.stub_copy = True
        elif op == "syntax_error":
            m.syntax_error = not m.syntax_error
        elif op == "ignore_line" and m.uses:
            i = rng.randrange(len(m.uses))
            lines = m.uses[i].split("\n")
            if "# type: ignore" not in lines[0]:
                lines[0] += "  # type: ignore" + rng.choice(["", "[assignment]", "[arg-type]", "[misc]"])
            else:
                lines[0] = lines[0].split("  # type: ignore")[0]
            m.uses[i] = "\n".join(lines)
        elif op == "ignore_import":
            src = rng.choice([x for x in mods if x.imports] or mods)
            if src.imports:
                imp = rng.choice(src.imports)
                if imp in src.ignored_imports:
                    src.ignored_imports.discard(imp)
                else:
                    src.ignored_imports.add(imp)
        elif op == "inline_config":
            if m.prefix:
                m.prefix = []
            else:
                m.prefix = [rng.choice(["# mypy: disallow-any-generics\n", "# mypy: ignore-errors\n",
                                        "# mypy: warn-unreachable, strict-equality\n", "# mypy: disable-error-code=assignment\n",
                                        "# mypy: no-strict-optional\n", "# mypy: disallow-untyped-calls\n"])]
        elif op == "base_change":
            cls = [d for d in m.defs if d.kind == "cls"]
            bases = [(d, ref) for d, ref in self.refs(m) if d.kind in ("cls", "abstract", "property", "classvar")]
            if cls:
                c = rng.choice(cls)
                c.base = None if (c.base or not bases) else rng.choice(bases)[1]
        elif op == "to_package" and not m.is_pkg and "." not in m.name and m.name != "main":
            m.is_pkg = True
        elif op == "kind_change" and m.defs:
            d = rng.choice(m.defs)
            d.kind = rng.choice([k for k in self.kinds])
        elif op == "touch":
            pass
        else:
            return "noop:" + op
        return op


CONTENT_OPS = ["sig", "body", "body_err", "extra", "rename_def", "delete_def", "add_def", "add_use", "add_import",
               "remove_import", "touch", "equal_size", "ignore_line", "inline_config", "base_change", "drop_uses", "kind_change",
               "ignore_import"]
STRUCTURE_OPS = ["delete_module", "restore_module", "add_module", "stub_toggle", "to_package"]
ALL_DEFAULT_OPS = None  # Project.edit's own list; "stub_copy" is opt-in (ops=[..., "stub_copy"])
BLOCKER_OPS = ["syntax_error"]
OP_CLASS = {**{o: "content" for o in CONTENT_OPS}, **{o: "structure" for o in STRUCTURE_OPS}, "syntax_error": "blocker", "stub_copy": "stubcopy",
            "inline_config": "config", "ignore_line": "config", "ignore_import": "config", "revert": "revert", "init": "init", "noop": "noop", "corpus": "corpus"}


def op_class(ops: list[str]) -> str:
    return "+".join(sorted({OP_CLASS.get(o.split(":")[0], "other") for o in ops}))


def history(seed_parts: tuple[Any, ...], n_steps: int = 8, n_modules: int = 5, kinds: list[str] | None = None,
            cycles: bool = True, revert_p: float = 0.12, double_p: float = 0.15,
            ops: list[str] | None = None, packages: bool = True, import_forms: list[str] | None = None,
            fixed: bool = False) -> dict[str, Any]:
    from .common import rng_for, rng_fixed
    rng = (rng_fixed if fixed else rng_for)("histgen", *seed_parts)
    proj = Project(rng, n_modules=n_modules, kinds=kinds, cycles=cycles, ops=ops, packages=packages, import_forms=import_forms)
    versions = [proj.files()]
    op_log: list[list[str]] = [["init"]]
    snapshots = [copy.deepcopy(proj)]
    while len(versions) < n_steps:
        if len(snapshots) > 2 and rng.random() < revert_p:
            k = rng.randrange(len(snapshots) - 1)
            proj = copy.deepcopy(snapshots[k])
            proj.rng = rng
            step_ops = [f"revert:{k}"]
        else:
            step_ops = [proj.edit()]
            if rng.random() < double_p:
                step_ops.append(proj.edit())
        files = proj.files()
        if files == versions[-1] and step_ops[0] != "touch":
            continue
        versions.append(files)
        op_log.append(step_ops)
        snapshots.append(copy.deepcopy(proj))
    # some steps restore/replace files with an OLDER mtime (mv file.orig file, cp -p, rsync -t, untar): legal, unusual
    back = [False] + [rng.random() < 0.12 for _ in versions[1:]]
    return {"versions": versions, "ops": op_log, "mtime_back": back}
