"""Parsing and comparison of rendered diagnostics (shared M1 monitor of C02/C03/C04/C07/C09...)."""

from __future__ import annotations

import re
from typing import Any, Iterable

LOC = re.compile(r"^(?P<file>(?:[A-Za-z]:)?[^:\n]+?):(?P<line>\d+)(?::(?P<col>\d+))?(?::(?P<eline>\d+):(?P<ecol>\d+))?: "
                 r"(?P<sev>error|note|warning): (?P<msg>.*)$")
NOLOC = re.compile(r"^(?P<file>(?:[A-Za-z]:)?[^:\n]+?): (?P<sev>error|note|warning): (?P<msg>.*)$")
SUMMARY = re.compile(r"^(Found \d+ errors? in \d+ files? \(.*\)|Success: no issues found in \d+ source files?)$")


def split_lines(out: str) -> list[str]:
    # "\n" only: a message may echo control characters of the source (\x0b, \x0c, \x1c-\x1e, \x85, \u2028) that
    # str.splitlines() would treat as line boundaries
    return [ln.rstrip("\r") for ln in out.split("\n") if ln.strip()]


def parse(out: str) -> list[dict[str, Any]]:
    res = []
    for ln in split_lines(out):
        m = LOC.match(ln)
        if m:
            d: dict[str, Any] = m.groupdict()
            for k in ("line", "col", "eline", "ecol"):
                d[k] = int(d[k]) if d[k] is not None else None
            d["raw"] = ln
            res.append(d)
            continue
        m = NOLOC.match(ln)
        if m:
            d = m.groupdict()
            d.update(line=None, col=None, eline=None, ecol=None, raw=ln)
            res.append(d)
            continue
        res.append({"file": None, "line": None, "col": None, "eline": None, "ecol": None,
                    "sev": "summary" if SUMMARY.match(ln) else "other", "msg": ln, "raw": ln})
    return res


def by_file(out: str, drop_msgs: Iterable[str] = ()) -> dict[str | None, list[str]]:
    drop = set(drop_msgs)
    d: dict[str | None, list[str]] = {}
    for e in parse(out):
        if e["sev"] == "summary":
            continue
        if e["msg"] in drop:
            continue
        d.setdefault(e["file"], []).append(e["raw"])
    return d


def compare(a_out: str, b_out: str, a_status: Any = None, b_status: Any = None,
            drop_msgs: Iterable[str] = ()) -> dict[str, Any]:
    """M1: same status, same set of files, same sequence of diagnostics per file.
    The interleaving of different files' blocks is not compared (counted as order_only)."""
    fa, fb = by_file(a_out, drop_msgs), by_file(b_out, drop_msgs)
    diffs: list[dict[str, Any]] = []
    for f in sorted(set(fa) | set(fb), key=str):
        la, lb = fa.get(f, []), fb.get(f, [])
        if la != lb:
            kind = "order-within-file" if sorted(la) == sorted(lb) else "content"
            diffs.append({"file": f, "kind": kind,
                          "only_a": [x for x in la if x not in lb][:8], "only_b": [x for x in lb if x not in la][:8]})
    status_equal = a_status == b_status
    flat_a = [e for e in split_lines(a_out) if not SUMMARY.match(e)]
    flat_b = [e for e in split_lines(b_out) if not SUMMARY.match(e)]
    return {"equal": not diffs and status_equal, "status_equal": status_equal, "diffs": diffs,
            "order_only": (not diffs) and flat_a != flat_b and not drop_msgs}


def error_count(out: str) -> int:
    return sum(1 for e in parse(out) if e["sev"] == "error")
