"""Curated witness projects that react to as many mypy options as possible (C09, C17)."""

from __future__ import annotations

KITCHEN_MAIN = '''\
import sys
import os
from typing import Any, Optional, List, Dict, Callable, TypeVar, Generic, Union, cast, overload, Sequence, Iterable
import helper
from helper import reexported, Base, untyped_helper
import missing_mod
from missing_pkg import thing
import untyped_lib

T = TypeVar("T")

def no_annotations(x, y):
    return x + y

def partial_annotations(x: int, y):
    return x

def untyped_body(x):
    z: int = "not checked unless check-untyped-defs"
    return z

def calls_untyped() -> None:
    no_annotations(1, 2)
    untyped_helper(3)

def implicit_optional_arg(x: int = None) -> int:
    return 0

def returns_any(x: Any) -> int:
    return x

def redundant_cast(x: int) -> int:
    return cast(int, x)

def no_return_path(x: int) -> int:
    if x:
        return 1

def unreachable_code(x: int) -> int:
    if isinstance(x, int):
        return 1
    return 2

def strict_eq(a: int, b: str) -> bool:
    return a == b

def optional_member(x: Optional[str]) -> int:
    return len(x)

def unused_ignore() -> int:
    return 1  # type: ignore

def ignore_no_code() -> int:
    return "x"  # type: ignore

def bare_generic(x: List) -> Dict:
    return {}

def explicit_any(x: Any) -> Any:
    return x

def any_expr(x: Any) -> None:
    y = x.attr
    print(y)

def decorator(f):
    return f

@decorator
def decorated(x: int) -> int:
    return x

class SubAny(missing_mod.Klass):
    pass

class Child(Base):
    def method(self, x: int) -> int:
        return x

def redefinition(flag: bool) -> None:
    v = 1
    print(v)
    v = "s"
    print(v)

def partial_types() -> None:
    items = None
    if int():
        items = [1]

GLOBAL_UNTYPED = []

def bytes_promotion(b: bytes) -> None:
    pass

bytes_promotion(bytearray(b"x"))
bytes_promotion(memoryview(b"x"))

if sys.version_info >= (3, 11):
    PYV: int = "new"
else:
    PYV: str = 1

if sys.platform == "win32":
    PLAT: int = "win"
else:
    PLAT: str = 2

MY_FLAG = False
if MY_FLAG:
    FLG: int = "flag-true"
else:
    FLG: str = 3

reveal_type(reexported)
reveal_type(helper.os)
reveal_type(thing)
reveal_type(untyped_lib.f)

def truthy_fn(f: Callable[[], int]) -> None:
    if f:
        pass

def possibly_undefined(flag: bool) -> int:
    if flag:
        val = 1
    return val

def mutable_override_user() -> None:
    x: Sequence[str] = "abc"

class WithSlots:
    def explicit_override(self) -> None: ...

def empty_body() -> int:
    pass

def union_syntax(x: Union[int, str], y: Optional[int], z: List[int]) -> None:
    reveal_type(x)
    reveal_type(y)
    reveal_type(z)
    x + "a"

def deprecated_user() -> None:
    helper.old_api()

def long_context_line(a_long_argument_name: int, another_long_argument_name: str) -> None:
    a_long_argument_name + another_long_argument_name

async def unused_coro() -> int:
    return 1

async def caller() -> None:
    unused_coro()
    1 + 1 == 2

def narrowed_none(x: Optional[int]) -> None:
    if x is None:
        pass
    elif x is None:
        pass

def redundant_expr(x: int) -> bool:
    return isinstance(x, int) or x > 3

def exhaustive(x: Union[int, str]) -> int:
    match x:
        case int():
            return 1
'''

KITCHEN_HELPER = '''\
import os
from typing import List
from typing_extensions import deprecated
from inner import reexported

def untyped_helper(x):
    return x

class Base:
    def method(self, x: int) -> int:
        return x

@deprecated("use new_api")
def old_api() -> None: ...

bad_in_helper: int = "helper error"
'''

KITCHEN_INNER = '''\
reexported: int = 1
inner_error: str = 5
'''

KITCHEN_UNTYPED_LIB = '''\
def f(a, b=1):
    return a
'''

KITCHEN = {
    "files": {
        "main.py": KITCHEN_MAIN,
        "helper.py": KITCHEN_HELPER,
        "inner.py": KITCHEN_INNER,
        "untyped_lib.py": KITCHEN_UNTYPED_LIB,
        "script_noext": "x: int = 'script'\n",
        "excluded_dir/ex.py": "y: int = 'excluded'\n",
    },
    "targets": ["main.py"],
}

LAYOUT = {
    "files": {
        "proj/pkg/__init__.py": "from . import a\n",
        "proj/pkg/a.py": "from pkg import b\nx: int = b.val\nbad_a: int = 'a'\n",
        "proj/pkg/b.py": "val: str = 's'\n",
        "proj/ns/inner/m.py": "import ns.inner.n\nz: int = ns.inner.n.w\n",
        "proj/ns/inner/n.py": "w: str = 'w'\n",
        "proj/skipme/s.py": "q: int = 'skip'\n",
        "proj/top.py": "import pkg.a\nimport ns.inner.m\nimport skipme.s\nt: int = 'top'\n",
    },
    "targets": ["proj"],
}

SMALL = [
    {"files": {"main.py": "def f(x):\n    return x\nf(1)\nx: int = 'a'\n"}, "targets": ["main.py"]},
    {"files": {"main.py": "from typing import Optional\ndef f(x: Optional[int]) -> int:\n    return x + 1\n"}, "targets": ["main.py"]},
    {"files": {"main.py": "import nothere\nimport alsonothere.sub\nreveal_type(nothere)\n", "other.py": "o: int = ''\n"},
     "targets": ["main.py", "other.py"]},
]

ALL = [KITCHEN, LAYOUT, *SMALL]
