"""Seeded generator of stubgen-relevant Python modules (C19).

A *bundle* is a handful of standalone modules plus one small package with relative imports and
re-exports. Every module mixes a random subset of definition kinds: annotated / unannotated / partly
annotated functions with every parameter kind and many default-value forms, async functions and
generators, overloads, decorated functions, classes with properties (setter/deleter), static/class
methods, dunder methods, nested classes, ABCs, protocols, exceptions, dataclasses, enums, NamedTuple
and TypedDict in both syntaxes, TypeVar/ParamSpec generics and PEP 695 generics and `type` aliases,
aliases, NewType, `__all__` forms, conditional definitions, private helpers used by public
signatures, names that are referenced only in default values.

The programs are meant to be importable and clean under `mypy` (default options); the check verifies
both before it applies any oracle, so a generator slip is an inconclusive case, never a verdict.
All randomness comes from the `random.Random` handed in.
"""

from __future__ import annotations

import random
from typing import Any

Ty = tuple  # ("kind", ...)

BUILTINS = ["int", "str", "bytes", "float", "bool", "complex", "object"]


class Cls:
    """What later definitions need to know about a class defined in (or imported into) the module."""

    def __init__(self, name: str, kind: str, ctor: str | None = None, members: list[str] | None = None,
                 nparams: int = 0, subclassable: bool = True) -> None:
        self.name = name
        self.kind = kind
        self.ctor = ctor            # expression constructing an instance, if one exists
        self.members = members or []  # enum member names
        self.nparams = nparams      # number of type parameters
        self.subclassable = subclassable


class Mod:
    def __init__(self, rng: random.Random, name: str, package: str | None = None, is_init: bool = False) -> None:
        self.rng = rng
        self.name = name
        self.package = package
        self.is_init = is_init
        self.future = rng.random() < 0.15            # from __future__ import annotations
        self.ty_style = rng.choice(["from", "from", "from", "mod", "alias"])
        self.abc_style = rng.choice(["from", "from", "mod", "typing"])
        self.pep585 = rng.random() < 0.5
        self.imports_plain: dict[str, str | None] = {}       # module -> alias
        self.imports_from: dict[str, dict[str, str | None]] = {}  # module -> {name: alias}
        self.tc_imports: list[str] = []                       # lines under `if TYPE_CHECKING:`
        self.body: list[str] = []
        self.classes: list[Cls] = []
        self.funcs: list[str] = []
        self.consts: dict[str, str] = {}  # name -> builtin type
        self.typevars: list[str] = []
        self.aliases: list[tuple[str, Ty]] = []
        self.public: list[str] = []
        self.private: list[str] = []
        self.kinds: list[str] = []
        self.counter = 0
        self.used: set[str] = set()

    # -- names -----------------------------------------------------------------------------------
    def fresh(self, stem: str, private: bool = False) -> str:
        while True:
            self.counter += 1
            n = f"{'_' if private else ''}{stem}{self.counter}"
            if n not in self.used:
                self.used.add(n)
                return n

    def define(self, name: str, kind: str) -> None:
        (self.private if name.startswith("_") and not name.startswith("__") else self.public).append(name)
        self.kinds.append(kind)

    # -- imports ---------------------------------------------------------------------------------
    def imp(self, module: str, alias: str | None = None) -> str:
        if module not in self.imports_plain:
            self.imports_plain[module] = alias
        a = self.imports_plain[module]
        return a or module

    def imp_from(self, module: str, name: str, alias: str | None = None) -> str:
        d = self.imports_from.setdefault(module, {})
        if name not in d:
            d[name] = alias
        return d[name] or name

    def ty(self, name: str) -> str:
        """Spelling of a `typing` name according to this module's import style."""
        if self.ty_style == "from":
            return self.imp_from("typing", name)
        if self.ty_style == "mod":
            return self.imp("typing") + "." + name
        return self.imp("typing", "t") + "." + name

    def abc(self, name: str) -> str:
        if self.abc_style == "typing":
            return self.ty(name)
        if self.abc_style == "from":
            return self.imp_from("collections.abc", name)
        return self.imp("collections.abc") + "." + name

    def ext(self, qual: str) -> str:
        module, _, name = qual.rpartition(".")
        if module in self.imports_plain:
            return self.imp(module) + "." + name
        if module in self.imports_from and name in self.imports_from[module]:
            return self.imp_from(module, name)
        if self.rng.random() < 0.5:
            return self.imp(module) + "." + name
        return self.imp_from(module, name)

    def header(self) -> list[str]:
        tc = self.ty("TYPE_CHECKING") if self.tc_imports else None
        out: list[str] = []
        if self.future:
            out.append("from __future__ import annotations")
        for module, alias in self.imports_plain.items():
            out.append(f"import {module}" + (f" as {alias}" if alias else ""))
        for module, names in self.imports_from.items():
            items = ", ".join(n + (f" as {a}" if a else "") for n, a in names.items())
            out.append(f"from {module} import {items}")
        if tc:
            out.append(f"if {tc}:")
            out += ["    " + ln for ln in self.tc_imports]
        return out

    def add(self, *lines: str) -> None:
        self.body.extend(lines)


# ---------------------------------------------------------------------------------------------------
# types: spelling and values
# ---------------------------------------------------------------------------------------------------

def rand_type(m: Mod, depth: int = 0, tv: list[str] | None = None, hashable: bool = False) -> Ty:
    r = m.rng
    leaf = depth >= 2 or r.random() < 0.35
    if leaf:
        c = r.random()
        if tv and c < 0.25:
            return ("tv", r.choice(tv))
        if c < 0.65:
            return ("b", r.choice(BUILTINS[:5] if hashable else BUILTINS))
        if c < 0.72 and not hashable:
            return ("any",)
        if c < 0.85 and m.classes:
            k = r.choice(m.classes)
            if k.kind in ("typeddict",) and hashable:
                return ("b", "int")
            return ("cls", k.name, tuple(("b", r.choice(["int", "str"])) for _ in range(k.nparams)))
        if c < 0.92:
            return ("ext", r.choice(["pathlib.Path", "datetime.date", "decimal.Decimal", "fractions.Fraction"]))
        if c < 0.96 and m.aliases and not hashable:
            return ("alias", r.choice(m.aliases)[0])
        return ("b", "str")
    c = r.random()
    style = "pep585" if m.pep585 else "typing"
    if hashable:
        if c < 0.5:
            return ("tuple", (rand_type(m, depth + 1, tv, True), rand_type(m, depth + 1, tv, True)), style)
        if c < 0.7:
            return ("frozenset", rand_type(m, depth + 1, tv, True), style)
        return ("b", r.choice(["int", "str", "bytes"]))
    if c < 0.14:
        return ("list", rand_type(m, depth + 1, tv), style)
    if c < 0.26:
        return ("dict", rand_type(m, 2, tv, True), rand_type(m, depth + 1, tv), style)
    if c < 0.32:
        return ("set", rand_type(m, 2, tv, True), style)
    if c < 0.42:
        n = r.randint(1, 3)
        return ("tuple", tuple(rand_type(m, depth + 1, tv) for _ in range(n)), style)
    if c < 0.48:
        return ("vtuple", rand_type(m, depth + 1, tv), style)
    if c < 0.64:
        return ("opt", rand_type(m, depth + 1, tv), r.choice(["Optional", "Optional", "bar", "Union"]))
    if c < 0.74:
        a, b = rand_type(m, depth + 1, tv), rand_type(m, depth + 1, tv)
        if a == b:
            b = ("none",)
        return ("union", (a, b), r.choice(["Union", "bar"]))
    if c < 0.84:
        if r.random() < 0.25:
            return ("callable", None, rand_type(m, depth + 1, tv))
        return ("callable", tuple(rand_type(m, 2, tv) for _ in range(r.randint(0, 2))), rand_type(m, depth + 1, tv))
    if c < 0.90:
        vals = r.choice([("'a'", "'b'"), ("1", "2", "3"), ("True",), ("'r'", "'w'", "'rb'"), ("-1", "0"), ("b'x'",)])
        return ("literal", vals)
    if c < 0.96:
        nm = r.choice(["Iterable", "Iterator", "Sequence", "Collection", "Mapping", "MutableMapping", "Awaitable"])
        if nm in ("Mapping", "MutableMapping"):
            return ("abc", nm, (rand_type(m, 2, tv, True), rand_type(m, depth + 1, tv)))
        return ("abc", nm, (rand_type(m, depth + 1, tv),))
    if c < 0.98:
        return ("type", ("b", r.choice(["int", "str", "Exception"])), style)
    return ("annotated", rand_type(m, depth + 1, tv), r.choice(["'meta'", "42", "('a', 1)"]))


def _bar_ok(t: Ty) -> bool:
    """`X | Y` evaluated at run time needs operands that support `|` (no string forward refs)."""
    return t[0] not in ("cls_fwd",)


def spell(m: Mod, t: Ty) -> str:
    k = t[0]
    if k == "b":
        return t[1]
    if k == "none":
        return "None"
    if k == "any":
        return m.ty("Any")
    if k == "tv":
        return t[1]
    if k == "alias":
        return t[1]
    if k == "cls":
        base = t[1]
        if t[2]:
            base += "[" + ", ".join(spell(m, a) for a in t[2]) + "]"
        return base
    if k == "ext":
        return m.ext(t[1])
    if k in ("list", "set", "frozenset"):
        head = k if t[2] == "pep585" else m.ty({"list": "List", "set": "Set", "frozenset": "FrozenSet"}[k])
        return f"{head}[{spell(m, t[1])}]"
    if k == "dict":
        head = "dict" if t[3] == "pep585" else m.ty("Dict")
        return f"{head}[{spell(m, t[1])}, {spell(m, t[2])}]"
    if k == "tuple":
        head = "tuple" if t[2] == "pep585" else m.ty("Tuple")
        return f"{head}[{', '.join(spell(m, a) for a in t[1])}]"
    if k == "vtuple":
        head = "tuple" if t[2] == "pep585" else m.ty("Tuple")
        return f"{head}[{spell(m, t[1])}, ...]"
    if k == "opt":
        inner = spell(m, t[1])
        if t[2] == "Optional":
            return f"{m.ty('Optional')}[{inner}]"
        if t[2] == "Union":
            return f"{m.ty('Union')}[{inner}, None]"
        if t[1][0] == "callable":
            return f"{m.ty('Optional')}[{inner}]"
        return f"{inner} | None"
    if k == "union":
        items = [spell(m, a) for a in t[1]]
        if t[2] == "Union" or any(a[0] == "callable" for a in t[1]):
            return f"{m.ty('Union')}[{', '.join(items)}]"
        return " | ".join(items)
    if k == "callable":
        head = m.abc("Callable") if m.rng.random() < 0.5 else m.ty("Callable")
        if t[1] is None:
            return f"{head}[..., {spell(m, t[2])}]"
        return f"{head}[[{', '.join(spell(m, a) for a in t[1])}], {spell(m, t[2])}]"
    if k == "literal":
        return f"{m.ty('Literal')}[{', '.join(t[1])}]"
    if k == "abc":
        return f"{m.abc(t[1])}[{', '.join(spell(m, a) for a in t[2])}]"
    if k == "type":
        head = "type" if t[2] == "pep585" else m.ty("Type")
        return f"{head}[{spell(m, t[1])}]"
    if k == "annotated":
        return f"{m.ty('Annotated')}[{spell(m, t[1])}, {t[2]}]"
    raise AssertionError(t)


LONG_STR = "'" + "lorem ipsum dolor sit amet " * 9 + "'"


def value(m: Mod, t: Ty, depth: int = 0) -> str | None:
    """An expression of type `t` usable as a default value, or None if we have none."""
    r = m.rng
    k = t[0]
    if k == "b":
        b = t[1]
        if b == "int":
            opts = ["0", "1", "-1", "42", "0x10", "10 ** 6", "1 << 4", "-(2 ** 31)", "1_000", "~0", "+3"]
            opts += [n for n, ty_ in m.consts.items() if ty_ == "int"]
            if r.random() < 0.12:
                return m.imp("sys") + r.choice([".maxsize", ".version_info.major", ".float_info.dig", ".hash_info.width"])
            return r.choice(opts)
        if b == "str":
            opts = ["''", "'a'", '"it\'s"', "'say \"hi\"'", "'\\n'", "'\\\\d+'", "'caf\\u00e9'", "'x' * 3", "'a' 'b'",
                    "r'\\w'", LONG_STR, "str()"]
            opts += [n for n, ty_ in m.consts.items() if ty_ == "str"]
            if r.random() < 0.2:
                return m.imp("os") + r.choice([".sep", ".path.sep", ".path.curdir", ".linesep"])
            return r.choice(opts)
        if b == "bytes":
            return r.choice(["b''", "b'x'", "b'\\x00\\xff'", 'b"it\'s"', "b'\\\\'", "bytes(2)"])
        if b == "float":
            if r.random() < 0.1:
                return m.imp("sys") + r.choice([".float_info.max", ".float_info.epsilon"])
            if r.random() < 0.2:
                return m.imp("math") + r.choice([".pi", ".inf", ".e"])
            return r.choice(["0.0", "1.5", "-2.5", "1e10", "1e-7", "float('inf')", "-0.0", ".5", "3."])
        if b == "bool":
            return r.choice(["True", "False", "not True"])
        if b == "complex":
            return r.choice(["1j", "1 + 2j", "-1j", "complex(1, 2)"])
        if b == "object":
            return r.choice(["object()", "None", "0", "..."])
        if b == "Exception":
            return None
    if k == "none":
        return "None"
    if k == "any":
        return r.choice(["None", "object()", "...", "0", "[]", "(1, 'a')"])
    if k == "opt":
        if r.random() < 0.7 or depth > 1:
            return "None"
        return value(m, t[1], depth + 1) or "None"
    if k == "union":
        for a in r.sample(list(t[1]), len(t[1])):
            v = value(m, a, depth + 1)
            if v is not None:
                return v
        return None
    if k in ("list",):
        if r.random() < 0.4 or depth > 1:
            return "[]"
        v = value(m, t[1], depth + 1)
        return f"[{v}]" if v else "[]"
    if k == "set":
        if r.random() < 0.5 or depth > 1:
            return "set()"
        v = value(m, t[1], depth + 1)
        return f"{{{v}}}" if v and "[" not in v and "{" not in v else "set()"
    if k == "frozenset":
        return "frozenset()"
    if k == "dict":
        if r.random() < 0.5 or depth > 1:
            return "{}"
        kv, vv = value(m, t[1], depth + 1), value(m, t[2], depth + 1)
        return f"{{{kv}: {vv}}}" if kv and vv and "[" not in kv and "{" not in kv else "{}"
    if k == "tuple":
        vs = [value(m, a, depth + 1) for a in t[1]]
        if any(v is None for v in vs):
            return None
        return "(" + ", ".join(vs) + ("," if len(vs) == 1 else "") + ")"  # type: ignore[arg-type]
    if k == "vtuple":
        if r.random() < 0.4:
            return "()"
        v = value(m, t[1], depth + 1)
        return f"({v},)" if v else "()"
    if k == "callable":
        if t[1] is not None and len(t[1]) == 0:
            rv = value(m, t[2], depth + 1)
            return f"lambda: {rv}" if rv and depth == 0 and "lambda" not in rv else None
        return None
    if k == "literal":
        return r.choice(t[1])
    if k == "cls":
        for c in m.classes:
            if c.name == t[1]:
                if c.kind == "enum" and c.members:
                    return f"{c.name}.{r.choice(c.members)}"
                if c.ctor and not t[2] and depth == 0:
                    return c.ctor
        return None
    if k == "ext":
        q = t[1]
        if q == "pathlib.Path":
            return m.ext(q) + "('.')"
        if q == "datetime.date":
            return m.ext(q) + "(2020, 1, 2)"
        if q == "decimal.Decimal":
            return m.ext(q) + "('1.5')"
        if q == "fractions.Fraction":
            return m.ext(q) + "(1, 3)"
    if k == "annotated":
        return value(m, t[1], depth + 1)
    if k == "abc":
        if t[1] in ("Iterable", "Sequence", "Collection"):
            return "()"
        if t[1] == "Mapping":
            return "{}"
        return None
    if k == "type":
        return t[1][1] if t[1][0] == "b" else None
    if k == "alias":
        for n, at in m.aliases:
            if n == t[1]:
                return value(m, at, depth + 1)
    return None


def ret_stmt(m: Mod, t: Ty | None) -> str:
    if t is None:
        return m.rng.choice(["return None", "pass", "return 0", "return []", "raise NotImplementedError"])
    if t[0] == "none":
        return m.rng.choice(["pass", "return None", "return"])
    v = value(m, t)
    if v is None or v == "...":
        return "raise NotImplementedError()"
    return f"return {v}"


# ---------------------------------------------------------------------------------------------------
# functions
# ---------------------------------------------------------------------------------------------------

def params(m: Mod, mode: str, first: str | None = None, tv: list[str] | None = None, simple: bool = False,
           want_tv: str | None = None) -> tuple[str, list[str]]:
    """Parameter list text. mode: 'ann' | 'unann' | 'mixed'. Returns (text, names)."""
    r = m.rng
    names = ["a", "b", "c", "d", "e", "f", "g", "h", "key", "value", "name", "default", "timeout", "flag", "items",
             "kind", "id", "input", "format", "cb", "path", "mode", "n", "x", "y"]
    r.shuffle(names)
    n_posonly = r.choice([0, 0, 0, 1, 2]) if not simple else 0
    n_pos = r.randint(0, 3)
    has_star = r.random() < 0.3 and not simple
    n_kw = r.choice([0, 0, 1, 2]) if not simple else 0
    has_kwargs = r.random() < 0.25 and not simple
    out: list[str] = []
    used: list[str] = []
    seen_default = False

    def one(kind: str, force_tv: bool = False) -> str:
        nonlocal seen_default
        nm = names.pop()
        used.append(nm)
        ann = mode == "ann" or (mode == "mixed" and r.random() < 0.5)
        t: Ty | None = None
        if ann:
            t = ("tv", want_tv) if force_tv and want_tv else rand_type(m, 0, tv)
        if kind in ("star", "kwargs"):
            pre = "*" if kind == "star" else "**"
            return f"{pre}{nm}" + (f": {spell(m, t)}" if t is not None else "")
        want_default = (seen_default and kind != "kw") or r.random() < (0.5 if kind == "kw" else 0.4)
        dv: str | None = None
        if want_default:
            if t is not None:
                dv = value(m, t)
                if dv is None and kind != "kw" and seen_default:
                    # need a default to stay syntactically valid: make the type Optional
                    t = ("opt", t, "Optional")
                    dv = "None"
            else:
                dv = value(m, rand_type(m, 1)) or "None"
        if dv is not None and kind != "kw":
            seen_default = True
        s = nm
        if t is not None:
            s += f": {spell(m, t)}"
            if dv is not None:
                s += f" = {dv}"
        elif dv is not None:
            s += f"={dv}"
        return s

    if first:
        out.append(first)
    for i in range(n_posonly):
        out.append(one("pos", force_tv=(i == 0)))
    if n_posonly:
        out.append("/")
    for i in range(n_pos):
        out.append(one("pos", force_tv=(i == 0 and not n_posonly)))
    if want_tv and not n_posonly and not n_pos:
        out.append(one("pos", force_tv=True))
    if has_star:
        out.append(one("star"))
    elif n_kw:
        out.append("*")
    for _ in range(n_kw):
        out.append(one("kw"))
    if has_kwargs:
        out.append(one("kwargs"))
    return ", ".join(out), used


def emit_func(m: Mod, indent: str = "", first: str | None = None, name: str | None = None, mode: str | None = None,
              tv: list[str] | None = None, decorators: list[str] | None = None, is_async: bool | None = None,
              private: bool = False, ret: Ty | None | str = "pick", simple: bool = False) -> str:
    r = m.rng
    mode = mode or r.choice(["ann", "ann", "unann", "mixed"])
    name = name or m.fresh(r.choice(["func", "compute", "load", "make", "do_thing", "handle"]), private)
    ptxt, pnames = params(m, mode, first, tv, simple)
    if ret == "pick":
        ret = None if mode == "unann" or (mode == "mixed" and r.random() < 0.4) else (
            ("none",) if r.random() < 0.3 else rand_type(m, 0, tv))
    is_async = r.random() < 0.12 if is_async is None else is_async
    lines = [f"{indent}{d}" for d in (decorators or [])]
    head = f"{indent}{'async ' if is_async else ''}def {name}({ptxt})"
    if ret is not None:
        head += f" -> {spell(m, ret)}"  # type: ignore[arg-type]
    lines.append(head + ":")
    if r.random() < 0.3:
        lines.append(f'{indent}    """Docstring of {name}."""')
    lines.append(f"{indent}    " + ret_stmt(m, ret))  # type: ignore[arg-type]
    m.add(*lines)
    return name


def f_plain(m: Mod) -> None:
    n = emit_func(m)
    m.funcs.append(n)
    m.define(n, "function")


def f_async(m: Mod) -> None:
    n = emit_func(m, is_async=True, name=m.fresh("fetch"))
    m.define(n, "async-function")


def f_generator(m: Mod) -> None:
    r = m.rng
    n = m.fresh("iter_items")
    c = r.random()
    if c < 0.3:
        it = m.abc("Iterator")
        m.add(f"def {n}(n: int) -> {it}[int]:", "    for i in range(n):", "        yield i")
    elif c < 0.5:
        g = m.abc("Generator")
        m.add(f"def {n}(n: int = 3) -> {g}[int, str, bool]:", "    s = yield n", "    return bool(s)")
    elif c < 0.7:
        m.add(f"def {n}(n, start=0):", "    for i in range(start, n):", "        yield i")
    elif c < 0.8:
        m.add(f"def {n}(*seqs):", "    for s in seqs:", "        yield from s", "    return 1")
    elif c < 0.9:
        m.add(f"def {n}():", "    x = yield", "    yield x")
    else:
        ai = m.abc("AsyncIterator")
        m.add(f"async def {n}(n: int) -> {ai}[str]:", "    for i in range(n):", "        yield str(i)")
    m.define(n, "generator")


def f_overload(m: Mod, indent: str = "", first: str | None = None) -> str:
    r = m.rng
    n = m.fresh("convert")
    ov = m.ty("overload")
    pre = f"{first}, " if first else ""
    variants = r.sample([("int", "str"), ("str", "int"), ("bytes", "float"), ("None", "None"), ("list[int]", "bool")], r.randint(2, 3))
    extra = r.choice(["", ", *, strict: bool = ...", ", base: int = ..."])
    for a, b in variants:
        m.add(f"{indent}@{ov}", f"{indent}def {n}({pre}x: {a}{extra}) -> {b}: ...")
    impl_extra = extra.replace(": bool = ...", "=False").replace(": int = ...", "=10")
    m.add(f"{indent}def {n}({pre}x{impl_extra}):", f"{indent}    return x")
    if not indent:
        m.define(n, "overload")
    return n


def f_decorated(m: Mod) -> None:
    r = m.rng
    c = r.random()
    n = m.fresh("cached")
    if c < 0.3:
        ft = m.imp("functools")
        m.add(f"@{ft}.{r.choice(['lru_cache(maxsize=None)', 'cache', 'lru_cache'])}",
              f"def {n}(x: int, y: str = 'a') -> str:", "    return y * x")
    elif c < 0.5:
        cm = m.imp_from("contextlib", "contextmanager")
        it = m.abc("Iterator")
        m.add(f"@{cm}", f"def {n}(path: str, mode: str = 'r') -> {it}[int]:", "    yield 1")
    elif c < 0.8:
        d = m.fresh("deco", private=r.random() < 0.5)
        ft = m.imp("functools")
        m.add(f"def {d}(fn):", f"    @{ft}.wraps(fn)", "    def wrapper(*args, **kwargs):", "        return fn(*args, **kwargs)",
              "    return wrapper")
        m.define(d, "function")
        m.add(f"@{d}", f"def {n}(x: int, *, scale: float = 1.0) -> float:", "    return x * scale")
    else:
        P = m.fresh("P")
        R = m.fresh("R")
        m.add(f"{P} = {m.ty('ParamSpec')}('{P}')", f"{R} = {m.ty('TypeVar')}('{R}')")
        m.define(P, "typevar")
        m.define(R, "typevar")
        d = m.fresh("logged")
        cal = m.ty("Callable")
        m.add(f"def {d}(fn: {cal}[{P}, {R}]) -> {cal}[{P}, {R}]:", f"    def inner(*args: {P}.args, **kwargs: {P}.kwargs) -> {R}:",
              "        return fn(*args, **kwargs)", "    return inner")
        m.define(d, "function")
        m.add(f"@{d}", f"def {n}(x: int, y: str = 'a') -> bytes:", "    return b''")
    m.define(n, "decorated-function")


def f_generic(m: Mod) -> None:
    r = m.rng
    c = r.random()
    n = m.fresh("pick")
    if c < 0.5:
        private = r.random() < 0.2
        T = m.fresh("T", private)
        extra = r.choice(["", ", bound=str", ", int, str", ", covariant=False"])
        m.add(f"{T} = {m.ty('TypeVar')}('{T}'{extra})")
        m.define(T, "typevar")
        m.typevars.append(T)
        seq = m.abc("Sequence")
        if extra == ", bound=str":
            m.add(f"def {n}(xs: {seq}[{T}], default: {T}) -> {T}:", "    return xs[0] if xs else default")
        else:
            m.add(f"def {n}(x: {T}, *rest: {T}) -> {spell(m, ('list', ('tv', T), 'pep585' if m.pep585 else 'typing'))}:", "    return [x]")
    elif c < 0.7:
        m.add(f"def {n}[T](x: T, /, *more: T) -> list[T]:", "    return [x, *more]")
    elif c < 0.8:
        m.add(f"def {n}[T: (int, str)](x: T, y: T) -> T:", "    return x")
    elif c < 0.87:
        m.add(f"def {n}[S: str](x: S, times: int = 2) -> S:", "    return x")
    elif c < 0.94:
        cal = m.abc("Callable")
        m.add(f"def {n}[**P, R](fn: {cal}[P, R], *args: P.args, **kwargs: P.kwargs) -> R:", "    return fn(*args, **kwargs)")
    else:
        m.add(f"def {n}[*Ts](*args: *Ts) -> tuple[*Ts]:", "    return args")
    m.define(n, "generic-function")


# ---------------------------------------------------------------------------------------------------
# classes
# ---------------------------------------------------------------------------------------------------

def c_plain(m: Mod) -> None:
    r = m.rng
    n = m.fresh(r.choice(["Widget", "Node", "Service", "Handler"]))
    bases: list[str] = []
    kind = "class"
    generic_tv: list[str] | None = None
    c = r.random()
    subs = [k for k in m.classes if k.kind in ("class", "abc") and k.subclassable and not k.nparams]
    if c < 0.2 and subs:
        bases.append(r.choice(subs).name)
        kind = "derived-class"
    elif c < 0.3:
        bases.append(r.choice(["Exception", "ValueError", "KeyError"]))
        kind = "exception"
    elif c < 0.4:
        bases.append(r.choice(["dict[str, int]", "list[int]", f"{m.ty('Dict')}[str, int]", f"{m.ty('List')}[str]"]))
        kind = "builtin-subclass"
    elif c < 0.55:
        T = m.fresh("T", private=r.random() < 0.15)
        m.add(f"{T} = {m.ty('TypeVar')}('{T}')")
        m.define(T, "typevar")
        bases.append(f"{m.ty('Generic')}[{T}]")
        generic_tv = [T]
        kind = "generic-class"
    elif c < 0.6:
        bases.append("object")
    head = f"class {n}" + (f"({', '.join(bases)})" if bases else "") + ":"
    m.add(head)
    body0 = len(m.body)
    if r.random() < 0.4:
        m.add(f'    """{n} does things."""')
    # class-level variables
    for _ in range(r.randint(0, 2)):
        v = m.fresh("attr")
        t = rand_type(m, 1)
        dv = value(m, t)
        cc = r.random()
        if cc < 0.4 and dv:
            m.add(f"    {v}: {spell(m, t)} = {dv}")
        elif cc < 0.6:
            m.add(f"    {v}: {spell(m, t)}")
        elif cc < 0.8 and dv:
            m.add(f"    {v}: {m.ty('ClassVar')}[{spell(m, t)}] = {dv}")
        else:
            m.add(f"    {v} = {value(m, ('b', r.choice(BUILTINS[:5])))}")
    if kind == "builtin-subclass" or kind == "exception":
        init_sig = None
    else:
        init_sig = r.random() < 0.8
    ctor = f"{n}()"
    if init_sig:
        ptxt, pnames = params(m, r.choice(["ann", "ann", "mixed", "unann"]), "self", generic_tv, simple=r.random() < 0.5)
        ann_ret = r.random() < 0.8
        m.add(f"    def __init__({ptxt}){' -> None' if ann_ret else ''}:")
        made = False
        for p in pnames[:3]:
            cc = r.random()
            if cc < 0.4:
                m.add(f"        self.{p} = {p}")
                made = True
            elif cc < 0.6:
                m.add(f"        self._{p} = {p}")
                made = True
        if r.random() < 0.5:
            t = rand_type(m, 1)
            dv = value(m, t)
            if dv:
                m.add(f"        self.{m.fresh('state')}: {spell(m, t)} = {dv}")
                made = True
        if not made:
            m.add("        pass")
        ctor = None  # arguments unknown
        if ptxt == "self":
            ctor = f"{n}()"
    elif kind == "exception":
        if r.random() < 0.5:
            m.add("    def __init__(self, msg: str, code: int = 1) -> None:", "        super().__init__(msg)", "        self.code = code")
        ctor = None
    # methods
    nm = r.randint(1, 4)
    props: list[str] = []
    dunders_done: set[str] = set()
    for _ in range(nm):
        cc = r.random()
        if cc < 0.35:
            emit_func(m, "    ", "self", name=m.fresh("method"), tv=generic_tv)
        elif cc < 0.5:
            p = m.fresh("prop")
            t = rand_type(m, 1, generic_tv)
            annotated = r.random() < 0.8
            m.add("    @property", f"    def {p}(self)" + (f" -> {spell(m, t)}" if annotated else "") + ":", "        " + ("raise NotImplementedError()" if annotated else "return 1"))
            if r.random() < 0.5:
                m.add(f"    @{p}.setter", f"    def {p}(self, value" + (f": {spell(m, t)}" if annotated else "") + ")" + (" -> None" if annotated else "") + ":", "        pass")
                if r.random() < 0.4:
                    m.add(f"    @{p}.deleter", f"    def {p}(self)" + (" -> None" if annotated else "") + ":", "        pass")
            props.append(p)
        elif cc < 0.62:
            emit_func(m, "    ", None, name=m.fresh("static"), decorators=["@staticmethod"], is_async=False)
        elif cc < 0.74:
            emit_func(m, "    ", "cls", name=m.fresh("create"), decorators=["@classmethod"], is_async=False)
        elif cc < 0.8:
            ft = m.imp("functools")
            p = m.fresh("lazy")
            m.add(f"    @{ft}.cached_property", f"    def {p}(self) -> int:", "        return 1")
        elif cc < 0.86:
            f_overload(m, "    ", "self")
        else:
            d = r.choice(["__len__", "__eq__", "__hash__", "__iter__", "__enter__exit", "__getitem__", "__call__", "__repr__",
                          "__bool__", "__contains__", "__lt__", "__add__"])
            if kind in ("builtin-subclass",):
                d = "__repr__"
            if d in dunders_done or (d == "__eq__" and "__hash__" in dunders_done) or (d == "__hash__" and "__eq__" in dunders_done):
                continue
            dunders_done.add(d)
            annotated = r.random() < 0.5
            if d == "__len__":
                m.add("    def __len__(self)" + (" -> int" if annotated else "") + ":", "        return 0")
            elif d == "__eq__":
                m.add("    def __eq__(self, other" + (": object" if annotated else "") + ")" + (" -> bool" if annotated else "") + ":", "        return self is other",
                      "    def __hash__(self)" + (" -> int" if annotated else "") + ":", "        return 0")
            elif d == "__hash__":
                m.add("    def __hash__(self)" + (" -> int" if annotated else "") + ":", "        return 1")
            elif d == "__iter__":
                it = m.abc("Iterator")
                m.add("    def __iter__(self)" + (f" -> {it}[int]" if annotated else "") + ":", "        return iter(())")
            elif d == "__enter__exit":
                if annotated:
                    m.add(f"    def __enter__(self) -> '{n}':" if not generic_tv else "    def __enter__(self):", "        return self",
                          "    def __exit__(self, *exc: object) -> None:", "        pass")
                else:
                    m.add("    def __enter__(self):", "        return self",
                          "    def __exit__(self, exc_type, exc, tb):", "        pass")
            elif d == "__getitem__":
                m.add("    def __getitem__(self, index" + (": int" if annotated else "") + ")" + (" -> str" if annotated else "") + ":", "        return ''")
            elif d == "__call__":
                m.add("    def __call__(self, *args" + (": int" if annotated else "") + ", **kw" + (": str" if annotated else "") + ")" + (" -> None" if annotated else "") + ":", "        pass")
            elif d == "__repr__":
                m.add("    def __repr__(self)" + (" -> str" if annotated else "") + ":", f"        return '{n}'")
            elif d == "__bool__":
                m.add("    def __bool__(self)" + (" -> bool" if annotated else "") + ":", "        return True")
            elif d == "__contains__":
                m.add("    def __contains__(self, item" + (": object" if annotated else "") + ")" + (" -> bool" if annotated else "") + ":", "        return False")
            elif d == "__lt__":
                m.add(f"    def __lt__(self, other" + (f": '{n}'" if annotated and not generic_tv else "") + ")" + (" -> bool" if annotated else "") + ":", "        return False")
            elif d == "__add__":
                m.add(f"    def __add__(self, other" + (": int" if annotated else "") + ")" + (" -> int" if annotated else "") + ":", "        return 0")
    if r.random() < 0.2:
        inner = m.fresh("Inner")
        m.add(f"    class {inner}:", "        depth: int = 1", "        def get(self, default=None):", "            return default")
    if r.random() < 0.1 and m.funcs:
        pass
    if len(m.body) == body0:
        m.add("    pass")
    m.classes.append(Cls(n, "class" if kind in ("class", "derived-class") else kind, ctor, nparams=1 if generic_tv else 0,
                         subclassable=kind in ("class", "derived-class")))
    m.define(n, kind)


def c_abc(m: Mod) -> None:
    r = m.rng
    n = m.fresh("Base")
    c = r.random()
    if c < 0.5:
        base = m.imp_from("abc", "ABC") if r.random() < 0.6 else m.imp("abc") + ".ABC"
        m.add(f"class {n}({base}):")
    else:
        meta = m.imp_from("abc", "ABCMeta") if r.random() < 0.5 else m.imp("abc") + ".ABCMeta"
        m.add(f"class {n}(metaclass={meta}):")
    am = m.imp_from("abc", "abstractmethod") if r.random() < 0.6 else m.imp("abc") + ".abstractmethod"
    t = rand_type(m, 1)
    m.add(f"    @{am}", f"    def area(self, scale: float = 1.0) -> {spell(m, t)}:", "        ...")
    if r.random() < 0.6:
        m.add("    @property", f"    @{am}", "    def label(self) -> str: ...")
    if r.random() < 0.4:
        m.add("    @classmethod", f"    @{am}", "    def build(cls, raw): ...")
    if r.random() < 0.4:
        m.add("    @staticmethod", f"    @{am}", "    def check(value: int) -> bool: ...")
    if r.random() < 0.5:
        m.add("    def describe(self):", "        return str(self.area())")
    m.classes.append(Cls(n, "abc", None))
    m.define(n, "abstract-class")
    if r.random() < 0.5:
        d = m.fresh("Concrete")
        m.add(f"class {d}({n}):", f"    def area(self, scale: float = 1.0) -> {spell(m, t)}:", "        " + ret_stmt(m, t),
              "    @property", "    def label(self) -> str:", "        return ''",
              "    @classmethod", "    def build(cls, raw):", "        return cls()",
              "    @staticmethod", "    def check(value: int) -> bool:", "        return True")
        m.classes.append(Cls(d, "class", f"{d}()"))
        m.define(d, "derived-class")


def c_protocol(m: Mod) -> None:
    r = m.rng
    n = m.fresh("Supports")
    proto = m.ty("Protocol")
    decos = []
    if r.random() < 0.4:
        decos.append("@" + m.ty("runtime_checkable"))
    c = r.random()
    if c < 0.3:
        T = m.fresh("T_co")
        m.add(f"{T} = {m.ty('TypeVar')}('{T}', covariant=True)")
        m.define(T, "typevar")
        m.add(*decos, f"class {n}({proto}[{T}]):", f"    def get(self) -> {T}: ...")
        m.classes.append(Cls(n, "protocol", None, nparams=1, subclassable=False))
    else:
        m.add(*decos, f"class {n}({proto}):")
        if r.random() < 0.5:
            m.add("    size: int")
        m.add("    def close(self, force: bool = False) -> None: ...")
        if r.random() < 0.4:
            m.add("    @property", "    def ident(self) -> str: ...")
        m.classes.append(Cls(n, "protocol", None, subclassable=False))
    m.define(n, "protocol")


def c_dataclass(m: Mod) -> None:
    r = m.rng
    n = m.fresh(r.choice(["Record", "Config", "Point"]))
    style = r.random()
    if style < 0.5:
        dc = m.imp_from("dataclasses", "dataclass")
        fld = None
    else:
        dc = m.imp("dataclasses") + ".dataclass"
        fld = None
    args = r.choice(["", "", "()", "(frozen=True)", "(order=True)", "(eq=False)", "(kw_only=True)", "(slots=True)",
                     "(frozen=True, slots=True)", "(init=False)", "(repr=False, unsafe_hash=True)"])
    m.add(f"@{dc}{args}", f"class {n}:")
    if r.random() < 0.3:
        m.add(f'    """A {n}."""')
    nf = r.randint(1, 5)
    seen_default = False
    kw_only = "kw_only" in args
    ctor_args: list[str] | None = []
    for i in range(nf):
        f = m.fresh("field")
        t = rand_type(m, 1)
        dv = value(m, t)
        mutable = dv is not None and (dv[0] in "[{" or dv.startswith(("set(", "lambda")) or "(" in dv and t[0] in ("cls", "ext"))
        want = seen_default or r.random() < 0.4
        if want and dv is not None and not mutable:
            cc = r.random()
            if cc < 0.7:
                m.add(f"    {f}: {spell(m, t)} = {dv}")
            else:
                fn = (m.imp_from("dataclasses", "field") if "." not in dc else dc.rsplit(".", 1)[0] + ".field")
                extra = r.choice(["", ", repr=False", ", compare=False", ", init=True"])
                m.add(f"    {f}: {spell(m, t)} = {fn}(default={dv}{extra})")
            seen_default = True
        elif want and t[0] in ("list", "dict", "set"):
            fn = (m.imp_from("dataclasses", "field") if "." not in dc else dc.rsplit(".", 1)[0] + ".field")
            m.add(f"    {f}: {spell(m, t)} = {fn}(default_factory={t[0]})")
            seen_default = True
        elif want and not kw_only:
            m.add(f"    {f}: {m.ty('Optional')}[{spell(m, t)}] = None")
            seen_default = True
        else:
            m.add(f"    {f}: {spell(m, t)}")
            if ctor_args is not None:
                v = value(m, t)
                if v is None or "init=False" in args or kw_only:
                    ctor_args = None
                else:
                    ctor_args.append(v)
        if i == 0 and r.random() < 0.15 and not kw_only and "slots" not in args and not seen_default:
            kwo = m.imp_from("dataclasses", "KW_ONLY") if "." not in dc else dc.rsplit(".", 1)[0] + ".KW_ONLY"
            m.add(f"    _: {kwo}")
            kw_only = True
            ctor_args = None
    if r.random() < 0.2 and seen_default and "slots" not in args:
        # attribute-of-attribute references printed verbatim in the stub (field specifier arguments)
        fn = (m.imp_from("dataclasses", "field") if "." not in dc else dc.rsplit(".", 1)[0] + ".field")
        nm_, ty_, dv_ = r.choice([("eps", "float", m.imp("sys") + ".float_info.epsilon"), ("sep", "str", m.imp("os") + ".path.sep"),
                                  ("major", "int", m.imp("sys") + ".version_info.major")])
        m.add(f"    {nm_}: {ty_} = {fn}(default={dv_}{r.choice(['', ', repr=False'])})")
    if r.random() < 0.3 and "slots" not in args:
        m.add(f"    kind: {m.ty('ClassVar')}[str] = 'k'")
    if r.random() < 0.3 and "slots" not in args:
        m.add("    unannotated = 0")
    if r.random() < 0.2 and "init=False" not in args and "slots" not in args:
        iv = m.imp_from("dataclasses", "InitVar") if "." not in dc else dc.rsplit(".", 1)[0] + ".InitVar"
        if seen_default or kw_only:
            m.add(f"    seed: {iv}[int] = 0", "    def __post_init__(self, seed: int) -> None:", "        pass")
        else:
            ctor_args = None
            m.add(f"    seed: {iv}[int]", "    def __post_init__(self, seed: int) -> None:", "        pass")
    if r.random() < 0.4:
        emit_func(m, "    ", "self", name=m.fresh("method"))
    if r.random() < 0.2:
        m.add("    @property", "    def summary(self) -> str:", "        return ''")
    ctor = None
    if ctor_args is not None and "init=False" not in args and all("lambda" not in a for a in ctor_args):
        ctor = f"{n}({', '.join(ctor_args)})"
    m.classes.append(Cls(n, "dataclass", ctor if "frozen" in args or "unsafe_hash" in args else None, subclassable=False))
    m.define(n, "dataclass")


def c_enum(m: Mod) -> None:
    r = m.rng
    n = m.fresh(r.choice(["Color", "Mode", "Level"]))
    c = r.random()
    style_from = r.random() < 0.4
    def en(name: str) -> str:
        return m.imp_from("enum", name) if style_from else m.imp("enum") + "." + name
    members = r.sample(["RED", "GREEN", "BLUE", "ALPHA", "BETA", "LOW", "HIGH"], r.randint(2, 4))
    if c < 0.1:
        m.add(f"{n} = {en('Enum')}('{n}', '{' '.join(members)}')")
        m.classes.append(Cls(n, "enum", None, members, subclassable=False))
        m.define(n, "enum-functional")
        return
    base = r.choice(["Enum", "Enum", "IntEnum", "Flag", "IntFlag", "StrEnum", "str, Enum"])
    decos = []
    if r.random() < 0.2:
        decos.append("@" + en("unique"))
    if base == "str, Enum":
        m.add(*decos, f"class {n}(str, {en('Enum')}):")
    else:
        m.add(*decos, f"class {n}({en(base)}):")
    if r.random() < 0.3:
        m.add(f'    """{n} values."""')
    for i, mem in enumerate(members):
        if base in ("StrEnum", "str, Enum"):
            v = f"'{mem.lower()}'" if r.random() < 0.8 or base == "str, Enum" else f"{en('auto')}()"
        elif base in ("Flag", "IntFlag"):
            v = str(1 << i) if r.random() < 0.7 else f"{en('auto')}()"
        elif base == "IntEnum":
            v = str(i + 1) if r.random() < 0.8 else f"{en('auto')}()"
        else:
            v = r.choice([str(i + 1), f"'{mem.lower()}'", f"{en('auto')}()", f"({i}, '{mem}')", f"{i}.5"])
        m.add(f"    {mem} = {v}")
    if r.random() < 0.3 and not decos:
        m.add(f"    ALIAS = {members[0]}")
    if r.random() < 0.4:
        m.add("    def describe(self, verbose: bool = False) -> str:", "        return str(self.value)")
    if r.random() < 0.2:
        m.add("    @property", "    def pretty(self) -> str:", "        return str(self.value).title()")
    if r.random() < 0.2:
        m.add("    @classmethod", f"    def default(cls) -> '{n}':", f"        return cls.{members[0]}")
    m.classes.append(Cls(n, "enum", None, members, subclassable=False))
    m.define(n, "enum")


def c_namedtuple(m: Mod) -> None:
    r = m.rng
    n = m.fresh(r.choice(["Pair", "Row", "Coord"]))
    c = r.random()
    if c < 0.4:
        nt = m.ty("NamedTuple")
        m.add(f"class {n}({nt}):")
        if r.random() < 0.3:
            m.add(f'    """{n} tuple."""')
        seen = False
        ctor_args: list[str] | None = []
        for _ in range(r.randint(1, 4)):
            f = m.fresh("item")
            t = rand_type(m, 1)
            dv = value(m, t)
            if (seen or r.random() < 0.4) and dv is not None and "lambda" not in dv:
                m.add(f"    {f}: {spell(m, t)} = {dv}")
                seen = True
            elif seen:
                m.add(f"    {f}: {m.ty('Optional')}[{spell(m, t)}] = None")
            else:
                m.add(f"    {f}: {spell(m, t)}")
                v = value(m, t)
                if v is None or ctor_args is None or "lambda" in v:
                    ctor_args = None
                else:
                    ctor_args.append(v)
        if r.random() < 0.4:
            m.add("    def total(self, scale: int = 1) -> int:", "        return scale")
        if r.random() < 0.2:
            m.add("    @property", "    def first(self) -> object:", "        return self[0]")
        m.classes.append(Cls(n, "namedtuple", f"{n}({', '.join(ctor_args)})" if ctor_args is not None else None, subclassable=False))
        m.define(n, "namedtuple-class")
    elif c < 0.6:
        nt = m.ty("NamedTuple")
        fields = [(m.fresh("item"), rand_type(m, 1)) for _ in range(r.randint(0, 3))]
        inner = ", ".join(f"('{f}', {spell(m, t)})" for f, t in fields)
        seq = f"[{inner}]" if r.random() < 0.7 else f"({inner}{',' if len(fields) == 1 else ''})"
        m.add(f"{n} = {nt}('{n}', {seq})")
        m.classes.append(Cls(n, "namedtuple", None, subclassable=False))
        m.define(n, "namedtuple-call")
    elif c < 0.85:
        call = m.imp_from("collections", "namedtuple") if r.random() < 0.5 else m.imp("collections") + ".namedtuple"
        names = [m.fresh("item") for _ in range(r.randint(1, 3))]
        cc = r.random()
        if cc < 0.3:
            spec = "'" + " ".join(names) + "'"
        elif cc < 0.5:
            spec = "'" + ", ".join(names) + "'"
        elif cc < 0.8:
            spec = "[" + ", ".join(f"'{x}'" for x in names) + "]"
        else:
            spec = "(" + ", ".join(f"'{x}'" for x in names) + ",)"
        extra = r.choice(["", "", ", defaults=(0,)", ", rename=False", f", module='{m.name}'"])
        m.add(f"{n} = {call}('{n}', {spell_safe(spec)}{extra})")
        m.classes.append(Cls(n, "namedtuple", None, subclassable=False))
        m.define(n, "collections-namedtuple")
    else:
        # call-based named tuple used as a base class
        if r.random() < 0.5:
            call = m.imp_from("collections", "namedtuple")
            base = f"{call}('{n}', 'x y')"
        else:
            base = f"{m.ty('NamedTuple')}('{n}', [('x', int), ('y', str)])"
        m.add(f"class {n}({base}):", "    def norm(self, p: int = 2) -> float:", "        return 0.0")
        m.classes.append(Cls(n, "namedtuple", None, subclassable=False))
        m.define(n, "namedtuple-base-call")


def spell_safe(s: str) -> str:
    return s


def c_typeddict(m: Mod) -> None:
    r = m.rng
    n = m.fresh(r.choice(["Movie", "Options", "Payload"]))
    td = m.ty("TypedDict")
    c = r.random()
    fields = [(r.choice(["title", "year", "tags", "owner", "extra", "count", "data"]) + str(i), rand_type(m, 1)) for i in range(r.randint(1, 4))]
    if c < 0.55:
        total = r.choice(["", "", ", total=False", ", total=True"])
        base = td
        tds = [k for k in m.classes if k.kind == "typeddict" and k.subclassable]
        if tds and r.random() < 0.3:
            base = r.choice(tds).name
            total = ""
        m.add(f"class {n}({base}{total}):")
        if r.random() < 0.3:
            m.add(f'    """{n} payload."""')
        for f, t in fields:
            cc = r.random()
            if cc < 0.15:
                m.add(f"    {f}: {m.ty('NotRequired')}[{spell(m, t)}]")
            elif cc < 0.3:
                m.add(f"    {f}: {m.ty('Required')}[{spell(m, t)}]")
            else:
                m.add(f"    {f}: {spell(m, t)}")
        m.classes.append(Cls(n, "typeddict", None))
        m.define(n, "typeddict-class")
    else:
        cc = r.random()
        if cc < 0.2:
            fields = [("class", ("b", "int")), ("in-valid", ("b", "str"))] + fields[:1]
        body = ", ".join(f"'{f}': {spell(m, t)}" for f, t in fields)
        total = r.choice(["", "", ", total=False"])
        m.add(f"{n} = {td}('{n}', {{{body}}}{total})")
        m.classes.append(Cls(n, "typeddict", None, subclassable=False))
        m.define(n, "typeddict-call")


def c_pep695(m: Mod) -> None:
    r = m.rng
    c = r.random()
    if c < 0.45:
        n = m.fresh("Stack")
        tp = r.choice(["T", "T: str", "T: (int, str)", "K, V", "T, *Ts", "T, **P"])
        first = tp.split(",")[0].split(":")[0].strip()
        m.add(f"class {n}[{tp}]:")
        if tp in ("T", "K, V"):
            m.add(f"    def __init__(self, item: {first}) -> None:", "        self.item = item",
                  f"    def get(self) -> {first}:", "        return self.item",
                  f"    def swap[U](self, other: U) -> tuple[{first}, U]:", "        return (self.item, other)")
        else:
            m.add(f"    def put(self, x: {first}) -> None:", "        pass")
        m.classes.append(Cls(n, "pep695-class", None, nparams=0, subclassable=False))
        m.define(n, "pep695-class")
    elif c < 0.8:
        n = m.fresh("Alias")
        cc = r.random()
        if cc < 0.4:
            m.add(f"type {n} = {spell(m, rand_type(m, 0))}")
        elif cc < 0.7:
            m.add(f"type {n}[T] = {r.choice(['list[T]', 'dict[str, T]', 'tuple[T, ...]', 'T | None'])}")
        elif cc < 0.85:
            m.add(f"type {n}[K: str, V] = dict[K, list[V]]")
        else:
            m.add(f"type {n} = int | list[{n}]")
        m.define(n, "pep695-alias")
    else:
        n = m.fresh("Proto")
        m.add(f"class {n}[T]({m.ty('Protocol')}):", "    def get(self) -> T: ...")
        m.classes.append(Cls(n, "pep695-class", None, subclassable=False))
        m.define(n, "pep695-class")


# ---------------------------------------------------------------------------------------------------
# variables, aliases, misc
# ---------------------------------------------------------------------------------------------------

def v_vars(m: Mod) -> None:
    r = m.rng
    for _ in range(r.randint(1, 3)):
        c = r.random()
        private = r.random() < 0.15
        if c < 0.3:
            n = m.fresh(r.choice(["LIMIT", "DEFAULT", "NAME"]), private)
            b = r.choice(["int", "str", "float", "bool", "bytes"])
            m.add(f"{n} = {value(m, ('b', b))}")
            if b in ("int", "str"):
                m.consts[n] = b
            m.define(n, "variable")
        elif c < 0.55:
            n = m.fresh("setting", private)
            t = rand_type(m, 0)
            dv = value(m, t)
            if dv is None:
                t = ("opt", t, r.choice(["Optional", "bar"]))
                dv = "None"
            m.add(f"{n}: {spell(m, t)} = {dv}")
            m.define(n, "annotated-variable")
        elif c < 0.7:
            n = m.fresh("MAX", private)
            fin = m.ty("Final")
            if r.random() < 0.5:
                m.add(f"{n}: {fin} = {value(m, ('b', r.choice(['int', 'str', 'float', 'bool'])))}")
            else:
                b = r.choice(["int", "str"])
                m.add(f"{n}: {fin}[{b}] = {value(m, ('b', b))}")
            m.define(n, "final-variable")
        elif c < 0.8:
            a, b = m.fresh("left"), m.fresh("right")
            m.add(r.choice([f"{a}, {b} = 1, 'x'", f"({a}, {b}) = (1.5, None)", f"{a} = {b} = 0", f"[{a}, {b}] = [1, 2]"]))
            m.define(a, "variable")
            m.define(b, "variable")
        elif c < 0.9:
            n = m.fresh("registry", private)
            m.add(f"{n} = {r.choice(["{'a': 1}", '[0]', 'dict(a=1)', 'object()', '[1, 2, 3]', 'frozenset({1})', 'len(\"abc\")', 'None', 'lambda x: x'])}")
            m.define(n, "variable")
        else:
            n = r.choice(["__version__", "__author__", "__docformat__"])
            if n not in m.used:
                m.used.add(n)
                m.add(f"{n} = '1.0'")


def v_alias(m: Mod) -> None:
    r = m.rng
    c = r.random()
    private = r.random() < 0.2
    n = m.fresh("Alias", private)
    if c < 0.45:
        t = rand_type(m, 0)
        while t[0] in ("b", "any", "tv", "cls", "ext", "alias", "none"):
            t = rand_type(m, 0)
        if r.random() < 0.3:
            m.add(f"{n}: {m.ty('TypeAlias')} = {spell(m, t)}")
        else:
            m.add(f"{n} = {spell(m, t)}")
        if not private:
            m.aliases.append((n, t))
        m.define(n, "type-alias")
    elif c < 0.6 and m.classes:
        k = r.choice(m.classes)
        m.add(f"{n} = {k.name}")
        m.define(n, "class-alias")
    elif c < 0.75 and m.funcs:
        n2 = m.fresh("alias_fn")
        m.add(f"{n2} = {r.choice(m.funcs)}")
        m.define(n2, "function-alias")
    elif c < 0.85:
        n2 = m.fresh("UserId")
        b = r.choice(["int", "str"])
        m.add(f"{n2} = {m.ty('NewType')}('{n2}', {b})")
        m.define(n2, "newtype")
    else:
        n2 = m.fresh("join")
        m.add(f"{n2} = {m.imp('os')}.path.join" if r.random() < 0.5 else f"{n2} = {m.imp('os.path', 'osp')}.join")
        m.define(n2, "function-alias")


def v_conditional(m: Mod) -> None:
    r = m.rng
    c = r.random()
    sysm = m.imp("sys")
    if c < 0.35:
        n = m.fresh("compat")
        m.add(f"if {sysm}.version_info >= (3, {r.choice([8, 9, 10])}):", f"    def {n}(x: int, y: str = 'a') -> int:", "        return x",
              "else:", f"    def {n}(x: int) -> int:", "        return x")
        m.define(n, "conditional-function")
    elif c < 0.55:
        n = m.fresh("PLATFORM")
        m.add(f"if {sysm}.platform == 'win32':", f"    {n}: str = 'w'", "else:", f"    {n}: str = 'p'")
        m.define(n, "conditional-variable")
    elif c < 0.75:
        n = m.fresh("opt_json", private=r.random() < 0.5)
        m.add("try:", f"    import json as {n}", "except ImportError:", f"    {n} = None  # type: ignore[assignment]")
    elif c < 0.9:
        n = m.fresh("Fallback")
        m.add(f"if {sysm}.version_info >= (3, 11):", f"    class {n}:", "        new: int = 1", "        def go(self) -> None: ...",
              "else:", f"    class {n}:", "        old: int = 0")
        m.classes.append(Cls(n, "class", None, subclassable=False))
        m.define(n, "conditional-class")
    elif c < 0.97:
        m.add("if __name__ == '__main__':", "    print('running')")
    if c >= 0.9 or r.random() < 0.35:
        # a DECORATED function defined in both branches (the second definition is a redefinition stubgen skips),
        # followed by an ordinary function
        n = m.fresh("locked")
        n2 = m.fresh("after_locked")
        if r.random() < 0.5:
            cm = m.imp_from("contextlib", "contextmanager")
            it = m.abc("Iterator")
            osm = m.imp("os")
            m.add(f"if {osm}.name == 'nt':", f"    @{cm}", f"    def {n}(path: str) -> {it}[None]:", "        yield None",
                  "else:", f"    @{cm}", f"    def {n}(path: str) -> {it}[None]:", "        yield None")
        else:
            ft = m.imp("functools")
            m.add("try:", f"    @{ft}.cache", f"    def {n}(x: int) -> int:", "        return x",
                  "except ImportError:", f"    @{ft}.cache", f"    def {n}(x: int) -> int:", "        return -x")
        m.define(n, "conditional-function")
        m.add(f"def {n2}(path: str) -> None:", "    return None")
        m.define(n2, "function")


def v_private_in_public(m: Mod) -> None:
    """A private helper referenced by a public signature / base list / default value."""
    r = m.rng
    c = r.random()
    if c < 0.35:
        p = m.fresh("Opts", private=True)
        m.add(f"class {p}:", "    level: int = 0")
        m.define(p, "class")
        n = m.fresh("configure")
        m.add(f"def {n}(opts: {p}, strict: bool = False) -> {p}:", "    return opts")
        m.define(n, "function")
    elif c < 0.6:
        p = m.fresh("BaseImpl", private=True)
        m.add(f"class {p}:", "    def shared(self) -> int:", "        return 1")
        m.define(p, "class")
        n = m.fresh("Public")
        m.add(f"class {n}({p}):", "    def own(self) -> str:", "        return ''")
        m.classes.append(Cls(n, "class", f"{n}()"))
        m.define(n, "derived-class")
    elif c < 0.8:
        p = m.fresh("SENTINEL", private=True)
        m.add(f"{p} = object()")
        n = m.fresh("lookup")
        m.add(f"def {n}(key: str, default: object = {p}) -> object:", "    return default")
        m.define(n, "function")
    else:
        p = m.fresh("T", private=True)
        m.add(f"{p} = {m.ty('TypeVar')}('{p}')")
        m.define(p, "typevar")
        n = m.fresh("identity")
        m.add(f"def {n}(x: {p}) -> {p}:", "    return x")
        m.define(n, "generic-function")


def v_default_only_refs(m: Mod) -> None:
    """Names that are referenced only inside default values / decorators."""
    r = m.rng
    n = m.fresh("render")
    c = r.random()
    if c < 0.25:
        m.add(f"def {n}(sep: str = {m.imp('os')}.sep, width=80) -> str:", "    return sep")
    elif c < 0.5:
        m.add(f"def {n}(angle: float = {m.imp('math')}.pi, *, eps: float = {m.imp('sys')}.float_info.epsilon) -> float:", "    return angle")
    elif c < 0.7:
        lg = m.imp("logging")
        m.add(f"def {n}(level: int = {lg}.INFO, name=__name__) -> None:", "    pass")
    elif c < 0.85:
        st = m.imp_from("string", "ascii_letters")
        m.add(f"def {n}(alphabet: str = {st}, n: int = len({st})) -> str:", "    return alphabet")
    else:
        enums = [k for k in m.classes if k.kind == "enum" and k.members]
        if enums:
            k = r.choice(enums)
            m.add(f"def {n}(mode={k.name}.{k.members[0]}, other: {k.name} = {k.name}.{k.members[-1]}):", "    return mode")
        else:
            m.add(f"def {n}(when={m.imp('datetime')}.date(2020, 1, 1), flags={m.imp('re')}.IGNORECASE):", "    return when")
    m.funcs.append(n)
    m.define(n, "function")


def v_tc_import(m: Mod) -> None:
    r = m.rng
    n = m.fresh("use_types")
    c = r.random()
    if c < 0.5:
        m.tc_imports.append("from decimal import Decimal as _Dec" if r.random() < 0.5 else "from decimal import Decimal")
        nm = "_Dec" if "as _Dec" in m.tc_imports[-1] else "Decimal"
        if "decimal" in m.imports_from and "Decimal" in m.imports_from["decimal"] and nm == "Decimal":
            m.tc_imports.pop()
            nm = m.imports_from["decimal"]["Decimal"] or "Decimal"
        m.add(f"def {n}(amount: '{nm}', places: int = 2) -> '{nm}':", "    return amount")
    else:
        m.tc_imports.append("import argparse")
        if "argparse" in m.imports_plain:
            m.tc_imports.pop()
        m.add(f"def {n}(ns: 'argparse.Namespace') -> 'list[str]':", "    return []")
    m.define(n, "function")


FEATURES: list[tuple[str, Any, float]] = [
    ("function", f_plain, 3.0), ("async", f_async, 0.7), ("generator", f_generator, 0.8), ("overload", f_overload, 0.8),
    ("decorated", f_decorated, 0.7), ("generic-func", f_generic, 0.9), ("class", c_plain, 2.5), ("abc", c_abc, 0.7),
    ("protocol", c_protocol, 0.5), ("dataclass", c_dataclass, 1.2), ("enum", c_enum, 1.0), ("namedtuple", c_namedtuple, 1.0),
    ("typeddict", c_typeddict, 0.9), ("pep695", c_pep695, 0.8), ("vars", v_vars, 1.5), ("alias", v_alias, 1.0),
    ("conditional", v_conditional, 0.6), ("private-in-public", v_private_in_public, 0.3),
    ("default-only-refs", v_default_only_refs, 0.6), ("tc-import", v_tc_import, 0.3),
]


def finish_all(m: Mod) -> list[str]:
    """`__all__` in one of several forms, or none."""
    r = m.rng
    c = r.random()
    if c < 0.55 or not m.public:
        return []
    names = [n for n in m.public if r.random() < 0.8] or m.public[:1]
    if m.private and r.random() < 0.3:
        names.append(r.choice(m.private))
    cc = r.random()
    if cc < 0.5:
        return [f"__all__ = {names!r}"]
    if cc < 0.7:
        return [f"__all__ = ({', '.join(repr(n) for n in names)},)"]
    if cc < 0.85 and len(names) > 1:
        return [f"__all__ = {names[:1]!r}", f"__all__ += {names[1:]!r}"]
    return ["__all__ = [", *[f"    {n!r}," for n in names], "]"]


def gen_module(rng: random.Random, name: str, n_defs: tuple[int, int] = (8, 13), package: str | None = None,
               siblings: list[tuple[str, "Mod"]] | None = None, rel_prefix: str = ".", counter0: int = 0) -> Mod:
    m = Mod(rng, name, package)
    m.counter = counter0
    if rng.random() < 0.5:
        m.body.append(f'"""Module {name}."""')
    # imports from sibling modules of the package: classes usable in annotations and as bases
    for sib_name, sib in siblings or []:
        cands = [k for k in sib.classes if not k.name.startswith("_") and k.kind in ("class", "enum", "dataclass", "abc", "namedtuple", "typeddict")]
        if not cands:
            continue
        for k in rng.sample(cands, min(len(cands), rng.randint(1, 2))):
            c = rng.random()
            if c < 0.6:
                m.imp_from(f"{rel_prefix}{sib_name}", k.name)
                m.classes.append(Cls(k.name, k.kind, None, k.members, k.nparams, k.subclassable))
            elif c < 0.8:
                alias = "Imp" + k.name
                m.imp_from(f"{rel_prefix}{sib_name}", k.name, alias)
                m.classes.append(Cls(alias, k.kind, None, k.members, k.nparams, k.subclassable))
            m.used.add(k.name)
    target = rng.randint(*n_defs)
    weights = [w for _, _, w in FEATURES]
    guard = 0
    while len(m.public) < target and guard < 60:
        guard += 1
        fname, fn, _ = rng.choices(FEATURES, weights)[0]
        fn(m)
    return m


def render(m: Mod, order_all_first: bool = False) -> str:
    all_lines = finish_all(m)
    hdr = m.header()
    doc = [m.body[0]] if m.body and m.body[0].startswith('"""') else []
    body = m.body[1:] if doc else m.body
    if m.rng.random() < 0.5:
        parts = doc + hdr + all_lines + body
    else:
        parts = doc + hdr + body + all_lines
    return "\n".join(parts) + "\n"


def gen_bundle(rng: random.Random, tag: str, n_standalone: int = 4, with_package: bool = True) -> dict[str, Any]:
    """files: {relative path: source}; modules: importable dotted names (packages included)."""
    files: dict[str, str] = {}
    modules: list[str] = []
    for i in range(n_standalone):
        name = f"{tag}_m{i}"
        m = gen_module(rng, name)
        files[f"{name}.py"] = render(m)
        modules.append(name)
    if with_package:
        pkg = f"{tag}_pkg"
        core = gen_module(rng, "core", (6, 10), package=pkg)
        util = gen_module(rng, "util", (5, 9), package=pkg, siblings=[("core", core)], counter0=100)
        files[f"{pkg}/core.py"] = render(core)
        util_src = render(util)
        if rng.random() < 0.5:
            util_src = util_src.replace("\n", "\nfrom . import core as _core_mod\n", 1) if rng.random() < 0.5 else util_src + "from . import core\n"
        files[f"{pkg}/util.py"] = util_src
        leaf = gen_module(rng, "leaf", (4, 8), package=pkg + ".sub", siblings=[("core", core), ("util", util)], rel_prefix="..", counter0=200)
        files[f"{pkg}/sub/__init__.py"] = rng.choice(["", "from .leaf import *\n", "from . import leaf\n", '"""Sub package."""\n'])
        files[f"{pkg}/sub/leaf.py"] = render(leaf)
        # package __init__: re-exports in several forms
        lines: list[str] = []
        exported: list[str] = []
        if rng.random() < 0.5:
            lines.append(f'"""Package {pkg}."""')
        pubs_core = [n for n in core.public][:6]
        pubs_util = [n for n in util.public if n not in pubs_core][:6]
        if pubs_core:
            c = rng.random()
            take = rng.sample(pubs_core, min(len(pubs_core), rng.randint(1, 3)))
            if c < 0.4:
                lines.append(f"from .core import {', '.join(take)}")
            elif c < 0.7:
                lines.append(f"from .core import {', '.join(f'{n} as {n}' for n in take)}")
            else:
                lines.append(f"from {pkg}.core import {', '.join(take)}")
            exported += take
        if pubs_util:
            c = rng.random()
            take = rng.sample(pubs_util, min(len(pubs_util), rng.randint(1, 2)))
            if c < 0.5:
                lines.append(f"from .util import {', '.join(take)}")
                exported += take
            elif c < 0.7:
                lines.append("from . import util")
                exported.append("util")
            else:
                lines.append("from .util import *")
        if rng.random() < 0.5:
            lines.append("from . import sub as sub")
        lines.append(f"VERSION: str = '1.{rng.randint(0, 9)}'")
        lines.append("def get_version(short: bool = False) -> str:\n    return VERSION")
        if rng.random() < 0.5 and exported:
            lines.append(f"__all__ = {sorted(set(exported + ['get_version']))!r}")
        files[f"{pkg}/__init__.py"] = "\n".join(lines) + "\n"
        modules += [pkg, f"{pkg}.core", f"{pkg}.util", f"{pkg}.sub", f"{pkg}.sub.leaf"]
    return {"files": files, "modules": modules}
