"""C17 parent side: witness program, value/spelling enumeration per option, run plans per source.

A *run* is one execution of the real front end with one way of supplying the setting:
  cls "global": cli | ini ([mypy] in mypy.ini) | cfg (setup.cfg) | toml ([tool.mypy] in pyproject.toml)
  cls "module": sec-ini ([mypy-w]) | sec-toml ([[tool.mypy.overrides]] module="w") | inline (# mypy: in w.py)
"""

from __future__ import annotations

import json
import random
from typing import Any

W = "w.py"
WLIB = "wlib.py"
PLACEHOLDER = "# (line 1 is reserved for inline configuration)"

WITNESS: dict[str, str] = {
    W: PLACEHOLDER + '''
import sys
from typing import Any, Callable, Dict, List, Optional, TypeVar, cast
import wlib
import wmissing
from wlib import AnyAlias, deco, helper, old_api, reexp, untyped_fn

VT1 = VT2 = VF1 = VF2 = CA = CB = bool(sys.argv)
T = TypeVar("T")


def untyped_def(x):
    return 1 + ""


def incomplete(x, y: int):
    return y


def implicit_opt(x: int = None) -> int:
    return 0


def no_return(x: int) -> int:
    if x:
        return 1


def ret_any(a: Any) -> int:
    return a


def unreachable(x: int) -> int:
    if isinstance(x, int):
        return 1
    return "s"


def generics(x: List) -> Dict:
    return {}


def calls(o2: Optional[int]) -> None:
    untyped_fn(1)
    c = cast(int, 1)
    y = 1 + 1  # type: ignore
    if c == "a":
        pass
    if c == None:
        pass
    o2 + 1
    v = 1
    v = "s"
    old_api()
    z = helper()


class Sub(AnyAlias):
    pass


@deco
def decorated(x: int) -> int:
    return x


if VT1:
    pass
else:
    1 + ""
if VT2:
    pass
else:
    1 + ""
if VF1:
    1 + ""
if VF2:
    1 + ""
if CA:
    pass
else:
    1 + ""
if CB:
    pass
else:
    1 + ""
if sys.platform == "win32":
    1 + ""
if sys.version_info >= (3, 13):
    1 + ""
gl = []
b: bytes = bytearray(b"x")
x_any = wmissing.foo
reexp
part = None


def setpart() -> None:
    global part
    part = 1


def cb(f: Callable[[int], T]) -> T:
    return f(1)


def concat() -> None:
    fs = [lambda x: x, lambda x: x + 1]
    reveal_type(cb)
''',
    WLIB: PLACEHOLDER + '''
from typing import Any
from typing_extensions import deprecated
from wlib2 import reexp

AnyAlias: Any = object


def untyped_fn(x):
    return x


def deco(f):
    return f


def helper() -> int:
    return "not an int"


@deprecated("use new_api")
def old_api() -> None: ...
''',
    "wlib2.py": "reexp = 1\n",
    "wplugin.py": "from mypy.plugin import Plugin\n\n\nclass P(Plugin):\n    pass\n\n\ndef plugin(version: str):\n    return P\n",
    "wpkg/__init__.py": "def f(x): return 1 + ''\n",
    "wpkg/sub.py": "1 + ''\n",
    "stubs_a/wmissing.pyi": "foo: int\n",
}

INI_TRUE = ["True", "true", "yes", "on", "1", "TRUE"]
INI_FALSE = ["False", "false", "no", "off", "0", "FALSE"]

# never compared: where the setting came from / how it is stored, not what it means
BOOKKEEPING = {"config_file", "per_module_options", "no_site_packages", "files", "modules", "packages"}
# legitimately differs between a global and a per-module source (options.py: "the only option for which a per-module
# and a global option sometimes behave differently"; documented under ignore_missing_imports)
CROSS_CLASS_ONLY = {"ignore_missing_imports_per_module"}
# mypy.main.main(clean_exit=True) - the only way to run main() in-process - resets fast_exit after process_options
HARNESS_MUTATED = {"fast_exit"}
# computed by build.build (Options.process_error_codes), absent after process_options alone
BUILD_DERIVED = {"enabled_error_codes", "disabled_error_codes"}

STR_VALUES = {
    "platform": ["win32"],
    "cache_dir": ["vcache_x"],
    "custom_typing_module": ["wlib2"],
    "junit_xml": ["vout_junit.xml"],
    "quickstart_file": ["vquick.json"],
    "python_executable": ["/usr/bin/python3"],
    "output": ["json"],
}
LIST_VALUES = {
    "always_true": [["VT1"], ["VT1", "VT2"]],
    "always_false": [["VF1"], ["VF1", "VF2"]],
    "disable_error_code": [["operator"], ["operator", "return"]],
    "enable_error_code": [["truthy-bool"], ["deprecated", "redundant-expr"]],  # sorted: inline comments sort the codes
    "untyped_calls_exclude": [["wlib"], ["wlib", "other.pkg"]],
    "deprecated_calls_exclude": [["wlib"], ["wlib", "other.pkg"]],
    "enable_incomplete_feature": [["PreciseTupleTypes"], ["PreciseTupleTypes", "InlineTypedDict"]],
    "package_root": [["wpkg"], ["wpkg", "stubs_a"]],
    "exclude": [["excl_.*"]],
    "plugins": [["wplugin.py"]],
    "mypy_path": [["stubs_a"], ["stubs_a", "stubs_b"]],
}
CONFLICT_LISTS = {"always_true": (["CA"], ["CB"]), "always_false": (["CA"], ["CB"]),
                  "disable_error_code": (["operator"], ["return"]), "enable_error_code": (["truthy-bool"], ["redundant-expr"]),
                  "untyped_calls_exclude": (["wlib"], ["other"]), "deprecated_calls_exclude": (["wlib"], ["other"])}
INT_VALUES = {"many_errors_threshold": [7], "sqlite_num_shards": [4], "num_workers": [2], "verbosity": [1, 2]}
# a build under these would leave the sandboxed, single-process, non-interactive regime; their snapshots are still compared
# every build under these is a cold one (cache off): complete builds only for the plain spelling of each source
SLOW_BUILD = {"incremental"}
# besides mypy.options.OPTIONS_AFFECTING_CACHE: a non-default global value of these also makes the first build cold
COLD_WHEN_GLOBAL = {"python_version", "incremental", "sqlite_cache", "sqlite_num_shards", "cache_fine_grained", "logical_deps",
                    "skip_version_check", "custom_typing_module", "mypy_path"}
NO_BUILD = {"num_workers", "pdb", "install_types", "non_interactive", "python_executable", "cache_dir", "custom_typeshed_dir",
            "bazel", "quickstart_file", "raise_exceptions", "dump_graph", "dump_deps", "semantic_analysis_only"}


def toml_val(v: Any) -> str:
    if isinstance(v, bool):
        return "true" if v else "false"
    if isinstance(v, list):
        return "[" + ", ".join(toml_val(x) for x in v) + "]"
    if isinstance(v, (int, float)):
        return repr(v)
    return json.dumps(str(v))


def ini_val(v: Any) -> str:
    if isinstance(v, list):
        return ", ".join(str(x) for x in v)
    return str(v)


def ini_file(name: str, glob: list[tuple[str, str]], secs: list[tuple[str, list[tuple[str, str]]]] = ()) -> dict[str, str]:  # type: ignore[assignment]
    lines = ["[mypy]"] + [f"{k} = {v}" for k, v in glob]
    for pat, kv in secs:
        lines += ["", f"[mypy-{pat}]"] + [f"{k} = {v}" for k, v in kv]
    return {name: "\n".join(lines) + "\n"}


def toml_file(glob: list[tuple[str, str]], secs: list[tuple[str, list[tuple[str, str]]]] = ()) -> dict[str, str]:  # type: ignore[assignment]
    lines = ["[tool.mypy]"] + [f"{k} = {v}" for k, v in glob]
    for pat, kv in secs:
        lines += ["", "[[tool.mypy.overrides]]", f"module = {json.dumps(pat)}"] + [f"{k} = {v}" for k, v in kv]
    return {"pyproject.toml": "\n".join(lines) + "\n"}


def bool_spellings(key: str, attrs: set[str]) -> list[tuple[str, str, bool]]:
    """(spelling kind, config key, inverted?) the documentation promises for a boolean option:
    the name itself, `no_` added, allow<->disallow swapped; plus the show_ spelling of a hide_ option
    (the command line offers --show-X for it and DESIGN lists show_/hide_ as part of the enumeration)."""
    out = [("plain", key, False)]
    if not key.startswith("no_"):
        out.append(("no_", "no_" + key, True))
    if key.startswith("disallow_"):
        out.append(("allow-swap", key[3:], True))
    elif key.startswith("allow_"):
        out.append(("disallow-swap", "dis" + key, True))
    if key.startswith("hide_"):
        out.append(("show-swap", "show_" + key[5:], True))
    return out


def values_of(e: dict[str, Any], repo: str) -> list[tuple[str, Any]]:
    """[(value id, value)], non-default values first. Value ids are stable names."""
    k, kind, dv = e["dest"], e["kind"], e.get("default")
    if kind == "bool":
        d = bool(dv) if isinstance(dv, bool) else False
        return [("nd", not d), ("d", d)]
    if kind == "choice":
        return [(f"c:{c}", c) for c in e["choices"] if c != dv] + ([("d", dv)] if dv in e["choices"] else [])
    if kind in ("int", "count"):
        return [(f"i:{v}", v) for v in INT_VALUES.get(k, [3])]
    if kind == "version":
        return [("v:3.11", "3.11"), ("v:3.13", "3.13")]
    if kind == "list":
        return [(f"l{len(v)}", v) for v in LIST_VALUES.get(k, [["va"], ["va", "vb"]])]
    if k == "custom_typeshed_dir":
        return [("s", repo + "/mypy/typeshed")]
    return [("s", v) for v in STR_VALUES.get(k, ["vval"])]


def expected_value(e: dict[str, Any], v: Any) -> Any:
    if e["kind"] == "version":
        return [int(x) for x in v.split(".")]
    return v


def cli_forms(e: dict[str, Any], v: Any) -> list[tuple[str, list[str]]]:
    kind = e["kind"]
    if kind == "bool":
        return [(f, [f]) for f in (e["cli_true"] if v else e["cli_false"])]
    if not e["cli_flag"]:
        return []
    if kind == "count":
        f = e["cli_flag"]
        return [(f[0], [f[0]] * v)] + ([(f[-1] + "-long", [f[-1]] * v)] if len(f) > 1 else [])
    if kind == "list":
        out = []
        for f in e["cli_flag"]:
            args: list[str] = []
            for x in v:
                args += [f, x]
            out.append((f, args))
        if e["cli_flag"][0].startswith("--"):
            f = e["cli_flag"][0]
            out.append((f + "=", [f"{f}={x}" for x in v]))
        return out
    out = []
    for f in e["cli_flag"]:
        out.append((f, [f, str(v)]))
        if f.startswith("--"):
            out.append((f + "=", [f"{f}={v}"]))
    return out


def inline_text(items: list[tuple[str, str | None]]) -> str:
    parts = []
    for k, v in items:
        parts.append(k if v is None else f"{k}={v}")
    return "# mypy: " + ", ".join(parts)


def inline_val(v: Any) -> str:
    if isinstance(v, list):
        return '"' + ",".join(v) + '"' if len(v) != 1 else v[0]
    return str(v)


def plan_group(e: dict[str, Any], tab: dict[str, Any], rng: random.Random, thorough: bool, full: bool = True) -> dict[str, Any]:
    """All equivalence runs and conflict runs for one option.

    full=False (quick tier, option not in the seeded sample): sources that change the *global* options to a non-default
    value are compared on `process_options` + `clone_for_module` snapshots only, so that no cold typeshed build is needed;
    per-module sources and inline comments are still run through complete builds."""
    k = e["dest"]
    kind = e["kind"]
    attrs = set(tab["defaults"])
    config_ok = bool(e.get("documented") or e.get("config_typed"))
    toml_ok = bool(e.get("documented") or e.get("toml_typed"))
    per_module = bool(e.get("per_module")) and config_ok
    build = k not in NO_BUILD
    tb = thorough and k not in SLOW_BUILD  # complete builds for every spelling?
    runs: list[dict[str, Any]] = [{"id": "baseline", "cls": "base", "vid": "-", "src": "none", "spelling": "-",
                                   "config": ini_file("mypy.ini", [])}]
    notes: list[str] = []
    vals = values_of(e, tab["repo"])
    default = e.get("default")

    def add(vid: str, cls: str, src: str, spelling: str, v: Any, **kw: Any) -> None:
        r = {"id": f"{vid}|{src}|{spelling}", "cls": cls, "vid": vid, "src": src, "spelling": spelling,
             "value": expected_value(e, v), **kw}
        if cls == "global" and expected_value(e, v) != default and not (thorough or (full and vid == vals[0][0])):
            r["no_build"] = True  # quick tier: one cold build per sampled option (its first non-default value)
        runs.append(r)

    for vid, v in vals:
        is_default = expected_value(e, v) == default
        forms = cli_forms(e, v)
        eff = forms[0][1] if (forms and not is_default) else []
        tag = "" if (is_default or eff) else vid
        common_kw: dict[str, Any] = {"eff_flags": eff, "cache_tag": tag}
        # ---- command line
        for name, argv in (forms if thorough or kind == "bool" else forms[:2]):
            add(vid, "global", "cli", name, v, argv=argv, config=ini_file("mypy.ini", []), **common_kw)
        if not forms:
            notes.append(f"{k}={vid}: no command-line form")
            if not e.get("documented"):
                notes.append(f"{k}={vid}: value expressible neither on the command line nor by a documented config key (not judged)")
                continue
        if not config_ok:
            notes.append(f"{k}: not a config-file key (single-source, not judged across sources)")
            continue
        # ---- config files, global section
        spell: list[tuple[str, str, Any, Any]] = []  # kind, key, ini text, toml text
        if kind == "bool":
            for sk, key, inv in bool_spellings(k, attrs):
                val = (not v) if inv else v
                texts = INI_TRUE if val else INI_FALSE
                spell.append((sk, key, texts[0], toml_val(val)))
                alts = texts[1:] if thorough else [rng.choice(texts[1:])]
                if sk == "plain":
                    for t in alts:
                        spell.append((f"plain~{t}", key, t, json.dumps(t)))
            if k == "allow_redefinition":
                spell.append(("alias-new", "allow_redefinition_new", INI_TRUE[0] if v else INI_FALSE[0], toml_val(v)))
        elif kind == "list":
            spell.append(("plain", k, ini_val(v), toml_val(v)))
            spell.append(("plain~nospace", k, ",".join(v), json.dumps(",".join(v))))
            if len(v) > 1:
                spell.append(("plain~trailing-comma", k, ", ".join(v) + ",", json.dumps(", ".join(v) + ",")))
        elif kind in ("int", "count"):
            spell.append(("plain", k, str(v), toml_val(v)))
            spell.append(("plain~str", k, str(v), json.dumps(str(v))))
        elif kind == "version":
            spell.append(("plain", k, v, json.dumps(v)))
            spell.append(("plain~float", k, v, v))
        else:
            spell.append(("plain", k, str(v), json.dumps(str(v))))
        if not thorough and is_default:
            spell = spell[:1]
        for sk, key, itext, ttext in spell:
            nb = {"no_build": True} if (not tb and sk != "plain") else {}
            if "~" not in sk or not sk.endswith(("~str", "~float")):
                add(vid, "global", "ini", sk, v, config=ini_file("mypy.ini", [(key, itext)]), **common_kw, **nb)
            if toml_ok:
                add(vid, "global", "toml", sk, v, config=toml_file([(key, ttext)]), **common_kw, **nb)
        add(vid, "global", "cfg", "plain", v, config=ini_file("setup.cfg", [(spell[0][1], spell[0][2])]), **common_kw,
            **({"no_build": True} if not tb else {}))
        # ---- per-module sources: [mypy-w], [[tool.mypy.overrides]] module="w", # mypy: in w.py
        if per_module:
            mkw = {"eff_flags": [], "cache_tag": ""}
            for sk, key, itext, ttext in spell:
                if sk.startswith("plain~") and not thorough:
                    continue
                nb = {"no_build": True} if (not tb and sk != "plain") else {}
                if not sk.endswith(("~str", "~float")):
                    add(vid, "module", "sec-ini", sk, v, config=ini_file("mypy.ini", [], [("w", [(key, itext)])]), **mkw, **nb)
                add(vid, "module", "sec-toml", sk, v, config=toml_file([], [("w", [(key, ttext)])]), **mkw, **nb)
                if sk.startswith("plain~"):
                    continue
                ival = None if (kind == "bool" and itext == "True") else (itext if kind == "bool" else inline_val(v))
                for dash in ((True, False) if (thorough or sk == "plain") else (True,)):
                    kk = key.replace("_", "-") if dash else key
                    add(vid, "module", "inline", sk + ("/dash" if dash else "/underscore"), v,
                        config=ini_file("mypy.ini", []), line1={W: inline_text([(kk, ival)])}, **mkw)
                    if ival is None:
                        add(vid, "module", "inline", sk + ("/dash" if dash else "/underscore") + "=True", v,
                            config=ini_file("mypy.ini", []), line1={W: inline_text([(kk, "True")])}, **mkw)
    # ---- conflicts: two sources disagree; the documented precedence decides
    conflicts: list[dict[str, Any]] = []
    if config_ok and (kind in ("bool", "choice") or (kind == "list" and k in CONFLICT_LISTS)):
        if kind == "bool":
            d = bool(default) if isinstance(default, bool) else False
            pairs = [((not d), d), (d, (not d))]
        elif kind == "choice":
            cs = e["choices"]
            pairs = [(cs[1], cs[2]), (cs[2], cs[1])] if len(cs) >= 3 else [(cs[0], cs[1]), (cs[1], cs[0])]
        else:
            a, b = CONFLICT_LISTS.get(k, (["ca"], ["cb"]))
            pairs = [(a, b), (b, a)]

        def cli(v: Any) -> list[str] | None:
            f = cli_forms(e, v)
            return f[0][1] if f else None

        def iv(v: Any) -> str:
            return ini_val(v)

        def il(v: Any) -> str:
            if kind == "bool":
                return inline_text([(k.replace("_", "-"), str(v))])
            return inline_text([(k.replace("_", "-"), inline_val(v))])

        for hi, lo in pairs:
            pid = f"{json.dumps(hi)}>{json.dumps(lo)}"

            def addc(name: str, expect: dict[str, Any], **kw: Any) -> None:
                eff: list[str] = []
                g = expect.get("global")
                if g is not None and g != default and cli(g):
                    eff = cli(g) or []
                expect = dict(expect)
                expect.setdefault("lo", lo)
                nb = {"no_build": True} if (not tb and "line1" not in kw) else {}
                if "line1" in kw and g is not None and g != default and not (thorough or (full and g == expected_value(e, vals[0][1]))):
                    notes.append(f"{k}: quick tier, option outside the seeded full-build sample: inline conflicts over a non-default global value not run")
                    return
                conflicts.append({"id": f"conflict|{name}|{pid}", "cls": "conflict", "vid": pid, "src": name, "spelling": "-",
                                  "expect": expect, "eff_flags": eff, "cache_tag": "" if (eff or g == default) else json.dumps(g), "merge_ok": kind == "list", **kw, **nb})

            c_hi, c_lo = cli(hi), cli(lo)
            if c_hi is not None:
                addc("cli>ini", {"global": hi, "w": hi, "wlib": hi, "lo": lo}, argv=c_hi, config=ini_file("mypy.ini", [(k, iv(lo))]))
                addc("cli>toml", {"global": hi, "w": hi, "wlib": hi, "lo": lo}, argv=c_hi, config=toml_file([(k, toml_val(lo))]))
                addc("cli>cfg", {"global": hi, "w": hi, "wlib": hi, "lo": lo}, argv=c_hi, config=ini_file("setup.cfg", [(k, iv(lo))]))
            if per_module:
                if c_lo is not None:
                    addc("sec-ini>cli", {"global": lo, "w": hi, "wlib": lo}, argv=c_lo,
                         config=ini_file("mypy.ini", [], [("w", [(k, iv(hi))])]))
                    addc("sec-toml>cli", {"global": lo, "w": hi, "wlib": lo}, argv=c_lo,
                         config=toml_file([], [("w", [(k, toml_val(hi))])]))
                    addc("inline>cli", {"global": lo, "w": hi, "wlib": lo}, argv=c_lo, config=ini_file("mypy.ini", []),
                         line1={W: il(hi)})
                addc("sec-ini>ini", {"global": lo, "w": hi, "wlib": lo}, config=ini_file("mypy.ini", [(k, iv(lo))], [("w", [(k, iv(hi))])]))
                addc("sec-toml>toml", {"global": lo, "w": hi, "wlib": lo},
                     config=toml_file([(k, toml_val(lo))], [("w", [(k, toml_val(hi))])]))
                addc("inline>sec-ini", {"global": default, "w": hi, "wlib": default},
                     config=ini_file("mypy.ini", [], [("w", [(k, iv(lo))])]), line1={W: il(hi)})
                addc("inline>sec-toml", {"global": default, "w": hi, "wlib": default},
                     config=toml_file([], [("w", [(k, toml_val(lo))])]), line1={W: il(hi)})
                addc("inline>ini", {"global": lo, "w": hi, "wlib": lo}, config=ini_file("mypy.ini", [(k, iv(lo))]), line1={W: il(hi)})
                if c_lo is not None:
                    addc("all-layers", {"global": lo, "w": hi, "wlib": hi}, argv=c_lo,
                         config=ini_file("mypy.ini", [(k, iv(hi))], [("w", [(k, iv(lo))]), ("wlib", [(k, iv(hi))])]),
                         line1={W: il(hi)})
    for r in runs + conflicts:
        r.setdefault("watch", ["w", "wlib"])
        r.setdefault("targets", [W])
    return {"dest": k, "kind": kind, "runs": runs + conflicts, "build": build, "notes": notes, "per_module": per_module,
            "config_ok": config_ok, "default": default, "check_key": k, "documented": bool(e.get("documented"))}
