"""External instrumentation shim (C04, C07). Put this directory on PYTHONPATH *and* set PYTHON_MYPY_VERIF=1.

Nothing in /repo is modified: after `mypy.metastore` / `mypy.build` / `mypy.build_worker.worker` are imported,
selected functions are replaced by wrappers that always call the original and never alter its result, except when
a fault (kill / failed write) or a schedule perturbation is explicitly requested through the environment:

  VERIF_EVENTS=<path>          append one JSON line per event (store ops, scheduler events)
  VERIF_KILL=<role>:<n>:<when> os._exit(137) at store op number n (1-based, per process role); when = before|after|replace
  VERIF_FAIL=<role>:<i,j,...>  store *write* ops with these numbers fail (return False, no effect)
  VERIF_CLOCK=<run index>      logical mtimes for cache records: 1e9 + 1000*run + op  (runs are "more than 1 s apart")
  VERIF_WORKER_START_TIMEOUT=<s> lengthen mypy.build.WORKER_START_TIMEOUT (3 s) so a loaded machine does not fail builds
  VERIF_SCHED=<seed>[:<mode>]  schedule perturbation in parallel builds (delays at message/commit boundaries,
                               permuted free-worker choice, shuffled ready order, batch size mode one|all|default)
Roles: coord (the CLI / coordinator process), worker<i>, daemon.
"""

import os
import sys

if os.environ.get("PYTHON_MYPY_VERIF") == "1":
    import importlib.abc
    import importlib.util
    import json
    import time

    _argv = getattr(sys, "orig_argv", sys.argv)
    _role = "coord"
    if any("mypy.build_worker" in a or "build_worker" in a for a in _argv):
        _role = "worker?"
        import re as _re
        for a in _argv:
            _m = _re.search(r"\.(\d+)\.json$", a) if a.startswith("--status-file") else None
            if _m:
                _role = "worker" + _m.group(1)
    elif any("dmypy" in a for a in _argv):
        _role = "daemon"
    _state = {"n": 0, "role": _role, "seq": 0}
    _ev_fd = None

    def _event(ev, **kw):
        global _ev_fd
        path = os.environ.get("VERIF_EVENTS")
        if not path:
            return
        if _ev_fd is None:
            _ev_fd = os.open(path, os.O_WRONLY | os.O_APPEND | os.O_CREAT, 0o644)
        _state["seq"] += 1
        rec = {"t": time.monotonic_ns(), "pid": os.getpid(), "role": _state["role"], "seq": _state["seq"], "ev": ev}
        rec.update(kw)
        try:
            os.write(_ev_fd, (json.dumps(rec, default=str) + "\n").encode())
        except OSError:
            pass

    def _parse_kill():
        v = os.environ.get("VERIF_KILL")
        if not v:
            return None
        role, n, when = v.split(":")
        return role, int(n), when

    def _parse_fail():
        v = os.environ.get("VERIF_FAIL")
        if not v:
            return None, set()
        role, ns = v.split(":")
        return role, {int(x) for x in ns.split(",") if x}

    _kill = _parse_kill()
    _fail_role, _fail_set = _parse_fail()
    _clock = os.environ.get("VERIF_CLOCK")

    def _die(where):
        _event("kill", where=where, n=_state["n"])
        os._exit(137)

    def _kind_of(name):
        if ".meta_ex." in name:
            return "meta_ex"
        if ".meta." in name:
            return "meta"
        if ".data." in name:
            return "data"
        return "other"

    def _store_op(kind, name, orig, self, *a, **kw):
        """Common wrapper body for write/remove/commit/commit_path of both stores."""
        _state["n"] += 1
        n = _state["n"]
        role = _state["role"]
        _event("store", op=kind, name=name, rec=_kind_of(name or ""), n=n, store=type(self).__name__)
        if _kill and _kill[0] == role and _kill[1] == n and _kill[2] == "before":
            _die("before")
        if kind == "write" and _fail_role == role and n in _fail_set:
            _event("store_failed", op=kind, name=name, n=n)
            return False
        if kind == "write" and _kill and _kill[0] == role and _kill[1] == n and _kill[2] == "replace" \
                and type(self).__name__ == "FilesystemMetadataStore":
            # die inside the filesystem write, after the temp file exists and before os.replace
            import mypy.metastore as MS
            real_replace = os.replace

            def dying_replace(*ra, **rk):
                _die("replace")
            MS.os.replace = dying_replace  # type: ignore[attr-defined]
            try:
                return orig(self, *a, **kw)
            finally:
                MS.os.replace = real_replace
        if kind == "write" and _clock is not None:
            mt = 1_000_000_000 + 1000 * int(_clock) + n
            if len(a) >= 3:
                a = (a[0], a[1], mt)
            else:
                kw = dict(kw)
                kw["mtime"] = mt
        res = orig(self, *a, **kw)
        if _kill and _kill[0] == role and _kill[1] == n and _kill[2] == "after":
            _die("after")
        return res

    def _patch_metastore(mod):
        for cls_name in ("FilesystemMetadataStore", "SqliteMetadataStore"):
            cls = getattr(mod, cls_name, None)
            if cls is None:
                continue
            for meth in ("write", "remove", "commit", "commit_path"):
                if meth not in cls.__dict__:
                    continue
                orig = cls.__dict__[meth]

                def make(orig=orig, meth=meth):
                    def wrapper(self, *a, **kw):
                        name = a[0] if a and isinstance(a[0], str) else kw.get("name")
                        return _store_op(meth, name, orig, self, *a, **kw)
                    wrapper.__name__ = meth
                    wrapper.__verif_wrapped__ = True
                    return wrapper
                setattr(cls, meth, make())

    # ---- schedule perturbation / scheduler history (C07) -------------------------------------------
    _sched = os.environ.get("VERIF_SCHED")

    def _rng(*parts):
        import hashlib
        import random
        h = hashlib.sha1(repr((_sched,) + parts).encode()).hexdigest()
        return random.Random(h)

    def _delay(tag, *parts):
        if not _sched:
            return
        r = _rng(tag, _state["role"], *parts)
        x = r.random()
        d = 0.0 if x < 0.45 else (r.random() * 0.02 if x < 0.8 else r.random() * 0.25)
        if d:
            time.sleep(d)

    def _patch_build(mod):
        BM = mod.BuildManager
        if os.environ.get("VERIF_WORKER_START_TIMEOUT"):
            # the 3 s start-up deadline is a wall-clock constant that a loaded machine misses; verdicts must not
            # depend on it, so the harness may lengthen it (value only; no logic is changed)
            mod.WORKER_START_TIMEOUT = float(os.environ["VERIF_WORKER_START_TIMEOUT"])
        mode = (_sched or ":").split(":")[1] if _sched and ":" in _sched else "default"

        class RandSet(set):
            """free_workers with a seeded choice instead of set.pop()'s arbitrary one."""
            _k = 0

            def pop(self):
                RandSet._k += 1
                items = sorted(self)
                if _sched:
                    x = _rng("free", RandSet._k).choice(items)
                    self.discard(x)
                else:
                    x = set.pop(self)
                _event("assign_worker", idx=x, free=items)
                return x

        orig_submit = BM.submit_to_workers

        def submit_to_workers(self, graph, sccs=None):
            if not isinstance(self.free_workers, RandSet):
                self.free_workers = RandSet(self.free_workers)
            return orig_submit(self, graph, sccs)
        BM.submit_to_workers = submit_to_workers

        if _sched and mode in ("one", "all"):
            def max_batch_size(self):
                return 0 if mode == "one" else 10 ** 9
            BM.max_batch_size = max_batch_size

        orig_recv = BM.receive_worker_message

        def receive_worker_message(self, idx):
            buf = orig_recv(self, idx)
            _event("recv_from_worker", idx=idx)
            return buf
        BM.receive_worker_message = receive_worker_message

        orig_ready = mod.ready_to_read

        def ready_to_read(conns, timeout=None):
            res = orig_ready(conns, timeout)
            if _sched and _state["role"] == "coord" and len(res) > 1:
                res = list(res)
                RandSet._k += 1
                _rng("ready", RandSet._k).shuffle(res)
            return res
        mod.ready_to_read = ready_to_read

        Req = mod.SccRequestMessage
        orig_req_init = Req.__init__

        def req_init(self, *a, **kw):
            orig_req_init(self, *a, **kw)
            if _state["role"] == "coord":
                _event("scc_request", scc_ids=list(self.scc_ids))
        Req.__init__ = req_init

        Resp = mod.SccResponseMessage
        orig_resp_read = Resp.read.__func__

        def resp_read(cls, buf):
            m = orig_resp_read(cls, buf)
            if _state["role"] == "coord":
                _event("scc_response", scc_ids=list(m.scc_ids), is_interface=bool(m.is_interface),
                       blocker=m.blocker is not None,
                       n_err={k: len(v.error_lines) for k, v in (m.result or {}).items()})
            return m
        Resp.read = classmethod(resp_read)

        Sccs = mod.SccsDataMessage
        orig_sccs_init = Sccs.__init__

        def sccs_init(self, *a, **kw):
            orig_sccs_init(self, *a, **kw)
            if _state["role"] == "coord":
                _event("scc_structure", sccs=[{"id": s.id, "mods": sorted(s.mod_ids), "deps": sorted(s.deps)} for s in self.sccs])
        Sccs.__init__ = sccs_init

        orig_flush = None

    def _patch_worker(mod):
        orig_iface = mod.process_stale_scc_interface
        orig_impl = mod.process_stale_scc_implementation
        orig_send = mod.timed_send

        def process_stale_scc_interface(graph, scc, manager, from_cache):
            _delay("before_iface", scc.id)
            _event("iface_start", scc=scc.id, mods=sorted(scc.mod_ids))
            try:
                return orig_iface(graph, scc, manager, from_cache=from_cache)
            finally:
                _event("iface_end", scc=scc.id)

        def process_stale_scc_implementation(graph, ids, manager, meta_files):
            _delay("before_impl", tuple(ids))
            _event("impl_start", mods=list(ids))
            try:
                return orig_impl(graph, ids, manager, meta_files)
            finally:
                _event("impl_end", mods=list(ids))

        def timed_send(manager, server, message):
            _delay("before_send", tuple(message.scc_ids), message.is_interface)
            _event("worker_send", scc_ids=list(message.scc_ids), is_interface=bool(message.is_interface))
            return orig_send(manager, server, message)

        mod.process_stale_scc_interface = process_stale_scc_interface
        mod.process_stale_scc_implementation = process_stale_scc_implementation
        mod.timed_send = timed_send
        # worker index: ServerContext / argv carry it; read lazily in main()
        orig_main = mod.main

        def main(argv):
            for i, a in enumerate(argv):
                if a.startswith("--status-file"):
                    val = a.split("=", 1)[1] if "=" in a else (argv[i + 1] if i + 1 < len(argv) else "")
                    import re
                    m = re.search(r"(\d+)\D*$", os.path.basename(val))
                    if m and _state["role"] == "worker?":
                        _state["role"] = "worker" + m.group(1)
            _event("worker_main", argv=list(argv))
            return orig_main(argv)
        mod.main = main

    _PATCHERS = {"mypy.metastore": _patch_metastore, "mypy.build": _patch_build, "mypy.build_worker.worker": _patch_worker}

    class _Loader(importlib.abc.Loader):
        def __init__(self, loader, name):
            self._loader = loader
            self._name = name

        def create_module(self, spec):
            return self._loader.create_module(spec)

        def exec_module(self, module):
            self._loader.exec_module(module)
            try:
                _PATCHERS[self._name](module)
                _event("patched", module=self._name)
            except Exception as e:  # never break the process under test
                _event("patch_failed", module=self._name, error=repr(e))

    class _Finder(importlib.abc.MetaPathFinder):
        def find_spec(self, fullname, path, target=None):
            if fullname not in _PATCHERS:
                return None
            for f in sys.meta_path:
                if f is self:
                    continue
                try:
                    spec = f.find_spec(fullname, path, target)
                except Exception:
                    spec = None
                if spec is not None and spec.loader is not None:
                    spec.loader = _Loader(spec.loader, fullname)
                    return spec
            return None

    sys.meta_path.insert(0, _Finder())
    for _n, _p in list(_PATCHERS.items()):
        if _n in sys.modules:
            try:
                _p(sys.modules[_n])
            except Exception:
                pass
