"""Pool worker: executes {"fn": "module:function", "args": {...}} requests in this process."""

from __future__ import annotations

import importlib
import json
import os
import sys
import traceback


_n_tasks = 0


def _housekeeping() -> None:
    """mypy disables/raises the GC during builds; an aborted build leaves it off. Keep the worker's memory flat."""
    global _n_tasks
    import gc
    _n_tasks += 1
    gc.enable()
    rss_mb = 0
    try:
        with open("/proc/self/statm") as f:
            rss_mb = int(f.read().split()[1]) * 4096 // (1 << 20)
    except Exception:
        pass
    if rss_mb > 350 or _n_tasks % 10 == 0:
        gc.set_threshold(700, 10, 10)
        gc.collect()


def main() -> None:
    proto_out = os.fdopen(os.dup(1), "wb", buffering=0)
    devnull = os.open(os.devnull, os.O_WRONLY)
    os.dup2(devnull, 1)  # nothing the code under test prints may corrupt the protocol
    sys.stdout = open(os.devnull, "w")
    sys.setrecursionlimit(max(sys.getrecursionlimit(), 2000))
    stdin = sys.stdin.buffer
    cache: dict[str, object] = {}
    while True:
        line = stdin.readline()
        if not line:
            return
        try:
            task = json.loads(line)
            fn = task["fn"]
            f = cache.get(fn)
            if f is None:
                mod, _, name = fn.partition(":")
                f = getattr(importlib.import_module(mod), name)
                cache[fn] = f
            res = {"ok": True, "res": f(**task.get("args", {}))}  # type: ignore[operator]
        except SystemExit as e:
            res = {"ok": False, "exc": f"SystemExit({e.code!r})", "tb": traceback.format_exc()}
        except BaseException as e:
            res = {"ok": False, "exc": f"{type(e).__name__}: {e}", "tb": traceback.format_exc()}
        _housekeeping()
        try:
            data = json.dumps(res, default=repr).encode()
        except Exception as e:
            data = json.dumps({"ok": False, "exc": f"unserializable result: {e!r}"}).encode()
        proto_out.write(data + b"\n")


if __name__ == "__main__":
    main()
