"""Structural model of a Python module / stub (CPython `ast` only) and the C19 oracles that work on it:

* (a) the stub parses;
* (d) every public function / class / method / annotated variable of the source appears in the stub
  with the parameter kinds, names, default-presence, kept decorators and spelled annotations
  (compared after a normalisation that identifies `Optional[X]` / `Union[X, None]` / `X | None`,
  `typing.List` / `list`, `typing.X` / `collections.abc.X`, quoted and unquoted forward references,
  and import spellings `typing.Any` / `t.Any` / `Any`);
* classifiers that turn a mypy error on a stub, a stubtest complaint or a structural difference into
  a *mechanism key* (oracle : mode : kind of definition : normalised message), never a name or hash.

Nothing here imports mypy: the module runs in the parent process of the check."""

from __future__ import annotations

import ast
import re
from typing import Any, Iterator

PEP585 = {"List": "list", "Dict": "dict", "Set": "set", "FrozenSet": "frozenset", "Tuple": "tuple", "Type": "type",
          "Deque": "deque", "DefaultDict": "defaultdict", "Text": "str"}
TYPING_MODS = ("typing.", "typing_extensions.", "collections.abc.", "builtins.", "_typeshed.", "_collections_abc.",
               "collections.", "contextlib.", "re.")
NOT_API_DUNDERS = {"__str__", "__repr__", "__getstate__", "__setstate__", "__slots__", "__doc__", "__module__",
                   "__dict__", "__weakref__", "__annotations__", "__all__", "__author__", "__about__", "__copyright__",
                   "__email__", "__license__", "__summary__", "__title__", "__uri__", "__version__", "__docformat__",
                   "__match_args__", "__hash__"}
KEPT_DECORATORS = {"property", "staticmethod", "classmethod", "overload"}
ROLE_DECORATORS = KEPT_DECORATORS | {"abstractmethod", "cached_property"}


def dotted(node: ast.AST) -> str | None:
    if isinstance(node, ast.Name):
        return node.id
    if isinstance(node, ast.Attribute):
        b = dotted(node.value)
        return f"{b}.{node.attr}" if b else None
    return None


class Resolver:
    """Names -> canonical full names, using the import statements of the file itself."""

    def __init__(self, module: str, is_pkg: bool) -> None:
        self.module = module
        self.is_pkg = is_pkg
        self.map: dict[str, str] = {}
        self.how: dict[str, str] = {}  # local name -> "from" | "plain", + ":conditional"

    def _abs(self, level: int, mod: str | None) -> str:
        if not level:
            return mod or ""
        parts = self.module.split(".")
        if not self.is_pkg:
            parts = parts[:-1]
        if level > 1:
            parts = parts[: len(parts) - (level - 1)]
        return ".".join(parts + ([mod] if mod else []))

    def add_import(self, node: ast.AST, cond: bool = False) -> None:
        c = ":conditional" if cond else ""
        if isinstance(node, ast.Import):
            for a in node.names:
                if a.asname:
                    self.map[a.asname] = a.name
                    self.how[a.asname] = "plain-as" + c
                else:
                    self.map[a.name.split(".")[0]] = a.name.split(".")[0]
                    self.how[a.name.split(".")[0]] = "plain" + c
        elif isinstance(node, ast.ImportFrom):
            base = self._abs(node.level, node.module)
            for a in node.names:
                if a.name != "*":
                    self.map[a.asname or a.name] = f"{base}.{a.name}" if base else a.name
                    self.how[a.asname or a.name] = ("from-relative" if node.level else "from") + ("-as" if a.asname else "") + c

    def full(self, name: str) -> str:
        head, _, rest = name.partition(".")
        if head in self.map:
            full = self.map[head] + ("." + rest if rest else "")
        else:
            full = name
        if full.startswith(self.module + "."):
            full = full[len(self.module) + 1:]
        return full

    def canon_name(self, name: str) -> str:
        full = self.full(name)
        for pre in TYPING_MODS:
            if full.startswith(pre) and "." not in full[len(pre):]:
                full = full[len(pre):]
                break
        return PEP585.get(full, full)


def _flatten_union(items: list[str]) -> str:
    out: list[str] = []
    for it in items:
        for part in _split_top(it, " | "):
            if part not in out:
                out.append(part)
    return " | ".join(out)


def _split_top(s: str, sep: str) -> list[str]:
    out, depth, cur, i = [], 0, "", 0
    while i < len(s):
        ch = s[i]
        if ch in "[(":
            depth += 1
        elif ch in "])":
            depth -= 1
        if depth == 0 and s.startswith(sep, i):
            out.append(cur)
            cur = ""
            i += len(sep)
            continue
        cur += ch
        i += 1
    out.append(cur)
    return out


def canon(node: ast.AST | None, rs: Resolver, in_literal: bool = False) -> str | None:
    """Canonical text of an annotation expression."""
    if node is None:
        return None
    if isinstance(node, ast.Constant):
        if isinstance(node.value, str) and not in_literal:
            try:
                inner = ast.parse(node.value.strip(), mode="eval").body
            except SyntaxError:
                return repr(node.value)
            return canon(inner, rs)
        if node.value is None:
            return "None"
        if node.value is Ellipsis:
            return "..."
        return repr(node.value)
    d = dotted(node)
    if d is not None:
        return rs.canon_name(d)
    if isinstance(node, ast.Subscript):
        head = canon(node.value, rs) or "?"
        sl = node.slice
        elts = list(sl.elts) if isinstance(sl, ast.Tuple) else [sl]
        if head == "Optional":
            return _flatten_union([canon(elts[0], rs) or "?", "None"])
        if head == "Union":
            return _flatten_union([canon(e, rs) or "?" for e in elts])
        if head == "Unpack" and len(elts) == 1:
            return "*" + (canon(elts[0], rs) or "?")
        if head == "Literal":
            return "Literal[" + ", ".join(canon(e, rs, True) or "?" for e in elts) + "]"
        if head == "Annotated":
            return "Annotated[" + (canon(elts[0], rs) or "?") + ", " + ", ".join(_unparse(e) for e in elts[1:]) + "]"
        if isinstance(sl, ast.Tuple) and not elts:
            return head + "[()]"
        return head + "[" + ", ".join(canon(e, rs) or "?" for e in elts) + "]"
    if isinstance(node, ast.BinOp) and isinstance(node.op, ast.BitOr):
        return _flatten_union([canon(node.left, rs) or "?", canon(node.right, rs) or "?"])
    if isinstance(node, ast.Starred):
        return "*" + (canon(node.value, rs) or "?")
    if isinstance(node, ast.List):
        return "[" + ", ".join(canon(e, rs) or "?" for e in node.elts) + "]"
    if isinstance(node, ast.Tuple):
        return "(" + ", ".join(canon(e, rs) or "?" for e in node.elts) + ")"
    return _unparse(node)


def _unparse(node: ast.AST) -> str:
    try:
        return ast.unparse(node)
    except Exception:
        return "<?>"


def _tree(c: str) -> tuple[str, list[str]]:
    """canonical text -> (head, args) one level deep; unions are ('|', members)."""
    parts = _split_top(c, " | ")
    if len(parts) > 1:
        return "|", parts
    if c.endswith("]") and "[" in c and not c.startswith("["):
        head, rest = c.split("[", 1)
        return head, _split_top(rest[:-1], ", ")
    if c.startswith("[") and c.endswith("]"):
        return "[]", _split_top(c[1:-1], ", ")
    return c, []


def diff_site(sc: str, tc: str, depth: int = 0) -> tuple[str, str]:
    """Innermost differing sub-annotations of two canonical annotation texts."""
    sh, sa = _tree(sc)
    th, ta = _tree(tc)
    if sh == th and len(sa) == len(ta) and sa and depth < 8 and sh not in ("Annotated", "Literal"):
        diffs = [(a, b) for a, b in zip(sa, ta) if a != b]
        if len(diffs) == 1:
            return diff_site(diffs[0][0], diffs[0][1], depth + 1)
    return sc, tc


def shape_of(node: ast.AST | None, c: str | None) -> str:
    """Coarse class of an annotation, for mechanism keys."""
    if node is None or c is None:
        return "none"
    if isinstance(node, ast.Constant) and isinstance(node.value, str):
        return "forward-ref-string"
    if len(_split_top(c, " | ")) > 1:
        return "union"
    head = c.split("[", 1)[0]
    if head.startswith("*"):
        return "unpack"
    if head in ("list", "dict", "set", "frozenset", "tuple", "type", "Callable", "Literal", "Annotated", "Iterable", "Iterator",
                "Sequence", "Collection", "Mapping", "MutableMapping", "Awaitable", "Generator", "AsyncIterator", "Final",
                "ClassVar", "InitVar", "Required", "NotRequired", "Any", "int", "str", "bytes", "float", "bool", "complex",
                "object", "None", "Self", "TypeAlias"):
        return head
    if "." in head:
        return "qualified-name"
    return "name" + ("[...]" if "[" in c else "")


# ---------------------------------------------------------------------------------------------------
# model extraction
# ---------------------------------------------------------------------------------------------------

class Func:
    def __init__(self, node: ast.FunctionDef | ast.AsyncFunctionDef, rs: Resolver, conditional: bool) -> None:
        self.node = node
        self.name = node.name
        self.is_async = isinstance(node, ast.AsyncFunctionDef)
        self.conditional = conditional
        self.decorators: list[str] = []
        self.decorator_text: list[str] = []
        for d in node.decorator_list:
            target = d.func if isinstance(d, ast.Call) else d
            nm = dotted(target)
            self.decorator_text.append(_unparse(d))
            if nm:
                full = rs.canon_name(nm)
                self.decorators.append(full)
        a = node.args
        self.params: list[tuple[str, str, bool, ast.AST | None]] = []
        npos = len(a.posonlyargs) + len(a.args)
        defaults = [None] * (npos - len(a.defaults)) + list(a.defaults)
        for i, arg in enumerate(a.posonlyargs + a.args):
            kind = "posonly" if i < len(a.posonlyargs) else "pos"
            self.params.append((kind, arg.arg, defaults[i] is not None, arg.annotation))
        if a.vararg:
            self.params.append(("star", a.vararg.arg, False, a.vararg.annotation))
        for arg, dv in zip(a.kwonlyargs, a.kw_defaults):
            self.params.append(("kwonly", arg.arg, dv is not None, arg.annotation))
        if a.kwarg:
            self.params.append(("kwargs", a.kwarg.arg, False, a.kwarg.annotation))
        self.returns = node.returns
        self.has_yield = any(isinstance(n, (ast.Yield, ast.YieldFrom)) for n in _walk_own(node))
        self.type_params = bool(getattr(node, "type_params", None))

    def short_decos(self, demanded_only: bool = False) -> set[str]:
        out = set()
        for d in self.decorators:
            last = d.rsplit(".", 1)[-1]
            if last in (KEPT_DECORATORS if demanded_only else ROLE_DECORATORS) or last in ("setter", "deleter", "getter"):
                out.add(last)
        return out

    @property
    def role(self) -> str:
        s = self.short_decos()
        for r in ("setter", "deleter", "overload"):
            if r in s:
                return r
        if "property" in s or "cached_property" in s:
            return "property"
        return "plain"


def _walk_own(fn: ast.AST) -> Iterator[ast.AST]:
    """Nodes of a function body without descending into nested functions/classes."""
    stack = list(ast.iter_child_nodes(fn))
    while stack:
        n = stack.pop()
        yield n
        if not isinstance(n, (ast.FunctionDef, ast.AsyncFunctionDef, ast.ClassDef, ast.Lambda)):
            stack.extend(ast.iter_child_nodes(n))


class Var:
    def __init__(self, name: str, ann: ast.AST | None, value: ast.AST | None, conditional: bool, via_self: bool = False) -> None:
        self.name = name
        self.ann = ann
        self.value = value
        self.conditional = conditional
        self.via_self = via_self


class Klass:
    def __init__(self, node: ast.ClassDef, rs: Resolver, conditional: bool) -> None:
        self.node = node
        self.name = node.name
        self.conditional = conditional
        self.bases = list(node.bases)
        self.keywords = {k.arg: k.value for k in node.keywords if k.arg}
        self.decorators = []
        self.decorator_text = []
        for d in node.decorator_list:
            target = d.func if isinstance(d, ast.Call) else d
            nm = dotted(target)
            self.decorator_text.append(_unparse(d))
            if nm:
                self.decorators.append(rs.canon_name(nm))
        self.type_params = bool(getattr(node, "type_params", None))
        self.scope = Scope(node.body, rs, in_class=True)


class Scope:
    def __init__(self, body: list[ast.stmt], rs: Resolver, in_class: bool = False) -> None:
        self.rs = rs
        self.in_class = in_class
        self.funcs: dict[str, list[Func]] = {}
        self.classes: dict[str, list[Klass]] = {}
        self.vars: dict[str, list[Var]] = {}
        self.aliases: dict[str, ast.AST] = {}   # `type X = ...`
        self.order: list[str] = []
        self._visit(body, False)
        if in_class:
            self._self_attrs()

    def _note(self, name: str) -> None:
        if name not in self.order:
            self.order.append(name)

    def _visit(self, body: list[ast.stmt], cond: bool) -> None:
        for st in body:
            if isinstance(st, (ast.Import, ast.ImportFrom)):
                if not self.in_class:
                    self.rs.add_import(st, cond)
            elif isinstance(st, (ast.FunctionDef, ast.AsyncFunctionDef)):
                self.funcs.setdefault(st.name, []).append(Func(st, self.rs, cond))
                self._note(st.name)
            elif isinstance(st, ast.ClassDef):
                self.classes.setdefault(st.name, []).append(Klass(st, self.rs, cond))
                self._note(st.name)
            elif isinstance(st, ast.AnnAssign) and isinstance(st.target, ast.Name):
                self.vars.setdefault(st.target.id, []).append(Var(st.target.id, st.annotation, st.value, cond))
                self._note(st.target.id)
            elif isinstance(st, ast.Assign):
                for tg in st.targets:
                    for nm in _target_names(tg):
                        self.vars.setdefault(nm, []).append(Var(nm, None, st.value if isinstance(tg, ast.Name) else None, cond))
                        self._note(nm)
            elif isinstance(st, ast.AugAssign) and isinstance(st.target, ast.Name):
                pass
            elif hasattr(ast, "TypeAlias") and isinstance(st, ast.TypeAlias) and isinstance(st.name, ast.Name):
                self.aliases[st.name.id] = st.value
                self._note(st.name.id)
            elif isinstance(st, ast.If):
                if "__name__" in _unparse(st.test) and "__main__" in _unparse(st.test):
                    continue  # not executed on import: not part of the module's interface
                self._visit(st.body, True)
                self._visit(st.orelse, True)
            elif isinstance(st, ast.Try):
                self._visit(st.body, True)
                for h in st.handlers:
                    self._visit(h.body, True)
                self._visit(st.orelse, True)
                self._visit(st.finalbody, True)
            elif isinstance(st, (ast.With, ast.For, ast.While)):
                self._visit(st.body, True)

    def _self_attrs(self) -> None:
        for fs in list(self.funcs.values()):
            for f in fs:
                if not f.params or f.params[0][1] != "self":
                    continue
                for n in _walk_own(f.node):
                    if isinstance(n, ast.AnnAssign) and isinstance(n.target, ast.Attribute) and \
                            isinstance(n.target.value, ast.Name) and n.target.value.id == "self":
                        nm = n.target.attr
                        if nm not in self.funcs and nm not in self.vars:
                            self.vars.setdefault(nm, []).append(Var(nm, n.annotation, n.value, False, via_self=True))
                            self._note(nm)


def _target_names(t: ast.AST) -> Iterator[str]:
    if isinstance(t, ast.Name):
        yield t.id
    elif isinstance(t, (ast.Tuple, ast.List)):
        for e in t.elts:
            yield from _target_names(e)


class Model:
    def __init__(self, text: str, module: str, is_pkg: bool) -> None:
        self.tree = ast.parse(text)
        self.rs = Resolver(module, is_pkg)
        self.top = Scope(self.tree.body, self.rs)
        self.module = module

    # -- kinds (for mechanism keys and coverage cells) -------------------------------------------
    def class_kind(self, k: Klass, depth: int = 0) -> str:
        decos = {d.rsplit(".", 1)[-1] for d in k.decorators}
        if "dataclass" in decos:
            return "dataclass"
        if k.type_params:
            return "pep695-class"
        for b in k.bases:
            if isinstance(b, ast.Call):
                cn = canon(b.func, self.rs) or ""
                if cn.rsplit(".", 1)[-1] in ("namedtuple", "NamedTuple"):
                    return "namedtuple-base-call"
            head = b.value if isinstance(b, ast.Subscript) else b
            c = canon(head, self.rs) or ""
            last = c.rsplit(".", 1)[-1]
            if c.startswith("enum.") or last in ("Enum", "IntEnum", "Flag", "IntFlag", "StrEnum"):
                return "enum"
            if last == "NamedTuple":
                return "namedtuple-class"
            if last == "TypedDict":
                return "typeddict-class"
            if last == "Protocol":
                return "protocol"
            if last in ("ABC",):
                return "abstract-class"
            if last == "Generic":
                return "generic-class"
        for b in k.bases:
            head = b.value if isinstance(b, ast.Subscript) else b
            c = canon(head, self.rs) or ""
            if c in ("Exception", "ValueError", "KeyError", "BaseException", "RuntimeError", "TypeError"):
                return "exception"
            if c in ("dict", "list", "set", "tuple", "str", "int"):
                return "builtin-subclass"
            if depth < 4 and c in self.top.classes:
                pk = self.class_kind(self.top.classes[c][0], depth + 1)
                return pk if pk in ("enum", "typeddict-class", "namedtuple-class", "exception", "protocol") else "derived-class"
        if "metaclass" in k.keywords:
            return "abstract-class" if (canon(k.keywords["metaclass"], self.rs) or "").endswith("ABCMeta") else "metaclass-class"
        if k.bases:
            return "derived-class"
        return "class"

    def func_kind(self, fs: list[Func]) -> str:
        f = fs[0]
        pre = "conditional-" if f.conditional else ""
        if any(x.role == "overload" for x in fs):
            return pre + "overload"
        if f.type_params:
            return pre + "pep695-function"
        if f.is_async:
            return pre + ("async-generator" if f.has_yield else "async-function")
        if f.has_yield:
            return pre + "generator"
        if [d for d in f.decorators if d.rsplit(".", 1)[-1] not in ROLE_DECORATORS]:
            return pre + "decorated-function"
        return pre + "function"

    def var_kind(self, vs: list[Var]) -> str:
        v = vs[0]
        pre = "conditional-" if v.conditional else ""
        if v.ann is not None:
            c = canon(v.ann, self.rs) or ""
            if c.startswith("Final"):
                return pre + "final-variable"
            if c == "TypeAlias":
                return pre + "type-alias"
            return pre + "annotated-variable"
        val = v.value
        if isinstance(val, ast.Call):
            cn = (canon(val.func, self.rs) or "").rsplit(".", 1)[-1]
            if cn == "NamedTuple":
                return "namedtuple-call"
            if cn == "namedtuple":
                return "collections-namedtuple"
            if cn == "TypedDict":
                return "typeddict-call"
            if cn in ("Enum", "IntEnum", "Flag", "StrEnum"):
                return "enum-functional"
            if cn in ("TypeVar", "ParamSpec", "TypeVarTuple"):
                return "typevar"
            if cn == "NewType":
                return "newtype"
        if isinstance(val, ast.Subscript) or (isinstance(val, ast.BinOp) and isinstance(val.op, ast.BitOr)):
            return "type-alias"
        d = dotted(val) if val is not None else None
        if d:
            if d.split(".")[0] in self.rs.map and "." not in d:
                return "imported-name-alias"
            if d in self.top.classes:
                return "class-alias"
            if d in self.top.funcs:
                return "function-alias"
            if "." in d:
                return "attribute-alias"
        if isinstance(val, ast.Lambda):
            return "lambda-variable"
        return pre + "variable"

    def top_kind(self, name: str) -> str:
        t = self.top
        if name in t.classes:
            pre = "conditional-" if t.classes[name][0].conditional else ""
            return pre + self.class_kind(t.classes[name][0])
        if name in t.funcs:
            return self.func_kind(t.funcs[name])
        if name in t.aliases:
            return "pep695-alias"
        if name in t.vars:
            return self.var_kind(t.vars[name])
        if name in self.rs.map:
            return "imported-name"
        return "synthetic"

    def member_kind(self, cls: Klass, name: str) -> str:
        s = cls.scope
        if name in s.funcs:
            f = s.funcs[name][0]
            roles = f.short_decos()
            if any(x.role == "overload" for x in s.funcs[name]):
                return "overload-method"
            if "abstractmethod" in roles:
                return "abstract-" + ("property" if "property" in roles else "method")
            for r in ("property", "cached_property", "staticmethod", "classmethod"):
                if r in roles:
                    return r
            if name == "__init__":
                return "init"
            if name.startswith("__") and name.endswith("__"):
                return "dunder-method"
            return "async-method" if f.is_async else "method"
        if name in s.classes:
            return "nested-class"
        if name in s.aliases:
            return "pep695-alias"
        if name in s.vars:
            v = s.vars[name][0]
            if v.via_self:
                return "self-attribute"
            return "field" if v.ann is not None else "class-variable"
        if name.startswith("_"):
            return "synthetic:" + name
        return "unlisted-member"

    def describe(self, path: list[str]) -> str:
        """Kind of the object `A.b.c` (path relative to the module)."""
        if not path:
            return "module"
        top = self.top_kind(path[0])
        if len(path) == 1:
            return top if top != "synthetic" else ("synthetic:" + path[0] if path[0].startswith("_") else "unlisted-name")
        if path[0] in self.top.classes:
            k = self.top.classes[path[0]][0]
            mk = self.member_kind(k, path[1])
            if len(path) > 2 and path[1] in k.scope.classes:
                mk = "nested-class." + self.member_kind(k.scope.classes[path[1]][0], path[2])
            return f"{top}.{mk}"
        return f"{top}.member" + (":" + path[1] if path[1].startswith("_") else "")

    def public_defs(self) -> dict[str, str]:
        """name -> kind for every top-level public definition (functions, classes, variables, aliases)."""
        out: dict[str, str] = {}
        for nm in self.top.order:
            if nm.startswith("_"):
                continue
            out[nm] = self.top_kind(nm)
        return out


# ---------------------------------------------------------------------------------------------------
# (d) structural comparison
# ---------------------------------------------------------------------------------------------------

class Issue:
    def __init__(self, what: str, kind: str, path: str, detail: str, family: str | None = None, kindless: bool = False) -> None:
        self.what = what      # mechanism part of the key
        self.kind = kind      # kind of the definition
        self.path = path      # object path (witness only)
        self.detail = detail  # human-readable (witness only)
        self.family = family or what.split(":")[0]   # coarse mechanism (used for inspect mode)
        self.kindless = kindless

    def key(self, mode_name: str, coarse: bool) -> str:
        if coarse:
            return f"structure:{mode_name}:{self.family}"
        if self.kindless:
            return f"structure:{mode_name}:{self.what}"
        return f"structure:{mode_name}:{self.what}:{coarse_kind(self.kind)}"


def _is_public_member(name: str) -> bool:
    if name.startswith("__") and name.endswith("__"):
        return name not in NOT_API_DUNDERS
    return not name.startswith("_")


def compare(src: Model, stub: Model, runtime_all: list[str] | None, include_private: bool, inspect: bool) -> tuple[list[Issue], dict[str, int]]:
    issues: list[Issue] = []
    cells: dict[str, int] = {}

    def cell(k: str) -> None:
        cells[k] = cells.get(k, 0) + 1

    def top_public(name: str) -> bool:
        if name.startswith("__") and name.endswith("__"):
            return False
        if runtime_all is not None:
            return name in runtime_all
        if name.startswith("_"):
            return include_private and name != "_"
        return True

    def cmp_func_variants(sfs: list[Func], tfs: list[Func], kind: str, path: str, is_method: bool) -> None:
        s_over = [f for f in sfs if f.role == "overload"]
        if s_over:
            t_over = [f for f in tfs if f.role == "overload"]
            if len(t_over) != len(s_over):
                issues.append(Issue(f"overload-count:{'fewer' if len(t_over) < len(s_over) else 'more'}", kind, path,
                                    f"source has {len(s_over)} @overload variants, stub has {len(t_over)}"))
                return
            for a, b in zip(s_over, t_over):
                cmp_sig(a, b, kind, path, is_method)
            return
        # property groups: compare role by role
        roles = {f.role for f in sfs}
        if roles & {"property", "setter", "deleter"}:
            for role in ("property", "setter", "deleter"):
                sa = [f for f in sfs if f.role == role]
                ta = [f for f in tfs if f.role == role]
                if sa and not ta:
                    issues.append(Issue(f"property-{role}-missing", kind, path, f"{role} of property not in stub"))
                elif sa and ta:
                    cmp_sig(sa[0], ta[0], kind, path, is_method)
            return
        # plain / conditional: every stub variant must match some source variant
        best: list[Issue] | None = None
        for tf in tfs[:1]:
            for sf in sfs:
                before = len(issues)
                cmp_sig(sf, tf, kind, path, is_method)
                got = issues[before:]
                del issues[before:]
                if best is None or len(got) < len(best):
                    best = got
                if not got:
                    break
        issues.extend(best or [])

    def cmp_sig(sf: Func, tf: Func, kind: str, path: str, is_method: bool) -> None:
        sk = [(k, n) for k, n, _, _ in sf.params]
        tk = [(k, n) for k, n, _, _ in tf.params]
        if sk != tk:
            what = "param-list"
            if [n for _, n in sk] == [n for _, n in tk]:
                changed = sorted({f"{a[0]}->{b[0]}" for a, b in zip(sk, tk) if a[0] != b[0]})
                what = "param-kind:" + ",".join(changed)
            elif len(sk) == len(tk) and [k for k, _ in sk] == [k for k, _ in tk]:
                what = "param-renamed"
            elif len(tk) < len(sk):
                what = "param-missing:" + ",".join(sorted({k for k, n in sk if n not in {x for _, x in tk}}))
            elif len(tk) > len(sk):
                what = "param-extra:" + ",".join(sorted({k for k, n in tk if n not in {x for _, x in sk}}))
            issues.append(Issue(what, kind, path, f"source params {sk} vs stub {tk}"))
            return
        for i, ((k, n, sd, sa), (_, _, td, ta)) in enumerate(zip(sf.params, tf.params)):
            if sd != td:
                issues.append(Issue(f"default-{'dropped' if sd else 'added'}:{k}", kind, path, f"parameter {n!r}"))
            if sa is not None and not (is_method and i == 0 and n in ("self", "cls")):
                cmp_ann(sa, ta, src.rs, stub.rs, kind, path, f"param:{k}", n)
        if sf.returns is not None and not (sf.name == "__init__"):
            cmp_ann(sf.returns, tf.returns, src.rs, stub.rs, kind, path, "return", "return")
        if sf.is_async != tf.is_async:
            issues.append(Issue("async-flag:" + ("lost" if sf.is_async else "added"), kind, path, ""))
        lost = sf.short_decos(True) - tf.short_decos()
        if lost:
            issues.append(Issue("decorator-dropped:" + ",".join(sorted(lost)), kind, path, f"{sf.decorator_text} vs {tf.decorator_text}"))

    def cmp_ann(sa: ast.AST, ta: ast.AST | None, srs: Resolver, trs: Resolver, kind: str, path: str, where: str, name: str) -> None:
        sc = canon(sa, srs)
        tc = canon(ta, trs)
        if sc == tc:
            return
        shape = shape_of(sa, sc)
        if sc == "Final" and tc and tc.startswith("Final"):
            return
        if sc and tc:
            s1, t1 = diff_site(sc, tc)
            if (s1, t1) != (sc, tc):
                shape = shape_of(ast.Name(id="x"), s1)
                sc_full, tc_full = sc, tc
                sc, tc = s1, t1
        if tc is None:
            cls = "dropped"
        elif tc in ("Incomplete", "Any") and sc not in ("Any",):
            cls = "replaced-by-" + tc
        elif sc and tc and "[" in sc and "[" not in tc and sc.split("[", 1)[0] == tc:
            cls = "type-args-dropped"
        else:
            cls = "changed"
        w0 = where.split(":")[0]
        issues.append(Issue(f"annotation-{cls}:{w0}:{shape}", kind, path, f"{name}: source {sc!r} vs stub {tc!r}",
                            family=f"annotation-{cls}:{w0}", kindless=True))

    def cmp_class(sk: Klass, tk: Klass, kind: str, path: str) -> None:
        sd = {d.rsplit(".", 1)[-1] for d in sk.decorators}
        td = {d.rsplit(".", 1)[-1] for d in tk.decorators}
        for keep in ("dataclass",):
            if keep in sd and keep not in td:
                issues.append(Issue(f"class-decorator-dropped:{keep}", kind, path, f"{sk.decorator_text} vs {tk.decorator_text}"))
        if "dataclass" in sd and "dataclass" in td:
            sa = sorted(x for x in sk.decorator_text if "dataclass" in x)
            ta = sorted(x for x in tk.decorator_text if "dataclass" in x)
            norm = lambda xs: [re.sub(r"^\w+\.", "", x).replace("()", "") for x in xs]  # noqa: E731
            if norm(sa) != norm(ta):
                issues.append(Issue("class-decorator-args-changed:dataclass", kind, path, f"{sa} vs {ta}"))
        tb = [canon(b, stub.rs) for b in tk.bases]
        for b in sk.bases:
            if isinstance(b, ast.Call):
                continue
            c = canon(b, src.rs)
            if c == "object":
                continue
            if c not in tb:
                cls = "type-args-dropped" if c and c.split("[", 1)[0] in tb else "missing"
                issues.append(Issue(f"class-base-{cls}:{shape_of(b, c)}", kind, path, f"base {c!r} not among stub bases {tb}"))
        for kw, v in sk.keywords.items():
            if kw in ("total", "metaclass") and kw not in tk.keywords:
                if kw == "metaclass":
                    issues.append(Issue("class-keyword-dropped:metaclass", kind, path, ""))
                elif _unparse(v) != "True":
                    issues.append(Issue("class-keyword-dropped:total", kind, path, ""))
        cmp_scope(sk.scope, tk.scope, path, kind, sk)

    def cmp_scope(ss: Scope, ts: Scope, prefix: str, parent_kind: str | None, parent: Klass | None) -> None:
        top = parent is None
        for name in ss.order:
            public = top_public(name) if top else _is_public_member(name)
            if not public:
                continue
            path = f"{prefix}.{name}" if prefix else name
            if top and name.startswith("_") and not include_private and runtime_all is not None and \
                    name not in ts.funcs and name not in ts.classes and name not in ts.vars and \
                    (name in ss.funcs or name in ss.classes or any(v.ann is not None for v in ss.vars.get(name, []))):
                issues.append(Issue("missing:private-name-listed-in-__all__", src.top_kind(name), path,
                                    "underscore name made public by __all__ is not in the stub", kindless=True))
                continue
            if name in ss.funcs:
                kind = src.func_kind(ss.funcs[name]) if top else f"{parent_kind}.{src.member_kind(parent, name)}"  # type: ignore[arg-type]
                cell("function" if top else "method")
                if name not in ts.funcs:
                    how = "absent"
                    if name in ts.vars:
                        how = "as-variable"
                    issues.append(Issue(f"missing-function:{how}", kind, path, "function/method of the source is not a def in the stub"))
                    continue
                cmp_func_variants(ss.funcs[name], ts.funcs[name], kind, path, not top)
            elif name in ss.classes:
                kind = ("conditional-" if ss.classes[name][0].conditional else "") + src.class_kind(ss.classes[name][0])
                if not top:
                    kind = f"{parent_kind}.nested-class"
                cell("class")
                if name not in ts.classes:
                    issues.append(Issue("missing-class:" + ("as-variable" if name in ts.vars else "absent"), kind, path, ""))
                    continue
                # conditional variants: compare with the best-matching source variant
                best: list[Issue] | None = None
                for sk in ss.classes[name]:
                    before = len(issues)
                    cmp_class(sk, ts.classes[name][0], kind, path)
                    got = issues[before:]
                    del issues[before:]
                    if best is None or len(got) < len(best):
                        best = got
                issues.extend(best or [])
            elif name in ss.vars:
                vs = ss.vars[name]
                anns = [v for v in vs if v.ann is not None]
                if not anns:
                    # functional class definitions count as classes
                    vk = src.var_kind(vs) if top else None
                    if vk in ("namedtuple-call", "collections-namedtuple", "typeddict-call", "enum-functional"):
                        cell("class")
                        if name not in ts.classes and name not in ts.vars:
                            issues.append(Issue("missing-class:absent", vk, path, "functional class definition has no counterpart"))
                    continue
                kind = src.var_kind(vs) if top else f"{parent_kind}.{src.member_kind(parent, name)}"  # type: ignore[arg-type]
                cell("annotated-variable")
                if name in ts.vars:
                    tv = ts.vars[name][0]
                    sc = canon(anns[0].ann, src.rs)
                    if sc == "TypeAlias":
                        continue
                    if tv.ann is None:
                        issues.append(Issue(f"annotation-dropped:variable:{shape_of(anns[0].ann, sc)}", kind, path,
                                            f"{name}: source {sc!r}, stub has an unannotated assignment",
                                            family="annotation-dropped:variable", kindless=True))
                    else:
                        before = len(issues)
                        for v in anns:
                            n0 = len(issues)
                            cmp_ann(v.ann, tv.ann, src.rs, stub.rs, kind, path, "variable", name)  # type: ignore[arg-type]
                            if len(issues) == n0:
                                del issues[before:]
                                break
                        else:
                            del issues[before + 1:]
                elif name in ts.funcs and any(f.role == "property" for f in ts.funcs[name]):
                    continue  # a property of that name describes the attribute as well
                elif canon(anns[0].ann, src.rs) == "TypeAlias" and (name in ts.aliases):
                    continue
                else:
                    issues.append(Issue("missing-annotated-variable", kind, path, f"{name}: {canon(anns[0].ann, src.rs)}"))
            elif name in ss.aliases:
                cell("pep695-alias")
                if name not in ts.aliases and name not in ts.vars:
                    issues.append(Issue("missing-type-alias", "pep695-alias", path, ""))

    cmp_scope(src.top, stub.top, "", None, None)
    return issues, cells


# ---------------------------------------------------------------------------------------------------
# classifiers for (b) mypy-on-stub and (c) stubtest output
# ---------------------------------------------------------------------------------------------------

_Q = re.compile(r'"[^"]*"')
_SQ = re.compile(r"'[^']*'")
_NUM = re.compile(r"\b\d+\b")


def norm_msg(msg: str) -> str:
    msg = re.sub(r"\bClass [\w.]+ ", "Class _ ", msg)
    msg = re.sub(r'; (did you mean|maybe) .*$', "", msg)
    msg = re.sub(r"variable differs from runtime type .*$", "variable differs from runtime type <T>", msg)
    msg = re.sub(r"has a default value of .*, which is different from stub parameter default .*$",
                 "has a default value of <V>, which is different from stub parameter default <V>", msg)
    msg = re.sub(r"has abstract attributes .*$", "has abstract attributes ...", msg)
    msg = re.sub(r'("[^"]*")(, "[^"]*")+', r'\1, ...', msg)
    msg = re.sub(r"(runtime type |has type |type )(\w+)\[.*$", r"\1\2[...]", msg)
    msg = _Q.sub('"_"', msg)
    msg = _SQ.sub("'_'", msg)
    msg = _NUM.sub("N", msg)
    msg = re.sub(r"\s+", " ", msg).strip()
    return msg[:110]


def enclosing_top(stub_tree: ast.Module | None, line: int) -> tuple[list[str], str]:
    """Object path (within the stub) of the definition spanning `line`, and the node class name."""
    if stub_tree is None:
        return [], "?"
    path: list[str] = []
    node_kind = "module-level"
    body: list[ast.stmt] = stub_tree.body
    while True:
        hit = None
        for st in body:
            lo = min([st.lineno] + [d.lineno for d in getattr(st, "decorator_list", [])])
            hi = getattr(st, "end_lineno", st.lineno) or st.lineno
            if lo <= line <= hi:
                hit = st
                break
        if hit is None:
            return path, node_kind
        if isinstance(hit, ast.ClassDef):
            path.append(hit.name)
            node_kind = "class"
            body = hit.body
            continue
        if isinstance(hit, (ast.FunctionDef, ast.AsyncFunctionDef)):
            path.append(hit.name)
            return path, "def"
        if isinstance(hit, ast.AnnAssign) and isinstance(hit.target, ast.Name):
            path.append(hit.target.id)
            return path, "var"
        if isinstance(hit, ast.Assign):
            names = [n for t in hit.targets for n in _target_names(t)]
            if names:
                path.append(names[0])
            return path, "assign"
        if isinstance(hit, (ast.Import, ast.ImportFrom)):
            return path, "import"
        if hasattr(ast, "TypeAlias") and isinstance(hit, ast.TypeAlias) and isinstance(hit.name, ast.Name):
            path.append(hit.name.id)
            return path, "type-stmt"
        if isinstance(hit, ast.If):
            body = hit.body + hit.orelse
            continue
        return path, type(hit).__name__


_MYPY_LINE = re.compile(r"^(?P<file>[^:\n]+):(?P<line>\d+)(?::\d+)?: error: (?P<msg>.*?)(?:  \[(?P<code>[a-z0-9-]+)\])?$")


def parse_mypy(lines: list[str]) -> list[dict[str, Any]]:
    out = []
    for ln in lines:
        m = _MYPY_LINE.match(ln)
        if m:
            out.append({"file": m.group("file"), "line": int(m.group("line")), "msg": m.group("msg"), "code": m.group("code") or "nocode",
                        "raw": ln})
    return out


_ST_HEAD = re.compile(r"^error: (?P<obj>\S+) (?P<msg>.*)$")


def parse_stubtest(out: str) -> tuple[list[dict[str, Any]], str | None]:
    """-> (errors [{obj, msg, body}], refusal text or None)."""
    errs: list[dict[str, Any]] = []
    refusal = None
    cur: dict[str, Any] | None = None
    for ln in out.splitlines():
        if ln.startswith("error: not checking stubs due to"):
            refusal = out[out.index(ln):][:3000]
            break
        m = _ST_HEAD.match(ln)
        if m and not ln.startswith("error: not checking"):
            cur = {"obj": m.group("obj"), "msg": m.group("msg"), "body": []}
            errs.append(cur)
        elif ln.startswith(("Found ", "Success: ")):
            cur = None
        elif cur is not None:
            cur["body"].append(ln)
    for e in errs:
        e["body"] = "\n".join(e["body"])[:1500]
    return errs, refusal


def module_of(obj: str, modules: list[str]) -> tuple[str | None, list[str]]:
    best = None
    for m in modules:
        if (obj == m or obj.startswith(m + ".")) and (best is None or len(m) > len(best)):
            best = m
    if best is None:
        return None, []
    rest = obj[len(best):].lstrip(".")
    return best, rest.split(".") if rest else []


def classify_undefined(name: str, src: Model, runtime_all: list[str] | None) -> str:
    """Why is `name` undefined in the stub? (mechanism of a name-defined error)"""
    head = name.split(".")[0]
    t = src.top
    if head in t.classes or head in t.funcs or head in t.vars or head in t.aliases:
        kind = category(src.top_kind(head))
        if head.startswith("_"):
            return f"private-{kind}-omitted-but-referenced"
        if runtime_all is not None and head not in runtime_all:
            return f"not-in-__all__-{kind}-omitted-but-referenced"
        return f"defined-{kind}-omitted-but-referenced"
    if head in src.rs.map:
        full = src.rs.map[head]
        cls = "typing" if full.split(".")[0] in ("typing", "typing_extensions") else ("relative" if src.rs.how.get(head, "").startswith("from-relative") else "other-module")
        return f"import-not-emitted:{src.rs.how.get(head, '?')}:{cls}"
    return "name-unknown-to-source"


_CLASSISH = {"class", "derived-class", "generic-class", "metaclass-class", "abstract-class", "exception", "builtin-subclass",
             "protocol"}


def coarse_kind(kind: str) -> str:
    """Collapse the plain-class flavours (they share stubgen's code path) in a `top.member` kind."""
    head, dot, rest = kind.partition(".")
    pre = ""
    if head.startswith("conditional-"):
        pre, head = "conditional-", head[len("conditional-"):]
    if head in _CLASSISH:
        head = "class"
    return pre + head + dot + rest


def category(kind: str) -> str:
    k = kind.replace("conditional-", "")
    if "typevar" in k:
        return "typevar"
    if "function" in k or "generator" in k or "overload" in k:
        return "function"
    if "alias" in k or "newtype" in k:
        return "alias"
    if "variable" in k:
        return "variable"
    return "class"
