"""Part 2 of the C05/C06 program generator: free-form typed functions (random statement trees).

See c05_gen.py for the type universe and the expression generator, c05_templates.py for the template units and
c05_program.py for the assembly of units into three-module programs.
"""

from __future__ import annotations

import random
import re
from typing import Any

from vlib.c05_gen import (ANY_TYPES, DICT_TYPES, ELEMS, ExprGen, LIST_TYPES, OPT_TYPES, PARAM_TYPES, SCALARS, SET_TYPES,
                          SORTABLE, TUPLE_TYPES, targs, val)

PRINTABLE = ["int", "float", "bool", "str", "i64", "bytes", "Pt", "list[int]", "list[str]", "list[float]", "list[bool]",
             "tuple[int, str]", "tuple[int, int]", "dict[str, int]", "dict[int, str]", "Optional[int]", "Optional[str]",
             "list[Pt]", "list[Optional[int]]", "list[tuple[int, str]]", "list[list[int]]", "list[i64]", "tuple[str, float]"]
LOCAL_TYPES = SCALARS * 3 + ["Pt"] * 2 + LIST_TYPES * 2 + DICT_TYPES + SET_TYPES + TUPLE_TYPES + OPT_TYPES + ["bytes"]
RET_TYPES = SCALARS * 3 + ["Pt", "bytes"] + LIST_TYPES + DICT_TYPES[:6] + TUPLE_TYPES + OPT_TYPES
EXC_TYPES = ["ValueError", "KeyError", "IndexError", "ZeroDivisionError", "TypeError", "RuntimeError", "AttributeError",
             "OverflowError", "LookupError", "ArithmeticError", "Exception", "MyErr"]


def ind(lines: list[str], n: int = 1) -> list[str]:
    return [("    " * n) + ln for ln in lines]


class FuncGen(ExprGen):
    """Random function body.  `self.tags` collects construct tags for coverage cells / mechanism keys."""

    def __init__(self, rng: random.Random, hostile: bool = False, ret: str | None = None) -> None:
        super().__init__(rng, hostile)
        self.ret = ret or rng.choice(RET_TYPES)
        self.loop_depth = 0
        self.nogrow: set[str] = set()
        self.fuel_vars = 0
        self.in_finally = 0
        self.nested = 0
        self.try_finally_loop_depth: list[int] = []  # loop depth at entry of every enclosing try statement that has a finally

    # -- helpers -------------------------------------------------------------------------------------
    def pick_var(self, pred: Any) -> str | None:
        c = [n for n, t in self.scope.all().items() if pred(t) and n not in self.scope.readonly]
        return self.rng.choice(c) if c else None

    def newvar(self, t: str | None = None) -> list[str]:
        t = t or self.rng.choice(LOCAL_TYPES + (ANY_TYPES * 6 if self.hostile else []))
        e = self.expr(t, self.rng.choice([1, 2, 2, 3]))
        v = self.fresh()
        self.scope.add(v, t)
        self.tags.add("stmt.newvar")
        return [f"{v}: {t} = {e}"]

    def clamp(self, t: str, e: str) -> str:
        """Inside loops keep ints bounded (no digit explosion) without losing the long-int representation."""
        if self.loop_depth and t == "int":
            return f"({e}) % {self.rng.choice([1009, 2 ** 70 + 3, 2 ** 31 + 11])}"
        if self.loop_depth and t == "str":
            return f"({e})[:40]"
        if self.loop_depth and (t.startswith("list[") or t == "bytes"):
            return f"({e})[:12]"
        if self.loop_depth and t == "float":
            return f"({e}) % 1e6"
        return e

    def assign(self) -> list[str]:
        rng = self.rng
        v = self.pick_var(lambda t: t not in ("callable", "Ctx", "Pt3"))
        if v is None:
            return self.newvar()
        t = self.scope.all()[v]
        k = rng.random()
        if k < 0.45 and t in ("int", "float", "str", "i64") + tuple(LIST_TYPES):
            if t == "int":
                op = rng.choice(["+=", "-=", "*=", "//=", "%=", "&=", "|=", "^=", "+=", "-="])
                if op == "*=" and self.loop_depth:
                    op = "+="
                self.tags.add("stmt.augassign.int" + op)
                return [f"{v} {op} {self.expr('int', 2)}"]
            if t == "float":
                op = rng.choice(["+=", "-=", "*=", "/="])
                if op == "*=" and self.loop_depth:
                    op = "-="
                self.tags.add("stmt.augassign.float")
                return [f"{v} {op} {self.expr('float', 2)}"]
            if t == "i64":
                self.tags.add("stmt.augassign.i64")
                return [f"{v} = ({v} {rng.choice(['+', '-', '^'])} {self.expr('i64', 1)}) % 100003"]
            if t == "str":
                self.tags.add("stmt.augassign.str")
                if self.loop_depth:
                    return [f"{v} = ({v} + {self.expr('str', 1)})[-30:]"]
                return [f"{v} += {self.expr('str', 2)}"]
            if v not in self.nogrow:
                self.tags.add("stmt.augassign.list")
                if self.loop_depth:
                    return [f"{v} = ({v} + {self.expr(t, 1)})[:12]"]
                return [f"{v} += {self.expr(t, 1)}"]
        if t in ANY_TYPES and rng.random() < 0.3 and t == "Any":
            self.tags.add("stmt.augassign.any")
            return [f"{v} += {self.expr('Any', 1)}"]
        self.tags.add("stmt.assign")
        return [f"{v} = {self.clamp(t, self.expr(t, rng.choice([1, 2, 3])))}"]

    def mutate(self) -> list[str]:
        rng = self.rng
        v = self.pick_var(lambda t: t.startswith(("list[", "dict[", "set[")) or t == "Pt" or t == "Any")
        if v is None:
            return self.newvar(rng.choice(LIST_TYPES + DICT_TYPES))
        t = self.scope.all()[v]
        h, a = targs(t)
        grow_ok = v not in self.nogrow
        if t == "Pt":
            self.tags.add("stmt.setattr")
            return [rng.choice([f"{v}.x = {self.clamp('int', self.expr('int', 2))}", f"{v}.y += {self.expr('int', 1)}",
                                f"{v}.x, {v}.y = {v}.y, {v}.x"])]
        if t == "Any":
            self.tags.add("stmt.any.setitem")
            return [rng.choice([f"{v}[{self.expr('int', 1)}] = {self.expr('Any', 1)}", f"{v}.child = {self.expr('Any', 1)}",
                                f"{v}.v = {self.expr('int', 1)}"])]
        if h == "list":
            e = a[0]
            ops = [("setitem", f"{v}[{self.expr('int', 1)}] = {self.expr(e, 2)}"),
                   ("setitem.i64idx", f"{v}[{self.expr('i64', 1)}] = {self.expr(e, 1)}"),
                   ("pop", f"{v}.pop()"), ("clear", f"{v}.clear()") if rng.random() < 0.2 else ("reverse", f"{v}.reverse()"),
                   ("reverse", f"{v}.reverse()"), ("delitem", f"del {v}[{self.expr('int', 1)}]"),
                   ("remove", f"{v}.remove({self.expr(e, 1)})"), ("setslice", f"{v}[{self.expr('int', 0)}:{self.expr('int', 0)}] = {self.expr(t, 1)}")]
            if grow_ok:
                ops += [("append", f"{v}.append({self.expr(e, 2)})")] * 3 + [("extend", f"{v}.extend({self.expr(t, 1)})"),
                                                                              ("insert", f"{v}.insert({self.expr('int', 1)}, {self.expr(e, 1)})")]
            if e in SORTABLE:
                ops.append(("sort", f"{v}.sort()"))
                ops.append(("sort.rev", f"{v}.sort(reverse=True)"))
            if e == "Any":
                ops.append(("sort", f"{v}.sort()"))
            if "setslice" in [o[0] for o in ops] and not grow_ok:
                ops = [o for o in ops if o[0] != "setslice"]
            tag, s = rng.choice(ops)
            self.tags.add(f"stmt.list.{tag}[{e}]")
            return [s]
        if h == "dict":
            k, w = a
            ops = [("setitem", f"{v}[{self.expr(k, 1)}] = {self.expr(w, 2)}")] * (3 if grow_ok else 0) + \
                  [("delitem", f"del {v}[{self.expr(k, 1)}]"), ("pop_default", f"{v}.pop({self.expr(k, 1)}, {self.expr(w, 0)})"),
                   ("clear", f"{v}.clear()")]
            if grow_ok:
                ops += [("update", f"{v}.update({self.expr(t, 1)})"), ("setdefault", f"{v}.setdefault({self.expr(k, 1)}, {self.expr(w, 1)})")]
                if w == "int":
                    ops.append(("augitem", f"{v}[{self.expr(k, 1)}] += {self.expr('int', 1)}"))
                if w == "list[int]":
                    ops.append(("item.append", f"{v}[{self.expr(k, 1)}].append({self.expr('int', 1)})"))
            tag, s = rng.choice(ops)
            self.tags.add(f"stmt.dict.{tag}[{k}->{w}]")
            return [s]
        e = a[0]
        ops = [("discard", f"{v}.discard({self.expr(e, 1)})"), ("remove", f"{v}.remove({self.expr(e, 1)})"), ("clear", f"{v}.clear()")]
        if grow_ok:
            ops += [("add", f"{v}.add({self.expr(e, 2)})")] * 3 + [("update", f"{v}.update({self.expr(t, 1)})")]
        tag, s = rng.choice(ops)
        self.tags.add(f"stmt.set.{tag}[{e}]")
        return [s]

    def do_print(self) -> list[str]:
        ts = [self.rng.choice(PRINTABLE) for _ in range(self.rng.choice([1, 1, 2, 3]))]
        if self.hostile and self.rng.random() < 0.5:
            ts.append("Any")
        self.tags.add("stmt.print")
        sep = self.rng.choice(["", "", ", sep='|'", ", end=';\\n'"])
        return ["print(" + ", ".join(self.expr(t, 2) for t in ts) + sep + ")"]

    def block(self, n: int, depth: int) -> list[str]:
        self.scope.push()
        out: list[str] = []
        for _ in range(max(1, n)):
            out += self.stmt(depth)
        self.scope.pop()
        return out or ["pass"]

    def terminator(self) -> list[str]:
        rng = self.rng
        k = rng.random()
        if self.loop_depth and k < 0.45 and not self.in_finally and not self.leaves_try_finally():
            self.tags.add("stmt.break" if k < 0.25 else "stmt.continue")
            return ["break" if k < 0.25 else "continue"]
        if k < 0.75 and not self.in_finally and not self.nested:
            self.tags.add("stmt.return.early")
            return [f"return {self.expr(self.ret, 2)}"]
        if self.in_finally:
            return ["pass"]
        exc = rng.choice(EXC_TYPES[:8] + ["MyErr"])
        self.tags.add("stmt.raise")
        return [f"raise {exc}({self.expr('str', 1)})"]

    def leaves_try_finally(self) -> bool:
        """Would a break/continue here jump out of a try statement with a finally clause?  (mypyc: "unimplemented")"""
        return any(d >= self.loop_depth for d in self.try_finally_loop_depth)

    def do_if(self, depth: int) -> list[str]:
        rng = self.rng
        self.tags.add("stmt.if")
        out = [f"if {self.expr('bool', 2)}:"] + ind(self.block(rng.choice([1, 2, 3]), depth - 1))
        if rng.random() < 0.35:
            out[-1:] = out[-1:]
            self.scope.push()
            t = ind(self.terminator())
            self.scope.pop()
            out += t
        if rng.random() < 0.3:
            self.tags.add("stmt.elif")
            out += [f"elif {self.expr('bool', 2)}:"] + ind(self.block(rng.choice([1, 2]), depth - 1))
        if rng.random() < 0.5:
            out += ["else:"] + ind(self.block(rng.choice([1, 2]), depth - 1))
        return out

    def loop_header(self) -> tuple[str, list[tuple[str, str]], str | None, str]:
        """(header source, [(loop var, type)], container var that must not grow, tag)"""
        rng = self.rng
        forms = ["range1", "range2", "range_neg", "range_pos_step", "range_var_step", "list", "list", "reversed", "enumerate",
                 "enumerate_start", "zip2", "zip3", "dict", "items", "values", "str", "bytes", "sorted_set", "tuple",
                 "range_len", "list_expr", "keys", "enumerate_zip", "reversed_range"]
        if self.hostile:
            forms += ["any", "any", "any_list", "any_enumerate", "any_zip", "any_dict"]
        f = rng.choice(forms)
        i = self.fresh("i")
        x = self.fresh("x")
        y = self.fresh("y")

        def cvar(kind: list[str]) -> tuple[str, str]:
            v = self.pick_var(lambda t: t in kind)
            if v is not None and rng.random() < 0.75:
                return v, self.scope.all()[v]
            t = rng.choice(kind)
            return self.expr(t, 1), t

        if f == "range1":
            return f"for {i} in range({self.expr('int', 1)} % {rng.choice([4, 7, 9])}):", [(i, "int")], None, "for.range1"
        if f == "range2":
            return (f"for {i} in range({self.expr('int', 1)} % 6, {self.expr('int', 1)} % 11):", [(i, "int")], None, "for.range2")
        if f == "range_neg":
            st = rng.choice([-1, -1, -2, -3, -4])
            return (f"for {i} in range({self.expr('int', 1)} % 15, {self.expr('int', 1)} % 9 - 4, {st}):", [(i, "int")], None,
                    "for.range.negstep")
        if f == "range_pos_step":
            st = rng.choice([2, 3, 5])
            return (f"for {i} in range({self.expr('int', 1)} % 5 - 2, {self.expr('int', 1)} % 17, {st}):", [(i, "int")], None,
                    "for.range.posstep")
        if f == "range_var_step":
            return (f"for {i} in range({self.expr('int', 1)} % 12, {self.expr('int', 1)} % 12, ({self.expr('int', 1)} % 7) - 3):",
                    [(i, "int")], None, "for.range.varstep")
        if f == "reversed_range":
            return (f"for {i} in reversed(range({self.expr('int', 1)} % 8)):", [(i, "int")], None, "for.reversed.range")
        if f in ("list", "reversed", "enumerate", "enumerate_start", "range_len"):
            c, t = cvar(LIST_TYPES)
            e = targs(t)[1][0]
            ng = c if c.isidentifier() else None
            if f == "list":
                return f"for {x} in {c}:", [(x, e)], ng, f"for.list[{e}]"
            if f == "reversed":
                return f"for {x} in reversed({c}):", [(x, e)], ng, f"for.reversed[{e}]"
            if f == "enumerate":
                return f"for {i}, {x} in enumerate({c}):", [(i, "int"), (x, e)], ng, f"for.enumerate[{e}]"
            if f == "enumerate_start":
                return (f"for {i}, {x} in enumerate({c}, {self.expr('int', 1)}):", [(i, "int"), (x, e)], ng, f"for.enumerate.start[{e}]")
            return f"for {i} in range(len({c})):", [(i, "int")], ng, "for.range.len"
        if f == "list_expr":
            t = rng.choice(LIST_TYPES)
            return f"for {x} in {self.expr(t, 2)}:", [(x, targs(t)[1][0])], None, f"for.listexpr[{targs(t)[1][0]}]"
        if f in ("zip2", "zip3", "enumerate_zip"):
            c1, t1 = cvar(LIST_TYPES)
            c2, t2 = cvar(LIST_TYPES + ["str"])
            e1 = targs(t1)[1][0]
            e2 = "str" if t2 == "str" else targs(t2)[1][0]
            if f == "zip2":
                return f"for {x}, {y} in zip({c1}, {c2}):", [(x, e1), (y, e2)], None, f"for.zip[{e1},{e2}]"
            if f == "enumerate_zip":
                return (f"for {i}, ({x}, {y}) in enumerate(zip({c1}, {c2})):", [(i, "int"), (x, e1), (y, e2)], None, "for.enumerate.zip")
            z = self.fresh("z")
            return (f"for {x}, {y}, {z} in zip({c1}, {c2}, range({self.expr('int', 1)} % 6)):", [(x, e1), (y, e2), (z, "int")], None,
                    f"for.zip3[{e1},{e2}]")
        if f in ("dict", "items", "values", "keys"):
            c, t = cvar(DICT_TYPES)
            k, w = targs(t)[1]
            ng = c if c.isidentifier() else None
            if f == "dict":
                return f"for {x} in {c}:", [(x, k)], ng, f"for.dict[{k}]"
            if f == "keys":
                return f"for {x} in {c}.keys():", [(x, k)], ng, f"for.dict.keys[{k}]"
            if f == "items":
                return f"for {x}, {y} in {c}.items():", [(x, k), (y, w)], ng, f"for.dict.items[{k}->{w}]"
            return f"for {y} in {c}.values():", [(y, w)], ng, f"for.dict.values[{w}]"
        if f == "str":
            return f"for {x} in {self.expr('str', 1)}:", [(x, "str")], None, "for.str"
        if f == "bytes":
            return f"for {x} in {self.expr('bytes', 1)}:", [(x, "int")], None, "for.bytes"
        if f == "sorted_set":
            t = rng.choice(["set[int]", "set[str]"])
            return f"for {x} in sorted({self.expr(t, 1)}):", [(x, targs(t)[1][0])], None, "for.sorted.set"
        if f == "tuple":
            return f"for {x} in {self.expr('tuple[int, int]', 1)}:", [(x, "int")], None, "for.tuple"
        if f == "any":
            return f"for {x} in {self.expr('Any', 1)}:", [(x, "Any")], None, "for.any"
        if f == "any_list":
            c, _ = cvar(["list[Any]"])
            return f"for {x} in {c}:", [(x, "Any")], c if c.isidentifier() else None, "for.list[Any]"
        if f == "any_enumerate":
            return f"for {i}, {x} in enumerate({self.expr('Any', 1)}):", [(i, "int"), (x, "Any")], None, "for.enumerate.any"
        if f == "any_zip":
            return (f"for {x}, {y} in zip({self.expr('Any', 1)}, {self.expr('list[int]', 1)}):", [(x, "Any"), (y, "int")], None, "for.zip.any")
        c, _ = cvar(["dict[Any, Any]"])
        return f"for {x}, {y} in {c}.items():", [(x, "Any"), (y, "Any")], c if c.isidentifier() else None, "for.dict.items[Any]"

    def do_for(self, depth: int) -> list[str]:
        rng = self.rng
        hdr, lvars, ng, tag = self.loop_header()
        self.tags.add(tag)
        self.scope.push()
        for v, t in lvars:
            self.scope.add(v, t)
        # every container variable the header reads must not grow inside the body (endless iteration otherwise)
        names = set(re.findall(r"[A-Za-z_]\w*", hdr.split(" in ", 1)[1]))
        grow_guard = [n for n, t in self.scope.all().items() if n in names and n not in self.nogrow
                      and t.startswith(("list[", "dict[", "set[", "str", "bytes")) or (n in names and t in ("Any",) and n not in self.nogrow)]
        for n in grow_guard:
            self.nogrow.add(n)
        self.loop_depth += 1
        body = self.block(rng.choice([1, 2, 2, 3]), depth - 1)
        if rng.random() < 0.3 and not self.leaves_try_finally():
            body += [f"if {self.expr('bool', 1)}:"] + ind([rng.choice(["break", "continue"])])
            self.tags.add("stmt.loopctl")
        self.loop_depth -= 1
        for n in grow_guard:
            self.nogrow.discard(n)
        self.scope.pop()
        out = [hdr] + ind(body)
        if rng.random() < 0.15:
            self.tags.add("for.else")
            out += ["else:"] + ind(self.block(1, depth - 1))
        return out

    def do_while(self, depth: int) -> list[str]:
        rng = self.rng
        fuel = self.fresh("fuel")
        self.scope.add(fuel, "int")
        self.scope.readonly.add(fuel)
        self.tags.add("stmt.while")
        self.loop_depth += 1
        body = self.block(rng.choice([1, 2, 3]), depth - 1)
        self.loop_depth -= 1
        cond = self.expr("bool", 2)
        out = [f"{fuel} = {rng.choice([3, 5, 8])}", f"while {fuel} > 0 and {cond}:", f"    {fuel} -= 1"] + ind(body)
        if rng.random() < 0.15:
            self.tags.add("while.else")
            out += ["else:"] + ind(self.block(1, depth - 1))
        return out

    def do_try(self, depth: int) -> list[str]:
        rng = self.rng
        self.tags.add("stmt.try")
        form = rng.choice(["except", "except", "except_as", "except_multi", "finally", "except_finally", "except_else", "bare"])
        extra_finally = rng.random() < 0.15
        has_finally = form in ("finally", "except_finally") or extra_finally
        if has_finally:
            self.try_finally_loop_depth.append(self.loop_depth)
        try:
            return self._do_try(depth, form, has_finally)
        finally:
            if has_finally:
                self.try_finally_loop_depth.pop()

    def _do_try(self, depth: int, form: str, has_finally: bool) -> list[str]:
        rng = self.rng
        out = ["try:"] + ind(self.block(rng.choice([1, 2, 3]), depth - 1))
        if rng.random() < 0.25:
            self.scope.push()
            out += ind(self.terminator())
            self.scope.pop()
        if form != "finally":
            excs = rng.sample(EXC_TYPES, rng.choice([1, 1, 2]))
            if form == "bare":
                out += ["except Exception:"] + ind(self.block(rng.choice([1, 2]), depth - 1))
                self.tags.add("try.except.exception")
            elif form in ("except_as", "except_finally"):
                ev = self.fresh("e")
                self.scope.push()
                body = [f"print({rng.choice(['type(' + ev + ').__name__', 'str(' + ev + ')', 'type(' + ev + ').__name__, ' + ev + '.args'])})"]
                body += self.block(1, depth - 1)
                if rng.random() < 0.2:
                    body += [rng.choice(["raise", f"raise RuntimeError('wrapped') from {ev}", "raise ValueError('in-handler')"])]
                    self.tags.add("try.reraise")
                self.scope.pop()
                out += [f"except {excs[0]} as {ev}:"] + ind(body)
                self.tags.add("try.except.as")
            elif len(excs) > 1:
                out += [f"except ({', '.join(excs)}):"] + ind(self.block(rng.choice([1, 2]), depth - 1))
                self.tags.add("try.except.tuple")
            else:
                out += [f"except {excs[0]}:"] + ind(self.block(rng.choice([1, 2]), depth - 1))
                if rng.random() < 0.3:
                    out += [f"except {rng.choice(EXC_TYPES)}:"] + ind(self.block(1, depth - 1))
                    self.tags.add("try.except.second")
                self.tags.add("try.except")
            if form == "except_else":
                out += ["else:"] + ind(self.block(1, depth - 1))
                self.tags.add("try.else")
        if has_finally:
            self.in_finally += 1
            out += ["finally:"] + ind(self.block(rng.choice([1, 2]), depth - 1))
            self.in_finally -= 1
            self.tags.add("try.finally")
        return out

    def do_with(self, depth: int) -> list[str]:
        rng = self.rng
        self.tags.add("stmt.with")
        v = self.fresh("cm")
        if self.hostile and rng.random() < 0.5:
            self.tags.add("with.any")
            hdr = f"with {self.expr('Any', 1)} as {v}:"
            t = "Any"
        else:
            hdr = f"with Ctx({self.expr('str', 1)}, {self.expr('bool', 1)}) as {v}:"
            t = "Ctx"
        self.scope.push()
        self.scope.add(v, t)
        body = self.block(rng.choice([1, 2]), depth - 1)
        if rng.random() < 0.3:
            body += self.terminator()
        self.scope.pop()
        return [hdr] + ind(body)

    def do_unpack(self) -> list[str]:
        rng = self.rng
        k = rng.random()
        if self.hostile and k < 0.3:
            a, b, c = self.fresh(), self.fresh(), self.fresh()
            src = self.expr('Any', 1)
            for n in (a, b, c):
                self.scope.add(n, "Any")
            self.tags.add("unpack.any")
            return [f"{a}, {b}, {c} = {src}"]
        if k < 0.5:
            t = rng.choice(TUPLE_TYPES)
            parts = targs(t)[1]
            names = [self.fresh() for _ in parts]
            e = self.expr(t, 2)
            for n, p in zip(names, parts):
                self.scope.add(n, p)
            self.tags.add(f"unpack.tuple[{t}]")
            return [f"{', '.join(names)} = {e}"]
        if k < 0.75:
            t = rng.choice(["list[int]", "list[str]", "list[Pt]"])
            e = targs(t)[1][0]
            a, rest = self.fresh(), self.fresh()
            src = self.expr(t, 1)
            self.scope.add(a, e)
            self.scope.add(rest, t)
            self.tags.add("unpack.star")
            return [f"{rest}: {t}", rng.choice([f"{a}, *{rest} = {src}", f"*{rest}, {a} = {src}"])]
        t = rng.choice(["list[int]", "list[str]"])
        e = targs(t)[1][0]
        a, b = self.fresh(), self.fresh()
        src = self.expr(t, 1)
        if src.startswith("["):
            src = f"list({src})"  # mypy checks the length of a list display against the targets
        self.scope.add(a, e)
        self.scope.add(b, e)
        self.tags.add("unpack.list")
        return [f"{a}, {b} = {src}"]

    def do_nested(self, depth: int) -> list[str]:
        """Nested function / lambda capturing locals (closure environment classes)."""
        rng = self.rng
        fn = self.fresh("inner")
        pt = rng.choice(["int", "str", "list[int]", "float"])
        rt = rng.choice(["int", "str", "bool", "list[int]"])
        p = self.fresh("p")
        if rng.random() < 0.25:
            self.tags.add("lambda")
            cap = self.expr("int", 1)
            self.scope.add(fn, "callable")
            call_t = "int"
            out = [f"{fn} = lambda {p}: {p} * 2 + {cap}"]
            arg = self.expr('int', 1)
            r = self.fresh()
            self.scope.add(r, "int")
            return out + [f"{r}: int = {fn}({arg})"]
        self.tags.add("nested.func")
        outer_mut = self.pick_var(lambda t: t in ("int", "str")) if rng.random() < 0.5 else None
        saved_ret, self.ret = self.ret, rt
        self.scope.push()
        self.scope.add(p, pt)
        self.nested += 1
        saved_loop, self.loop_depth = self.loop_depth, 0
        body: list[str] = []
        if outer_mut:
            self.tags.add("nested.nonlocal")
            body.append(f"nonlocal {outer_mut}")
            ot = self.scope.all()[outer_mut]
            body.append(f"{outer_mut} = {outer_mut} + {self.expr(ot, 1)}" if ot == "str" else f"{outer_mut} = ({outer_mut} + {self.expr('int', 1)}) % 100003")
        ro = set(self.scope.readonly)
        # locals of the enclosing function are read-only inside (no nonlocal declaration)
        self.scope.readonly |= {n for n in self.scope.all() if n != p}
        body += self.block(rng.choice([1, 2]), min(depth - 1, 1))
        body.append(f"return {self.expr(rt, 2)}")
        self.scope.readonly = ro
        self.nested -= 1
        self.loop_depth = saved_loop
        self.scope.pop()
        self.ret = saved_ret
        r = self.fresh()
        out = [f"def {fn}({p}: {pt}) -> {rt}:"] + ind(body)
        ncalls = rng.choice([1, 2])
        for _ in range(ncalls):
            r = self.fresh()
            out.append(f"{r}: {rt} = {fn}({self.expr(pt, 1)})")
            self.scope.add(r, rt)
        return out

    def stmt(self, depth: int) -> list[str]:
        rng = self.rng
        simple = [(self.newvar, 3.0), (self.assign, 3.0), (self.mutate, 3.0), (self.do_print, 1.5), (self.do_unpack, 0.7)]
        kinds: list[tuple[Any, float]] = list(simple)
        if depth > 0:
            kinds += [(lambda: self.do_if(depth), 2.0), (lambda: self.do_for(depth), 3.0), (lambda: self.do_while(depth), 0.7),
                      (lambda: self.do_try(depth), 2.0), (lambda: self.do_with(depth), 0.6)]
            if not self.nested and not self.in_finally and self.loop_depth == 0:
                kinds.append((lambda: self.do_nested(depth), 0.7))
        f = rng.choices([k[0] for k in kinds], weights=[k[1] for k in kinds])[0]
        return f()


def free_function(rng: random.Random, name: str, hostile: bool = False) -> dict[str, Any]:
    """One free-form unit: {"src", "calls", "tags", "kind"}."""
    from vlib import c05_gen
    c05_gen.WORD_INTS[0] = True
    try:
        return _free_function(rng, name, hostile)
    finally:
        c05_gen.WORD_INTS[0] = False


def _free_function(rng: random.Random, name: str, hostile: bool = False) -> dict[str, Any]:
    g = FuncGen(rng, hostile)
    nparams = rng.choice([1, 2, 2, 3, 3, 4])
    pool = PARAM_TYPES + (["Any"] * 40 + ["list[Any]"] * 8 + ["dict[Any, Any]"] * 4 if hostile else [])
    params: list[tuple[str, str]] = []
    for i in range(nparams):
        t = rng.choice(pool)
        if hostile and i == 0:
            t = "Any"
        params.append((f"a{i}", t))
        g.scope.add(f"a{i}", t)
    body: list[str] = []
    for _ in range(rng.choice([3, 4, 5, 6, 7])):
        body += g.stmt(rng.choice([1, 2, 2, 3]))
    body.append(f"return {g.expr(g.ret, 3)}")
    src = [f"def {name}({', '.join(f'{n}: {t}' for n, t in params)}) -> {g.ret}:"] + ind(body)
    calls = []
    for k in range(rng.choice([5, 6, 8])):
        setup = []
        for n, t in params:
            if t == "list[Any]":
                v = "[" + ", ".join(val("Any", rng) for _ in range(rng.choice([0, 1, 2, 3]))) + "]"
            elif t == "dict[Any, Any]":
                v = "{" + ", ".join(f"{val('Any', rng)}: {val('Any', rng)}" for _ in range(rng.choice([0, 1, 2]))) + "}"
            else:
                v = val(t, rng)
            setup.append(f"{n} = {v}")
        calls.append({"setup": setup, "call": f"{name}({', '.join(n for n, _ in params)})",
                      "post": [n for n, t in params if t.startswith(("list", "dict", "set")) or t in ("Pt", "Any")],
                      "hostile": hostile})
    return {"src": "\n".join(src), "calls": calls, "tags": sorted(g.tags), "kind": "free.hostile" if hostile else "free"}
