"""C16 - catalogue of hostile client behaviours, the project versions the daemon checks, the
fault-sequence generator and the mechanism classifier. Pure harness code (no repository code is
copied here): request dictionaries are *recorded* from the repository's own client at run time and
frames are produced by the repository's own `IPCBase.write_bytes` (see vlib/tasks/c16_daemon.py)."""

from __future__ import annotations

import os
import re
from typing import Any, Iterator

from vlib import common

# --------------------------------------------------------------------------------------------
# The project under the daemon. Every version has >=1 error in main.py (so the expected output of a
# check is never empty) and every two versions differ in their output (so a stale answer is visible).
LIB = ["int", "str", "bytes"]
UTIL = ["float", "list[int]", "dict[str, int]"]
MAIN = ['"s"', "b's'"]
VERSIONS = [(a, b, c) for a in range(len(LIB)) for b in range(len(UTIL)) for c in range(len(MAIN))]
SEED_MODULE = "c16seed0"
SEED_TEXT = "import typing, collections, os, sys, re, json, dataclasses, enum, abc\n"


def vid(v: tuple[int, int, int] | list[int]) -> str:
    return "v%d%d%d" % tuple(v)


def files_of(v: tuple[int, int, int] | list[int]) -> dict[str, str]:
    a, b, c = v
    return {
        "lib.py": f"def f() -> {LIB[a]}:\n    raise NotImplementedError\n\nclass K:\n    attr: {LIB[a]}\n",
        "util.py": f"import lib\n\ndef g(k: lib.K) -> {UTIL[b]}:\n    raise NotImplementedError\n\ndef h() -> int:\n    return lib.f()\n",
        "main.py": ("import lib\nimport util\n\n"
                    "x: complex = lib.f()\n"
                    "y: bytearray = util.g(lib.K())\n"
                    f"z: memoryview = {MAIN[c]}\n"
                    "w: bytearray = lib.K().attr\n"),
        SEED_MODULE + ".py": SEED_TEXT,
    }


def targets(cache_mode: str) -> list[str]:
    # fgcache: the daemon only uses a fine-grained cache when >= half of the sources are in it (build.py),
    # so the (cached, error-free) seed module is passed along; it contributes no diagnostics.
    return [SEED_MODULE + ".py", "main.py"] if cache_mode == "fgcache" else ["main.py"]


# --------------------------------------------------------------------------------------------
# Fault catalogue. A fault spec is a JSON dict {"kind": ..., params}; the worker materialises bytes.
# family = coarse class used for coverage cells.
FAMILY = {
    "connect-close": "disconnect", "cut": "disconnect", "oversize-header": "disconnect",
    "unread-reply": "reply-unread",
    "raw-frame": "bad-frame",
    "request": "bad-request",
    "two-frames": "pipelined", "trailing-bytes": "pipelined",
}

RAW_FRAMES: list[tuple[str, str]] = [
    # (sub-kind, payload as latin-1 text)
    ("non-json", "hello"), ("non-json", "{"), ("non-json", "{'command': 'status'}"), ("non-json", "\x00\x01\x02\x03"),
    ("non-json", "{\"command\": \"status\""), ("non-json", "NaN,"),
    ("invalid-utf8", "\xff\xfe\x00"), ("invalid-utf8", "{\"command\": \"st\xc3\"}"), ("invalid-utf8", "\x80"),
    ("json-not-object", "[1, 2]"), ("json-not-object", "\"check\""), ("json-not-object", "3"),
    ("json-not-object", "null"), ("json-not-object", "true"), ("json-not-object", "[{\"command\": \"status\"}]"),
    ("empty-frame", ""),
]

# (sub-kind, base request kind, mutation) - applied to the request dict recorded from the real client
BAD_REQUESTS: list[tuple[str, str, dict[str, Any]]] = [
    ("no-command", "status", {"drop": ["command"]}),
    ("no-command", "check", {"drop": ["command"]}),
    ("no-command", "status", {"only": []}),
    ("nonstring-command", "status", {"set": {"command": 5}}),
    ("nonstring-command", "check", {"set": {"command": ["check"]}}),
    ("nonstring-command", "status", {"set": {"command": None}}),
    ("nonstring-command", "status", {"set": {"command": {"a": 1}}}),
    ("unknown-command", "status", {"set": {"command": "frobnicate"}}),
    ("unknown-command", "status", {"set": {"command": ""}}),
    ("unknown-command", "check", {"set": {"command": "Check"}}),
    ("unknown-command", "status", {"set": {"command": "frobnicate"}, "drop": ["is_tty", "terminal_width"]}),
    ("missing-field", "status", {"drop": ["is_tty"]}),
    ("missing-field", "status", {"drop": ["is_tty", "terminal_width"]}),
    ("missing-field", "check", {"drop": ["files"]}),
    ("missing-field", "check", {"drop": ["is_tty"]}),
    ("missing-field", "recheck", {"drop": ["export_types"]}),
    ("extra-field", "status", {"set": {"bogus": 1}}),
    ("extra-field", "check", {"set": {"bogus": [1, 2]}}),
    ("extra-field", "recheck", {"set": {"files": ["main.py"]}}),
    ("wrong-type", "check", {"set": {"files": 5}}),
    ("wrong-type", "check", {"set": {"files": [5]}}),
    ("wrong-type", "check", {"set": {"files": {"main.py": 1}}}),
    # well-framed, valid JSON whose strings are hostile (lone surrogates written as \\udXXX escapes, NUL, non-BMP,
    # very long): the daemon echoes command names and file names back in its replies.  (`check` with other
    # files is not a fault: it legitimately replaces the source list a later `recheck` refers to.)
    ("hostile-string", "status", {"set": {"command": "stat\udc80us"}}),
    ("hostile-string", "status", {"set": {"command": "st\u00e4tus\U0001F600"}}),
    ("hostile-string", "status", {"set": {"command": "stat\x00us"}}),
    ("hostile-string", "status", {"set": {"command": "x" * 70000}}),
    ("hostile-string", "recheck", {"set": {"update": ["\udcff.py"], "remove": ["\ud800"]}}),
    ("malformed-stop", "stop", {"set": {"bogus": 1}}),
    ("malformed-stop", "stop", {"drop": ["is_tty"]}),
]

REQ_KINDS = ["status", "check", "recheck"]
OVERSIZE = [0x7FFFFFFF, 0xFFFFFFFF, 1_000_000, "len+1", "len+100"]


def fault_label(f: dict[str, Any]) -> str:
    """Stable short name of a fault (used in cells and keys; never contains random payload)."""
    k = f["kind"]
    if k == "cut":
        return f"cut-{f['zone']}:{f['req']}"
    if k in ("unread-reply",):
        return f"{k}:{f['req']}"
    if k == "raw-frame":
        return f"raw-frame:{f['sub']}"
    if k == "request":
        return f"request:{f['sub']}:{f['req']}"
    if k == "two-frames":
        return f"two-frames:{f['req']}+{f['second']}"
    if k == "trailing-bytes":
        return f"trailing-bytes:{f['req']}"
    return k


def mutate_request(req: dict[str, Any], mut: dict[str, Any]) -> dict[str, Any]:
    r = dict(req)
    if "only" in mut:
        r = {k: r[k] for k in mut["only"] if k in r}
    for k in mut.get("drop", []):
        r.pop(k, None)
    r.update(mut.get("set", {}))
    return r


def all_single_faults(cut_offsets: str = "sample") -> list[dict[str, Any]]:
    """Every fault of the catalogue once (cut offsets: symbolic; resolved by the worker against the
    real frame: 'h1'..'h3' = header bytes only, 'h' = complete header, 'b<permille>' = body cut)."""
    out: list[dict[str, Any]] = [{"kind": "connect-close"}]
    for req in REQ_KINDS:
        for off in (["h1", "h2", "h3", "h", "b1", "b500", "b999"] if cut_offsets == "sample" else []):
            out.append({"kind": "cut", "req": req, "at": off, "zone": "header" if off.startswith("h") and off != "h" else "body"})
        out.append({"kind": "unread-reply", "req": req})
        if req != "status":
            # a daemon started with -v streams log frames to the client while the command runs
            out.append({"kind": "unread-reply", "req": req, "needs_verbose": True})
    for sub, payload in RAW_FRAMES:
        out.append({"kind": "raw-frame", "sub": sub, "payload": payload})
    for sub, req, mut in BAD_REQUESTS:
        out.append({"kind": "request", "sub": sub, "req": req, "mut": mut})
    for n in OVERSIZE:
        out.append({"kind": "oversize-header", "claim": n, "body": 7})
    for req, second in (("status", "check"), ("check", "unknown"), ("status", "recheck")):
        out.append({"kind": "two-frames", "req": req, "second": second})
    for req, extra in (("status", "\x00\x00"), ("check", "\x00\x00\x00"), ("status", "\x00\x00\x00\x09{\"comm")):
        out.append({"kind": "trailing-bytes", "req": req, "extra": extra})
    return out


def gen_sequences(n: int, tier: str) -> Iterator[dict[str, Any]]:
    """Seeded fault sequences: 1-4 faults interleaved with edits and checks. The first fault of
    sequence k walks round-robin through the whole catalogue (so every kind is met by a fresh daemon
    even on a tree where most faults are fatal); the rest is random."""
    cat = all_single_faults()
    order = list(range(len(cat)))
    common.rng_for("C16", "catalogue-order").shuffle(order)
    for k in range(n):
        r = common.rng_for("C16", "seq", k)
        cache_mode = "plain" if k % 8 == 7 else "fgcache"
        verbose = r.random() < 0.2
        nf = r.choice([1, 1, 2, 2, 3, 4])
        v = list(r.choice(VERSIONS))
        elems: list[dict[str, Any]] = []
        faults = [dict(cat[order[k % len(cat)]])] + [dict(r.choice(cat)) for _ in range(nf - 1)]
        if faults[0].get("needs_verbose"):
            verbose = True
        r2 = r.random()
        if r2 < 0.35:
            # a random body offset instead of the sampled ones
            for f in faults:
                if f["kind"] == "cut" and f["at"].startswith("b"):
                    f["at"] = "b%d" % r.randint(1, 999)
        for i, f in enumerate(faults):
            # optional edit and/or explicit check before the fault
            if r.random() < 0.5:
                nv = list(v)
                j = r.randrange(3)
                nv[j] = (nv[j] + r.randint(1, 2)) % (len(LIB), len(UTIL), len(MAIN))[j]
                if nv != v:
                    v = nv
                    elems.append({"op": "edit", "version": list(v)})
                    if r.random() < 0.5:
                        elems.append({"op": "check", "mode": r.choice(["check", "recheck"])})
            elems.append({"op": "fault", "fault": f, "probe_mode": r.choice(["check", "recheck"])})
        if r.random() < 0.4:
            nv = list(v)
            nv[0] = (nv[0] + 1) % len(LIB)
            elems.append({"op": "edit", "version": nv})
            elems.append({"op": "check", "mode": r.choice(["check", "recheck"])})
        yield {"k": k, "cache_mode": cache_mode, "verbose": verbose, "start_version": None, "elements": elems}


def fix_start_versions(seqs: list[dict[str, Any]]) -> None:
    for s in seqs:
        r = common.rng_for("C16", "startv", s["k"])
        s["start_version"] = list(r.choice(VERSIONS))


def gen_cut_sweep(kinds: list[str], lengths: dict[str, int], per_seq: int = 4) -> Iterator[dict[str, Any]]:
    """All byte offsets of the real frames of the given request kinds (thorough tier)."""
    k = 100000
    for req in kinds:
        offs = list(range(1, lengths[req]))
        for i in range(0, len(offs), per_seq):
            elems = [{"op": "fault", "fault": {"kind": "cut", "req": req, "at": o, "zone": "header" if o < 4 else "body"},
                      "probe_mode": "recheck" if (o % 2) else "check"} for o in offs[i:i + per_seq]]
            yield {"k": k, "cache_mode": "fgcache", "verbose": False, "start_version": [1, 1, 0], "elements": elems}
            k += 1


# --------------------------------------------------------------------------------------------
# Classifier: mechanism keys from witnesses.
ANCHOR_FILES = ("dmypy_server.py", "dmypy_util.py", "ipc.py", "dmypy_os.py", "client.py")
_FRAME_RE = re.compile(r'^\s*File "([^"]+)", line (\d+), in (\S+)')
_EXC_RE = re.compile(r"^([A-Za-z_][\w.]*(?:Error|Exception|Exit|Interrupt|Warning)?)\b(?::|$)")


_IMPLICIT_CHAIN = "During handling of the above exception, another exception occurred"


def death_site(log: str) -> str:
    """`<ExcType>@<file>:<func>[:via=<func called by serve>]` for the exception that ended the daemon,
    read from the traceback the daemon leaves in its log: deepest frame inside the daemon's own modules,
    plus the first such frame below `serve` when that is a different function (so that the same transport
    error reached through the final reply, through a log line written during a command, or through the
    crash report are different mechanisms). For an implicit chain ("During handling of the above
    exception ...") the ROOT exception is classified, not the failure of the handler.
    'no-traceback' if the daemon left none."""
    marker = "Traceback (most recent call last)"
    if not log or marker not in log:
        return "no-traceback"
    parts = log.split(marker)
    idx = len(parts) - 1
    while idx > 1 and _IMPLICIT_CHAIN in parts[idx - 1][-400:]:
        idx -= 1
    block = parts[idx]
    site = None
    via = None
    exc = None
    seen_serve = False
    for ln in block.splitlines()[1:]:
        m = _FRAME_RE.match(ln)
        if m:
            base = os.path.basename(m.group(1))
            if base in ANCHOR_FILES:
                site = f"{base}:{m.group(3)}"
                if seen_serve and via is None:
                    via = m.group(3)
                if m.group(3) == "serve":
                    seen_serve = True
            continue
        if ln and not ln.startswith(" "):
            m2 = _EXC_RE.match(ln)
            if m2 and exc is None:
                exc = m2.group(1).split(".")[-1]
                if exc in ("BrokenPipeError", "ConnectionResetError", "ConnectionAbortedError"):
                    exc = "PeerClosedError"  # EPIPE or ECONNRESET depending on what the closed peer had left unread
                break
    out = f"{exc or 'UnknownException'}@{site or 'outside-daemon-modules'}"
    if via and site and not site.endswith(":" + via):
        out += f":via={via}"
    return out


def how_exited(ws: int | None) -> str:
    if ws is None:
        return "unknown"
    if os.WIFSIGNALED(ws):
        return f"signal{os.WTERMSIG(ws)}"
    return f"exit{os.WEXITSTATUS(ws)}"


def classify_probe_text(text: str) -> str:
    """Coarse class of what the repository's client printed when a probe failed."""
    t = text or ""
    for pat, name in (("No status file found", "no-status-file"), ("Daemon has died", "daemon-has-died"),
                      ("Connection refused", "connection-refused"), ("Daemon may be busy", "client-says-busy"),
                      ("No data received", "no-data-received"), ("timed out", "timed-out"),
                      ("Response: ", "foreign-response-shape"), ("Daemon crashed!", "daemon-crashed-reply"),
                      ("Unrecognized command", "unrecognized-command-reply"),
                      ("No command found", "no-command-reply"), ("Traceback", "client-traceback"),
                      ("Broken pipe", "broken-pipe"), ("Connection reset", "connection-reset")):
        if pat in t:
            return name
    return "other"


def classify_event(ev: dict[str, Any]) -> list[tuple[str, str]]:
    """Mechanism keys (with one-line descriptions) of everything a probed fault element refutes."""
    out: list[tuple[str, str]] = []
    p = ev["probe"]
    label = fault_label(ev["fault"])
    fam = FAMILY[ev["fault"]["kind"]]
    if p.get("died"):
        site = death_site(p.get("log", ""))
        if site == "no-traceback":
            site = f"no-traceback:{how_exited(p.get('waitstatus'))}:after={label}"
        # did it die while serving the hostile connection, or only on the NEXT (well-formed) one?
        hostile_done = bool(((ev.get("hostile") or {}).get("reply") or {}).get("final"))
        phase = "on-next-connection" if hostile_done and fam == "pipelined" else "on-faulty-connection"
        asked_to_stop = ((ev.get("hostile") or {}).get("request") or {}).get("command") == "stop"
        if not asked_to_stop:  # a (malformed) stop request may end the daemon; only its status file is judged
            tail = (", the hostile client itself had been answered; bytes it left behind broke the next client's connection)"
                    if phase == "on-next-connection" else ")")
            out.append((f"daemon-died:{phase}:{site}",
                        f"daemon process exited after client fault '{label}' ({how_exited(p.get('waitstatus'))}{tail}"))
        if p.get("status_file_names_dead_pid"):
            cmd = ((ev.get("hostile") or {}).get("request") or {}).get("command")
            out.append((f"status-file-left:after-death:command={cmd if isinstance(cmd, str) else '-'}:{site}",
                        f"daemon exited after '{label}' but the status file still names its pid"))
        return out
    if p.get("unresponsive"):
        out.append((f"daemon-unresponsive:{fam}:{classify_probe_text(p.get('barrier_error', ''))}",
                    f"daemon alive but a well-formed status request after '{label}' was not answered: {p.get('barrier_error')!r}"))
        return out
    # a well-formed status request that failed although the daemon is alive (even if a retry then succeeded);
    # a lone watchdog expiry followed by a served retry is not evidence (the parent counts it as inconclusive)
    if p.get("barrier_failures"):
        p = dict(p, barrier_failures=[x for x in p["barrier_failures"] if "timed out" not in x])
    disturbed = [x for x in (p.get("barrier_reply_error") and "error reply: " + p["barrier_reply_error"],
                             p.get("barrier_foreign") and f"response to another request (keys {p.get('barrier_keys')})",
                             p.get("barrier_failures") and "connection-level failure: " + "; ".join(p["barrier_failures"])) if x]
    if disturbed and fam == "pipelined":
        # which of the three the next client sees is a race between its send and the server answering the
        # stale frame and closing: one mechanism, one key
        out.append(("later-request-affected:pipelined:next-request-disturbed",
                    f"bytes left behind by '{label}' were taken for the next client's request; its well-formed status request got: {disturbed[0][:200]}"))
    elif disturbed:
        if p.get("barrier_reply_error"):
            out.append((f"later-request-affected:{fam}:status-got-error-reply:{classify_probe_text(p['barrier_reply_error'])}",
                        f"well-formed status request after '{label}' was answered with an error: {p['barrier_reply_error']!r}"))
        if p.get("barrier_foreign"):
            out.append((f"later-request-affected:{fam}:status-got-foreign-response",
                        f"status request after '{label}' got the response to another request (keys {p.get('barrier_keys')})"))
        if p.get("barrier_failures"):
            out.append((f"later-request-affected:{fam}:status-request-failed:{classify_probe_text(p['barrier_failures'][0])}",
                        f"well-formed status request after '{label}' failed although the daemon stayed alive: {p['barrier_failures'][0]!r}"))
    if p.get("pid_changed"):
        out.append((f"pid-changed:{fam}", f"status file names another pid after '{label}'"))
    st = p.get("status_cmd")
    if st is not None and (st["rc"] != 0 or "Daemon is up and running" not in st["out"]):
        out.append((f"later-request-affected:{fam}:dmypy-status:{classify_probe_text(st['out'] + st['err'])}",
                    f"`dmypy status` after '{label}' failed: rc={st['rc']} {(st['out'] + st['err'])[:200]!r}"))
    ck = p.get("check_cmd")
    if ck is not None and not ck.get("equal"):
        text = ck["out"] + ck["err"]
        if ck["rc"] not in (0, 1) or not ck["out"]:
            cls = "no-result:" + classify_probe_text(text)
        else:
            cls = "output-differs"
        out.append((f"later-request-affected:{fam}:dmypy-{ck['mode']}:{cls}",
                    f"`dmypy {ck['mode']}` after '{label}' differs from the fault-free result: rc={ck['rc']} (expected "
                    f"{ck['expected_rc']}) {text[:200]!r}"))
    return out
