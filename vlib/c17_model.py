"""C17 reference model: a direct transcription of docs/source/config_file.rst, section "Config file
format" (which modules a pattern matches) and the list under `.. _config-precedence:`.

    1. Inline configuration in the source file
    2. Sections with concrete module names (foo.bar)
    3. Sections with "unstructured" wildcard patterns (foo.*.baz), later in the file overriding earlier
    4. Sections with "well-structured" wildcard patterns (foo.bar.*), more specific overriding more general
    5. Command line options
    6. Top-level configuration file options

Matching, as documented: `qualified_module_name` matches only the named module; `dotted.*` matches `dotted`
and any submodule; in unstructured patterns "stars match zero or more module components".

No mypy code is imported or copied here: the model is the oracle the real `Options.clone_for_module`
is compared against."""

from __future__ import annotations

from typing import Any

NOTHING = "<unset>"


def comp_match(pat: list[str], mod: list[str]) -> bool:
    """A star stands for zero or more whole components."""
    if not pat:
        return not mod
    if pat[0] == "*":
        return any(comp_match(pat[1:], mod[i:]) for i in range(len(mod) + 1))
    return bool(mod) and mod[0] == pat[0] and comp_match(pat[1:], mod[1:])


def matches(pattern: str, module: str) -> bool:
    return comp_match(pattern.split("."), module.split("."))


def needs_zero_width(pattern: str, module: str) -> bool:
    """True if the pattern matches the module only when some star stands for zero components other than
    the trailing star of `x.*` (which the documentation spells out separately)."""
    pp, mm = pattern.split("."), module.split(".")
    if not comp_match(pp, mm):
        return False

    def m1(pat: list[str], mod: list[str], last: bool) -> bool:  # every non-trailing star takes >=1 component
        if not pat:
            return not mod
        if pat[0] == "*":
            lo = 0 if (len(pat) == 1 and last) else 1
            return any(m1(pat[1:], mod[i:], last) for i in range(lo, len(mod) + 1))
        return bool(mod) and mod[0] == pat[0] and m1(pat[1:], mod[1:], last)

    return not m1(pp, mm, True)


def zero_width_stars(pattern: str, module: str) -> str:
    """Which non-trailing stars must stand for zero components for the pattern to match: '', 'leading', 'inner' or
    'leading+inner' (the minimal requirement: a kind is named only if no match exists without it)."""
    pp, mm = pattern.split("."), module.split(".")
    if not comp_match(pp, mm) or not needs_zero_width(pattern, module):
        return ""

    def m(pat: list[str], mod: list[str], idx: int, lead0: bool, inner0: bool) -> bool:
        if not pat:
            return not mod
        if pat[0] == "*":
            trailing = len(pat) == 1
            if trailing:
                lo = 0
            elif idx == 0:
                lo = 0 if lead0 else 1
            else:
                lo = 0 if inner0 else 1
            return any(m(pat[1:], mod[i:], idx + 1, lead0, inner0) for i in range(lo, len(mod) + 1))
        return bool(mod) and mod[0] == pat[0] and m(pat[1:], mod[1:], idx + 1, lead0, inner0)

    if m(pp, mm, 0, True, False):
        return "leading"
    if m(pp, mm, 0, False, True):
        return "inner"
    return "leading+inner"


def shape(pattern: str) -> str:
    """Abstract form of a pattern (used in mechanism keys; never the concrete names)."""
    parts = pattern.split(".")
    if "*" not in parts:
        return "concrete"
    if parts == ["*"]:
        return "lone-star"
    if parts[-1] == "*" and "*" not in parts[:-1]:
        return "structured"
    lead = parts[0] == "*"
    trail = parts[-1] == "*"
    inner = "*" in parts[1:-1]
    bits = [n for n, f in (("leading", lead), ("inner", inner), ("trailing", trail)) if f]
    return "unstructured-" + "+".join(bits) + "-star"


def klass(pattern: str) -> list[str]:
    """Precedence class(es) of a pattern. The documentation does not say which class a lone `*` belongs to,
    so both readings are allowed for it."""
    s = shape(pattern)
    if s == "concrete":
        return ["concrete"]
    if s == "structured":
        return ["structured"]
    if s == "lone-star":
        return ["structured", "unstructured"]
    return ["unstructured"]


def _specificity(pattern: str) -> int:
    return 0 if pattern == "*" else len(pattern.split(".")) - 1


def section_winners(sections: list[tuple[str, dict[str, Any]]], module: str, option: str,
                    skip: "set[int] | frozenset[int]" = frozenset()) -> list[int | None]:
    """Indices of the sections that may decide `option` for `module` (several only where the documentation
    is ambiguous); [None] if no matching section sets it."""
    cands = [i for i, (p, s) in enumerate(sections) if i not in skip and option in s and matches(p, module)]
    if not cands:
        return [None]
    stars = [i for i in cands if shape(sections[i][0]) == "lone-star"]
    readings: list[dict[int, str]] = [{}]
    for i in stars:
        readings = [dict(r, **{str(i): k}) for r in readings for k in ("structured", "unstructured")]  # type: ignore[dict-item]
    out: list[int | None] = []
    for r in readings:
        def k_of(i: int) -> str:
            return r.get(str(i)) or klass(sections[i][0])[0]  # type: ignore[call-overload]
        conc = [i for i in cands if k_of(i) == "concrete"]
        unst = [i for i in cands if k_of(i) == "unstructured"]
        stru = [i for i in cands if k_of(i) == "structured"]
        if conc:
            w = conc[-1]
        elif unst:
            w = max(unst)  # later in the file wins
        else:
            best = max(_specificity(sections[i][0]) for i in stru)
            w = [i for i in stru if _specificity(sections[i][0]) == best][-1]
        if w not in out:
            out.append(w)
    return out


def effective(sections: list[tuple[str, dict[str, Any]]], module: str, option: str, *, inline: dict[str, Any] | None = None,
              cmdline: dict[str, Any] | None = None, glob: dict[str, Any] | None = None, default: Any = NOTHING,
              skip: "set[int] | frozenset[int]" = frozenset()) -> list[tuple[Any, str]]:
    """Acceptable (value, decided-by) pairs for `option` in `module` under the documented precedence."""
    if inline and option in inline:
        return [(inline[option], "inline")]
    ws = section_winners(sections, module, option, skip)
    out: list[tuple[Any, str]] = []
    for w in ws:
        if w is not None:
            out.append((sections[w][1][option], f"section:{w}"))
        elif cmdline and option in cmdline:
            out.append((cmdline[option], "cmdline"))
        elif glob and option in glob:
            out.append((glob[option], "global"))
        else:
            out.append((default, "default"))
    return out
