"""C15 harness generator: candidate one-operation functions, operand sets, oracle and classifier.

Pure data/logic shared by the parent (checks/c15.py) and the pool workers (vlib/tasks/c15_tasks.py).
Nothing here imports mypy/mypyc: the code under test is reached only through the build helper
(vlib/c15_build.py) and through calling the compiled functions.
"""

from __future__ import annotations

import math
import struct
from typing import Any, Iterator

from vlib import common

FIXED = {"i64": (-(1 << 63), (1 << 63) - 1, 64), "i32": (-(1 << 31), (1 << 31) - 1, 32),
         "i16": (-(1 << 15), (1 << 15) - 1, 16), "u8": (0, 255, 8)}
TYPES = ["int", "bool", "float", "i64", "i32", "i16", "u8"]
ARITH = ["+", "-", "*", "//", "%", "**", "<<", ">>", "&", "|", "^", "/"]
CMP = ["==", "!=", "<", "<=", ">", ">="]
OPNAME = {"+": "add", "-": "sub", "*": "mul", "//": "fdiv", "%": "mod", "**": "pow", "<<": "shl", ">>": "shr",
          "&": "and", "|": "or", "^": "xor", "/": "tdiv", "==": "eq", "!=": "ne", "<": "lt", "<=": "le",
          ">": "gt", ">=": "ge"}
HEADER = ("from __future__ import annotations\nimport math\nfrom mypy_extensions import i64, i32, i16, u8\n\n")
SHORT_MIN, SHORT_MAX = -(1 << 62), (1 << 62) - 1  # tagged short int range on 64-bit


def in_range(t: str, v: int) -> bool:
    lo, hi, _ = FIXED[t]
    return lo <= v <= hi


# --------------------------------------------------------------------------------------------
# candidate functions


def _lit(v: Any) -> str:
    return f"({v!r})" if (isinstance(v, (int, float)) and v < 0) else repr(v)


def _int_lits(op: str) -> tuple[list[int], list[int]]:
    """(right literals, left literals) for an int-typed operand."""
    if op in ("+", "-", "*"):
        return [1, -1, (1 << 62), (1 << 64) + 1], [1, -(1 << 62)]
    if op in ("//", "%"):
        return [2, 4, 1 << 27, 1 << 28, 3, -1, -3, 0, 1 << 63], [1, -7, 1 << 62]
    if op in ("<<", ">>"):
        return [0, 1, 31, 62, 63, 64, 65, -1], [1, -1, 1 << 61]
    if op in ("&", "|", "^"):
        return [0, -1, 255, 1 << 63], [-(1 << 62)]
    if op == "**":
        return [0, 1, 2, 3, 63, -1, -2], [2, -1, 0, 10]
    if op == "/":
        return [2, -1, 0, 1 << 64], [1, -(1 << 62)]
    return [0, -1, (1 << 62) - 1, 1 << 62, 1 << 64], [0, 1 << 62]


def _fixed_lits(t: str, op: str) -> tuple[list[int], list[int]]:
    lo, hi, bits = FIXED[t]
    if op in ("<<", ">>"):
        r = [0, 1, bits - 1, bits, bits + 1, 2 * bits - 2]
        left = [1, hi] + ([-1] if lo < 0 else [])
    elif op in ("//", "%"):
        r = [1, 2, 3, 7, hi, 0] + ([-1, -3, lo] if lo < 0 else [])
        left = [1, hi] + ([lo] if lo < 0 else [])
    elif op in ("/", "**"):
        r = [2, 0, 3] + ([-1] if lo < 0 else [])
        left = [1]
    else:
        r = [0, 1, hi] + ([-1, lo] if lo < 0 else [])
        left = [hi] + ([lo] if lo < 0 else [0])
    return [v for v in r if lo <= v <= hi], [v for v in left if lo <= v <= hi]


FLOAT_LITS = [0.0, 1.0, -1.5, 2.0, 1e308, 0.1]
CONST_INTS = [0, 1, -1, 2, -3, 7, 63, 64, -256, (1 << 31) - 1, (1 << 62) - 1, 1 << 62, -(1 << 62) - 1, -(1 << 63),
              (1 << 64) + 1, 10 ** 30]
CONST_FLOATS = [0.0, -0.0, 1.5, -2.5, 1e308, 3.0]


def candidates() -> list[dict[str, Any]]:
    """All candidate functions. `ret` is filled in later from the static type the real mypy reveals;
    candidates mypy rejects are dropped (cell `rejected-by-mypy`)."""
    out: list[dict[str, Any]] = []

    def add(kind: str, op: str, pt: list[str], body: str, variant: str = "", lit: Any = None,
            expr: str | None = None, params: str | None = None, group: str = "") -> None:
        name = f"f{len(out)}_{kind}_{OPNAME.get(op, op)}_{'_'.join(pt) or 'k'}" + (f"_{variant}" if variant else "")
        name = "".join(c if c.isalnum() or c == "_" else "_" for c in name)
        if params is None:
            params = ", ".join(f"{n}: {t}" for n, t in zip("ab", pt))
        out.append({"name": name, "kind": kind, "op": op, "pt": pt, "params": params, "body": body, "variant": variant,
                    "lit": lit, "expr": expr, "group": group or (pt[0] if pt else "const")})

    pairs: list[tuple[str, str]] = [("int", "int"), ("bool", "bool"), ("int", "bool"), ("bool", "int"),
                                    ("float", "float"), ("float", "int"), ("int", "float"), ("float", "bool")]
    for t in FIXED:
        pairs += [(t, t), (t, "int"), ("int", t), (t, "bool"), (t, "float")]
    pairs += [("i64", "i32"), ("i32", "u8")]  # expected to be rejected by mypy (kept: the cell documents it)
    for t1, t2 in pairs:
        grp = t1 if t1 in FIXED else (t2 if t2 in FIXED else ("float" if "float" in (t1, t2) else "int"))
        for op in ARITH + CMP:
            e = f"a {op} b"
            add("bin" if op in ARITH else "cmp", op, [t1, t2], f"return {e}", expr=e, group=grp)
        for op in CMP:
            add("branch", op, [t1, t2], f"if a {op} b:\n        return 1\n    return 0", "if", expr=f"a {op} b",
                group=grp)
        for op in ("<", "=="):
            add("branch", op, [t1, t2], f"return 10 if not (a {op} b) else 20", "notcond", expr=f"a {op} b", group=grp)
        if t1 != "bool":
            for op in ARITH:
                add("inplace", op, [t1, t2], f"x = a\n    x {op}= b\n    return x", "aug", expr=f"a {op} b", group=grp)
        add("bin", "divmod", [t1, t2], "return divmod(a, b)", expr="divmod(a, b)", group=grp)
    # literal operand variants (constant operands take different lowering paths)
    for t in ["int", "float", "bool"] + list(FIXED):
        for op in ARITH + CMP:
            if t == "float":
                rl, ll = FLOAT_LITS + [2, 0] + ([(1 << 53) + 1] if op in CMP else []), [1.0, 3]
            elif t in FIXED:
                rl, ll = _fixed_lits(t, op)
            elif t == "bool":
                rl, ll = ([1, 0, True] if op not in ("<<", ">>", "**") else [1]), [1]
            else:
                rl, ll = _int_lits(op)
            if op in CMP:
                ll = ll[:1]
            for i, v in enumerate(rl):
                e = f"a {op} {_lit(v)}"
                # literal zero divisors / shift counts >= width have made the C compiler reject the emitted code:
                # keep them in their own small module so that a rejection costs one cheap rebuild
                risky = t in FIXED and ((op in ("<<", ">>") and v >= FIXED[t][2]) or (op in ("//", "%", "/") and v == 0))
                add("lit", op, [t], f"return {e}", f"r{i}", lit=("r", v), expr=e, group="risky" if risky else t + "_lit")
            for i, v in enumerate(ll):
                e = f"{_lit(v)} {op} a"
                add("lit", op, [t], f"return {e}", f"l{i}", lit=("l", v), expr=e, group=t + "_lit")
    # unary operators and builtins
    for t in TYPES:
        for op, e in (("neg", "-a"), ("inv", "~a"), ("pos", "+a"), ("abs", "abs(a)"), ("not", "not a"),
                      ("bool", "bool(a)"), ("truth", "(1 if a else 0)"), ("round", "round(a)"),
                      ("floor", "math.floor(a)"), ("ceil", "math.ceil(a)"), ("negneg", "-(-a)"),
                      ("trunc", "math.trunc(a)")):
            add("un", op, [t], f"return {e}", expr=e, group="unary")
        # explicit conversions to every numeric type, and implicit ones through assignment / return
        for t2 in ["int", "float", "bool"] + list(FIXED):
            if t2 != "bool":
                add("conv", t2, [t], f"return {t2}(a)", "call", expr=f"{t2}(a)", group="conv")
        for t2 in ["int", "float"] + list(FIXED):
            if t2 != t and not (t2 == "float" and t != "float"):  # mypyc: int->float assignment is a compile error
                add("conv", t2, [t], f"x: {t2} = a\n    return x", "assign", expr=None, group="conv")
    # both operands literal: mypyc's constant folding observed through the compiled result
    k = 0
    for op in ARITH + CMP:
        ints = CONST_INTS
        for i, x in enumerate(ints):
            for y in (ints[(i * 7 + j * 5 + len(op)) % len(ints)] for j in range(2)):
                if op == "**" and not (-3 <= y <= 64):
                    continue
                if op == "<<" and not (y <= 130):
                    continue
                k += 1
                e = f"{_lit(x)} {op} {_lit(y)}"
                add("const", op, [], f"return {e}", f"k{k}", lit=(x, y), expr=e, params="", group="const")
        if op not in ("<<", ">>", "&", "|", "^"):
            for i, x in enumerate(CONST_FLOATS):
                for y in (CONST_FLOATS[(i + 2) % len(CONST_FLOATS)], -3):
                    k += 1
                    e = f"{_lit(x)} {op} {_lit(y)}"
                    add("const", op, [], f"return {e}", f"k{k}", lit=(x, y), expr=e, params="", group="const")
    for x in CONST_INTS[:12] + [1.5, -0.0]:
        for u in ("-", "~", "+"):
            if u == "~" and isinstance(x, float):
                continue
            k += 1
            e = f"{u}{_lit(x)}"
            add("const", "u" + u, [], f"return {e}", f"k{k}", lit=(x,), expr=e, params="", group="const")
    return out


def probe_source(cands: list[dict[str, Any]]) -> str:
    """One module where every candidate reveals the static type of its expression."""
    lines = [HEADER]
    for c in cands:
        lines.append(f"def {c['name']}({c['params']}) -> None:")
        if c["expr"] is not None:
            lines.append(f"    reveal_type({c['expr']})")
            if c["kind"] == "inplace":
                lines.append("    x = a")
                lines.append(f"    x {c['op']}= b")
        else:
            lines.append("    " + c["body"].split("\n")[0])
            lines.append("    reveal_type(x)")
        lines.append("")
    return "\n".join(lines)


RET_OF = {"int": "int", "bool": "bool", "float": "float", "Any": "object", "i64": "i64", "i32": "i32", "i16": "i16",
          "u8": "u8", "tuple[int, int]": "tuple[int, int]", "tuple[float, float]": "tuple[float, float]"}
for _t in FIXED:
    RET_OF[f"tuple[{_t}, {_t}]"] = f"tuple[{_t}, {_t}]"


def ret_type_of(revealed: str) -> str | None:
    """Declared return type = the static type the real mypy computed for the expression (None: not generated)."""
    r = revealed.replace("builtins.", "").replace("mypy_extensions.", "").strip()
    if " | " in r:
        parts = {ret_type_of(x) for x in r.split(" | ")}
        return parts.pop() if len(parts) == 1 else None
    r = r.rstrip("?")
    if r.startswith("Literal["):
        inner = r[8:-1]
        if inner in ("True", "False"):
            return "bool"
        return "int" if inner.lstrip("-").isdigit() else None
    return RET_OF.get(r)


def function_source(c: dict[str, Any]) -> str:
    return f"def {c['name']}({c['params']}) -> {c['ret']}:\n    {c['body']}\n"


def apply_probe(cands: list[dict[str, Any]], source: str, types: dict[Any, str], errors: dict[Any, str],
                ) -> tuple[list[dict[str, Any]], dict[str, int]]:
    """Keep the candidates the real mypy accepts; declared return type := revealed static type."""
    owner: dict[int, str] = {}
    cur = ""
    for i, ln in enumerate(source.split("\n"), 1):
        if ln.startswith("def "):
            cur = ln[4:ln.index("(")]
        owner[i] = cur
    rev = {owner[int(k)]: v for k, v in types.items()}
    bad = {owner[int(k)] for k in errors}
    acc: list[dict[str, Any]] = []
    why: dict[str, int] = {}
    for c in cands:
        if c["name"] in bad:
            why["rejected-by-mypy"] = why.get("rejected-by-mypy", 0) + 1
            continue
        rt = ret_type_of(rev[c["name"]]) if c["name"] in rev else None
        if rt is None:
            k = "static-type-outside-harness:" + str(rev.get(c["name"]))[:40]
            why[k] = why.get(k, 0) + 1
            continue
        if c["kind"] == "inplace" and rt != c["pt"][0] and not (c["pt"][0] == "int" and rt in FIXED):
            # `x = a; x op= b` where the static type of `a op b` is not the type of x: the assignment converts
            # (int ** negative is float, ...): documented boundary behaviour, not a numeric primitive
            k = "inplace-result-type-differs-from-variable"
            why[k] = why.get(k, 0) + 1
            continue
        c = dict(c)
        c["static"] = rt
        c["ret"] = "int" if c["kind"] == "branch" else rt
        acc.append(c)
    return acc, why


def module_sources(specs: list[dict[str, Any]], n_modules: int) -> list[tuple[list[dict[str, Any]], str]]:
    """Partition accepted functions into modules (by group, then balanced); return [(specs, source)]."""
    groups: dict[str, list[dict[str, Any]]] = {}
    for s in specs:
        groups.setdefault(s["group"], []).append(s)
    risky = groups.pop("risky", [])
    rest = sum(len(v) for v in groups.values())
    bins: list[list[dict[str, Any]]] = [[] for _ in range(n_modules)]
    per = max(1, (rest + n_modules - 1) // n_modules)
    for gname in sorted(groups, key=lambda k: (-len(groups[k]), k)):
        chunk = groups[gname]
        for i in range(0, len(chunk), per):
            min(bins, key=len).extend(chunk[i:i + per])
    if risky:
        bins.append(risky)
    return [(b, HEADER + "\n".join(function_source(s) for s in b)) for b in bins if b]


# --------------------------------------------------------------------------------------------
# operand sets

KS = (7, 8, 15, 16, 31, 32, 62, 63, 64)


def int_boundary() -> list[int]:
    s = {0, 1, -1, 2, -2, 3, -3, 10 ** 30, -(10 ** 30), 255, 256, -255, -256, 10, -10, 100, 1000003}
    for k in KS + (30, 61, 127, 128):
        for d in (-1, 0, 1):
            s.add((1 << k) + d)
            s.add(-(1 << k) + d)
    r = common.rng_for("C15", "int-boundary-extra")
    for _ in range(6):
        s.add(r.getrandbits(64) - (1 << 63))
        s.add(r.getrandbits(128) - (1 << 127))
    return sorted(s)


def fixed_boundary(t: str) -> list[int]:
    lo, hi, bits = FIXED[t]
    s = {0, 1, 2, 3, 7, hi, hi - 1, lo, lo + 1, 255, 256, -1, -2}
    for k in range(0, bits + 1):
        if k in KS or k < 4 or k >= bits - 2:
            for d in (-1, 0, 1):
                s.add((1 << k) + d)
                s.add(-(1 << k) + d)
    s |= {bits - 1, bits, bits + 1, 2 * bits - 2, 2 * bits - 1, 2 * bits, 32, 33, 63, 64, 65, 126, 127, 128}
    # in range, plus exactly these out-of-range values (conversion must reject them)
    s = {v for v in s if lo <= v <= hi} | {hi + 1, lo - 1, 1 << 63, 1 << 64, -(1 << 63) - 1, -(1 << 64), 10 ** 30, -(1 << 62) - 1}
    r = common.rng_for("C15", "fixed-boundary-extra", t)
    for _ in range(6):
        s.add(r.randint(lo, hi))
    return sorted(s)


def float_boundary() -> list[float]:
    s = [0.0, -0.0, 1.0, -1.0, 0.5, -0.5, 1.5, -1.5, 2.5, -2.5, 3.7, -3.7, 0.1, -0.99, 1e-5, 255.5, 256.0, -129.0,
         5e-324, -5e-324, 1e-320, 2.2250738585072014e-308, 1e16, -1e16, 1e22, 1e308, -1e308,
         1.7976931348623157e308, -1.7976931348623157e308, math.inf, -math.inf, math.nan, 1e300, 1e-300, 3.0, -2.0, 2.0,
         4611686018427387904.0 - 512, -4611686018427387904.0, 9007199254740993.0, 0.3333333333333333]
    for k in (7, 8, 15, 16, 31, 32, 52, 53, 62, 63, 64, 127, 1023):
        for sg in (1.0, -1.0):
            v = sg * math.ldexp(1.0, k)
            s += [v, math.nextafter(v, 0.0), math.nextafter(v, sg * math.inf)]
            if k <= 53:
                s += [v + 0.5 * sg if k < 52 else v, v - 1.0 * sg]
    seen: set[bytes] = set()
    out = []
    for v in s:
        b = struct.pack("<d", v)
        if b not in seen:
            seen.add(b)
            out.append(v)
    return out


SHIFT_COUNTS = [0, 1, 2, 3, 7, 8, 9, 15, 16, 17, 30, 31, 32, 33, 61, 62, 63, 64, 65, 66, 126, 127, 128, 129, 200, -1, -2,
                -64, (1 << 62), (1 << 64), -(1 << 63)]
POW_EXPS = [0, 1, 2, 3, 4, 5, 6, 7, 8, 15, 16, 31, 32, 33, 62, 63, 64, 65, -1, -2, -3]


def boundary_set(t: str) -> list[Any]:
    if t == "int":
        return int_boundary()
    if t == "bool":
        return [False, True]
    if t == "float":
        return float_boundary()
    return fixed_boundary(t)


def random_value(t: str, r: Any) -> Any:
    if t == "bool":
        return r.random() < 0.5
    if t == "float":
        c = r.random()
        if c < 0.4:
            return struct.unpack("<d", struct.pack("<Q", r.getrandbits(64)))[0]
        if c < 0.6:
            return r.uniform(-1000, 1000)
        if c < 0.75:
            return float(r.randint(-(1 << 65), 1 << 65))
        if c < 0.9:
            return math.ldexp(r.random() * 2 - 1, r.randint(-80, 80))
        return float(r.randint(-300, 300)) / 2
    if t == "int":
        c = r.random()
        if c < 0.25:
            return r.getrandbits(64) - (1 << 63)
        if c < 0.4:
            return r.getrandbits(128) - (1 << 127)
        if c < 0.55:
            return r.randint(-1000, 1000)
        if c < 0.75:
            k = r.choice(KS + (61,))
            return r.choice((1, -1)) * (1 << k) + r.randint(-3, 3)
        if c < 0.9:
            return r.getrandbits(32) - (1 << 31)
        return r.getrandbits(r.randint(1, 200)) * r.choice((1, -1))
    lo, hi, bits = FIXED[t]
    c = r.random()
    if c < 0.5:
        return r.randint(lo, hi)
    if c < 0.7:
        return r.randint(max(lo, -200), min(hi, 200))
    if c < 0.9:
        return r.choice((lo, hi)) + r.randint(-3, 3)  # 3 of 7 are just outside the range
    if c < 0.96:
        return r.choice((1, -1)) * (1 << r.randint(0, bits - 1)) + r.randint(-1, 1)
    return r.getrandbits(70) - (1 << 69)


def second_operand_override(spec: dict[str, Any]) -> str | None:
    """Shift counts and exponents come from their own sets (huge values only exhaust memory)."""
    if spec["op"] in ("<<", ">>"):
        return "count"
    if spec["op"] == "**":
        return "exp"
    return None


def operand_sets(spec: dict[str, Any]) -> list[list[Any]]:
    pt = spec["pt"]
    sets = [boundary_set(t) for t in pt]
    ov = second_operand_override(spec)
    if ov and spec["kind"] != "lit" and len(pt) == 2 and pt[1] != "float" and pt[1] != "bool":
        base = SHIFT_COUNTS if ov == "count" else POW_EXPS
        if pt[1] in FIXED:
            lo, hi, bits = FIXED[pt[1]]
            base = sorted({v for v in base if lo <= v <= hi} | {hi + 1, lo - 1} | ({hi, lo} if ov == "count" else set()))
        sets[1] = list(base)
    return sets


def random_operands(spec: dict[str, Any], r: Any) -> tuple[Any, ...]:
    pt = spec["pt"]
    vals = [random_value(t, r) for t in pt]
    ov = second_operand_override(spec)
    if ov and spec["kind"] != "lit" and len(pt) == 2 and pt[1] not in ("float", "bool"):
        if ov == "count":
            vals[1] = r.choice(SHIFT_COUNTS) if r.random() < 0.3 else r.randint(-3, 140)
        else:
            vals[1] = r.randint(-4, 70)
        if pt[1] in FIXED and not in_range(pt[1], vals[1]) and r.random() < 0.8:
            lo, hi, _ = FIXED[pt[1]]
            vals[1] = max(lo, min(hi, vals[1]))
    return tuple(vals)


def admissible(spec: dict[str, Any], args: tuple[Any, ...]) -> bool:
    """False for operand tuples that are harness artefacts (resource blow-ups), never for value reasons."""
    op = spec["op"]
    if op in ("<<", "**"):
        _, vals, _ = operands(spec, args)
        if len(vals) != 2:
            return True
        a, b = vals
        if isinstance(a, int) and isinstance(b, int):
            if op == "<<" and b > 4096 and a != 0:
                return False  # MemoryError / minutes of work in both implementations
            if op == "**" and abs(b) > 4096 and abs(a) > 1:
                return False
    return True


# --------------------------------------------------------------------------------------------
# oracle


def same(c: Any, e: Any) -> bool:
    """Exact equality: same type, same value; floats bitwise except that all NaNs are one value."""
    if type(c) is not type(e):
        return False
    if type(e) is float:
        if e != e:
            return c != c
        return c == e and (e != 0.0 or math.copysign(1.0, c) == math.copysign(1.0, e))
    if type(e) is tuple:
        return len(c) == len(e) and all(same(x, y) for x, y in zip(c, e))
    if type(e) is complex:
        return same(c.real, e.real) and same(c.imag, e.imag)
    return bool(c == e)


def rep_class(t: str, v: Any) -> str:
    if t == "bool":
        return "bool"
    if t == "float":
        if v != v:
            return "nan"
        if v in (math.inf, -math.inf):
            return "inf"
        if v == 0.0:
            return "zero"
        return "fin" if abs(v) < 9.3e18 else "huge"
    if t == "int":
        return "short" if SHORT_MIN <= v <= SHORT_MAX else "long"
    lo, hi, _ = FIXED[t]
    if v < lo:
        return "below"
    if v > hi:
        return "above"
    return "edge" if v in (lo, hi) else "in"


U8_WRAP_OPS = {"+", "-", "*", "<<", "neg", "inv", "negneg"}
CONV_EXC = ("OverflowError", "ValueError", "TypeError")


def _fixed_of(spec: dict[str, Any]) -> str | None:
    for t in spec["pt"]:
        if t in FIXED:
            return t
    return None


def expectation(spec: dict[str, Any], args: tuple[Any, ...], exp: tuple[str, Any]) -> tuple[Any, ...]:
    """What the property demands of the compiled call, given the interpreter's outcome `exp`.

    Returns one of
      ("value", v)        compiled must return exactly v
      ("raise", names)    compiled must raise one of the named exception types
      ("free", why)       the property states nothing (fixed-width result that does not fit, ...)
    """
    pt = spec["pt"]
    ret = spec["ret"]
    fx = _fixed_of(spec)
    # 1. an argument that does not fit its fixed-width parameter type must be rejected at the call boundary
    for t, v in zip(pt, args):
        if t in FIXED and not in_range(t, v):
            return ("raise", CONV_EXC, f"int->{t}:{'below' if v < FIXED[t][0] else 'above'}:call-boundary")
    # 2. mixed fixed-width/int operations coerce the int operand to the fixed-width type (documented: sticky)
    if fx and spec["kind"] in ("bin", "cmp", "branch", "inplace") and spec["op"] != "divmod":
        for t, v in zip(pt, args):
            if t == "int" and not in_range(fx, v):
                if spec["op"] in ("/",) or (spec["op"] in ("**",)):
                    break  # not a native fixed-width operation: falls back to int semantics
                return ("raise", CONV_EXC, f"int->{fx}:{'below' if v < FIXED[fx][0] else 'above'}:operand-coercion")
    if exp[0] == "e":
        return ("raise", (exp[1],))
    v = exp[1]
    rts = [ret] if not ret.startswith("tuple[") else ret[6:-1].split(", ")
    vs = [v] if not ret.startswith("tuple[") else list(v)
    if any(rt in FIXED and not in_range(rt, x) for rt, x in zip(rts, vs)):
        if spec["kind"] == "conv" and spec["pt"][0] in ("int", "bool"):
            # converting an int: rejected exactly when out of range
            return ("raise", CONV_EXC, f"int->{ret}:{'below' if v < FIXED[ret][0] else 'above'}:{spec['variant']}-conversion")
        if ret == "u8" and spec["op"] in U8_WRAP_OPS and spec["kind"] in ("bin", "inplace", "lit", "un", "const"):
            return ("value", v % 256)
        return ("free", "fixed-width result does not fit")
    if (ret == "int" or ret in FIXED) and type(v) is bool:
        return ("value", int(v))  # documented: bool-ness of an int-typed value is not preserved
    if ret.startswith("tuple[") and any(type(x) is bool for x in vs):
        return ("value", tuple(int(x) if type(x) is bool else x for x in vs))
    return ("value", v)


def operands(spec: dict[str, Any], args: tuple[Any, ...]) -> tuple[list[str], list[Any], str]:
    """(operand types, operand values, variant) of the operation itself: literal operands are put back in place."""
    pt = list(spec["pt"])
    vals = list(args)
    variant = ""
    if spec["kind"] == "lit":
        side, v = spec["lit"]
        lt = "float" if isinstance(v, float) else ("bool" if isinstance(v, bool) else (pt[0] if pt[0] in FIXED else "int"))
        if side == "r":
            pt, vals, variant = pt + [lt], vals + [v], "literal-right"
        else:
            pt, vals, variant = [lt] + pt, [v] + vals, "literal-left"
    elif spec["kind"] == "const":
        vals = list(spec["lit"])
        pt = ["float" if isinstance(v, float) else "int" for v in vals]
        variant = "constant-folded"
    return pt, vals, variant


def _tclass(t: str) -> str:
    return "sN" if t in ("i64", "i32", "i16") else t


def _inexact_as_float(v: Any) -> str:
    if isinstance(v, float) or isinstance(v, bool):
        return "exact"
    try:
        return "exact" if int(float(v)) == v else "inexact"
    except OverflowError:
        return "too-large"


def _kclass(t: str, v: Any) -> str:
    c = rep_class(t, v)
    return "in" if c == "edge" else c


def mechanism(spec: dict[str, Any], args: tuple[Any, ...]) -> str:
    """Which value-dependent path of the implementation the witness selects. Recognisers for paths whose
    behaviour depends on one coarse condition come first (one defect -> one key, reached by the deterministic
    boundary set, hence stable across seeds); the fallback spells out op, operand types and representation
    classes. Operand *values* never enter."""
    op = spec["op"]
    pt, vals, variant = operands(spec, args)
    fx = next((t for t in pt if t in FIXED), None)
    if spec["kind"] not in ("conv", "un") and len(vals) == 2:
        a, b = vals
        if op in ("<<", ">>") and isinstance(b, int) and not isinstance(a, float):
            if fx:
                width = FIXED[fx][2]
                cr = "count<0" if b < 0 else ("count<width" if b < width else "count>=width")
                if all(t not in FIXED or in_range(t, v) for t, v in zip(pt, vals)):
                    # a literal left operand is emitted as a plain C int: its own path while the count is in range
                    lit_left = variant == "literal-left" and cr == "count<width"
                    return f"fixed-width-shift:{'literal-left:' if lit_left else ''}{cr}"
                return f"{op}:{','.join(_tclass(t) for t in pt)}:{variant}:{cr}:operand-out-of-range"
            cr = "count<0" if b < 0 else ("count<64" if b < 64 else "count>=64")
            return f"{op}:{','.join(pt)}:{variant}:{cr}:{_kclass(pt[0], a)}"
        kinds = {("float" if t == "float" else "intlike") for t in pt}
        if kinds == {"float", "intlike"} and not fx:
            iv = b if pt[0] == "float" else a
            fam = "compare" if op in CMP else op
            return f"int-float-mixed:{fam}:int-{_inexact_as_float(iv)}-as-float"
        if op == "/" and "float" not in pt and b != 0:
            ex = {_inexact_as_float(a), _inexact_as_float(b)}
            why = "too-large" if "too-large" in ex else ("inexact" if "inexact" in ex else "exact")
            return f"int-truediv:operand-{why}-as-float"
        if op in ("//", "%", "divmod", "/"):
            if b == 0:
                return f"{op}:{','.join(_tclass(t) for t in pt)}:{variant}:zero-divisor"
            if a == a and b == b:
                sg = ("neg" if a < 0 else "nonneg") + "/" + ("neg" if b < 0 else "pos")
                return (f"{op}:{','.join(_tclass(t) for t in pt)}:{variant}:{sg}:"
                        + ",".join(_kclass(t, v) for t, v in zip(pt, vals)))
    return (f"{op}:{','.join(_tclass(t) for t in pt) or '-'}:{variant}:"
            + (",".join(_kclass(t, v) for t, v in zip(pt, vals)) or "-"))


def regime(spec: dict[str, Any], args: tuple[Any, ...]) -> str:
    return mechanism(spec, args)


def outcome_class(o: tuple[str, Any]) -> str:
    return "exc:" + o[1] if o[0] == "e" else "value"


def describe(spec: dict[str, Any]) -> str:
    return f"{spec['kind']}:{spec['op']}:{','.join(spec['pt']) or 'literals'}"


def violation_key(spec: dict[str, Any], args: tuple[Any, ...], want: tuple[Any, ...], got: tuple[str, Any]) -> str:
    """Mechanism key = (how the outcome differs) : (path selected by the witness). Never operand values."""
    if want[0] == "raise":
        if tuple(want[1]) == CONV_EXC:
            what = "out-of-range-int-accepted" if got[0] == "v" else f"conversion-raises-{got[1]}"
            if len(want) > 2:
                return f"{what}:{want[2]}"  # the mechanism is the conversion, whatever operation follows it
        elif got[0] == "v":
            what = f"no-{want[1][0]}"
        else:
            what = f"{got[1]}-instead-of-{want[1][0]}"
    elif got[0] == "e":
        what = f"spurious-{got[1]}"
    elif type(got[1]) is not type(want[1]):
        what = f"result-type-{type(got[1]).__name__}-not-{type(want[1]).__name__}"
    else:
        what = "wrong-value"
    kind = spec["kind"] + ":" if spec["kind"] in ("conv", "un") else ""
    return f"{what}:{kind}{mechanism(spec, args)}"


def iter_boundary(spec: dict[str, Any]) -> Iterator[tuple[Any, ...]]:
    sets = operand_sets(spec)
    if not sets:
        yield ()
    elif len(sets) == 1:
        for a in sets[0]:
            yield (a,)
    else:
        for a in sets[0]:
            for b in sets[1]:
                yield (a, b)
