"""Program generator for the mypyc-supported typed fragment (shared by C05 and C06).

A *program* is three modules (<p>_a defines the prelude classes/helpers, <p>_b and <p>_c import from it, so that
single-group, multi_file and separate compilation all have cross-module native calls) holding *units*: one or more
top-level definitions plus the driver calls that exercise them with generated argument values.  Units are typed by
construction; when mypy/mypyc still reject one, the harness drops exactly that unit and recompiles.

Two kinds of units:
  * template units: one construct (container primitive x element representation, for-loop helper, call shape,
    class feature, generator, closure, exception form, uninitialised read, ...) instantiated with random types/values;
  * free-form units: random typed statement/expression trees over locals of many representations (and, in the "mem"
    dialect, over hostile `Any` values whose special methods are counted callbacks that can be forced to raise).

All randomness comes from the random.Random handed in (common.rng_for).  Part 1 of this file: types, literals,
argument values, typed expression generator.  Part 2 (c05_gen_units.py): statements, units, programs.
"""

from __future__ import annotations

import random
from typing import Any, Callable

# ---------------------------------------------------------------------------------------------------------
# types are canonical annotation strings


def targs(t: str) -> tuple[str, list[str]]:
    """'dict[str, list[int]]' -> ('dict', ['str', 'list[int]'])"""
    if "[" not in t:
        return t, []
    head, rest = t.split("[", 1)
    rest = rest[:-1]
    out: list[str] = []
    depth = 0
    cur = ""
    for ch in rest:
        if ch == "[":
            depth += 1
        elif ch == "]":
            depth -= 1
        if ch == "," and depth == 0:
            out.append(cur.strip())
            cur = ""
        else:
            cur += ch
    if cur.strip():
        out.append(cur.strip())
    return head, out


ELEMS = ["int", "float", "bool", "str", "i64", "Pt", "Optional[int]", "tuple[int, str]", "list[int]"]
SORTABLE = ["int", "float", "str", "bool", "i64", "tuple[int, str]"]
HASHABLE = ["int", "str", "bool", "tuple[int, str]", "i64", "float"]
LIST_TYPES = [f"list[{e}]" for e in ELEMS]
DICT_TYPES = ["dict[str, int]", "dict[int, str]", "dict[str, str]", "dict[int, int]", "dict[str, float]",
              "dict[str, list[int]]", "dict[int, Pt]", "dict[str, bool]", "dict[tuple[int, str], int]", "dict[i64, i64]",
              "dict[str, Optional[int]]"]
SET_TYPES = ["set[int]", "set[str]", "set[tuple[int, str]]", "set[i64]"]
TUPLE_TYPES = ["tuple[int, str]", "tuple[int, int]", "tuple[str, float]", "tuple[bool, int, str]", "tuple[int, tuple[int, str]]",
               "tuple[i64, float]", "tuple[Pt, int]"]
OPT_TYPES = ["Optional[int]", "Optional[str]", "Optional[Pt]", "Optional[list[int]]"]
SCALARS = ["int", "float", "bool", "str", "i64"]
ALL_TYPES = SCALARS + ["bytes", "Pt"] + LIST_TYPES + DICT_TYPES + SET_TYPES + TUPLE_TYPES + OPT_TYPES
PARAM_TYPES = SCALARS * 3 + ["Pt", "Pt", "bytes"] + LIST_TYPES * 2 + DICT_TYPES + SET_TYPES + TUPLE_TYPES + OPT_TYPES

INT_POOL = [0, 1, -1, 2, 3, 5, 7, 10, -4, 13, 100, 255, -128, 1000, 65535, 2 ** 31 - 1, 2 ** 31, -2 ** 31, 2 ** 61,
            2 ** 62 - 1, 2 ** 62, -2 ** 62, -2 ** 62 - 1, 2 ** 63 - 1, 2 ** 63, -2 ** 63, 2 ** 64 + 1, 10 ** 20, -10 ** 25]
SMALL_INTS = [0, 1, -1, 2, 3, 4, 5, 7, 10, -3, 12]
I64_POOL = [0, 1, -1, 2, 7, 100, -50, 4096, 2 ** 31, -2 ** 31 - 5, 2 ** 40]
FLOAT_POOL = ["0.0", "-0.0", "0.5", "1.5", "2.0", "-3.75", "1e10", "1e-7", "123.456", "1e100", "-2.5"]
STR_POOL = ["", "a", "abc", "hello world", "Hello", "a,b,c", "  pad  ", "123", "-7", "xyz" * 4, "ß", "été",
            "日本語", "\U0001F600x", "tab\there", "line\nbreak", "UPPER", "k1", "k2", "b"]
BYTES_POOL = [b"", b"a", b"abc", b"\x00\xff", b"hello world", b"1,2"]


# Free-form units keep every int inside the ssize_t range: an index beyond it raises OverflowError instead of IndexError in
# compiled code (a finding that the template units report with a precise key); in a free-form unit its downstream effects
# would surface under accidental keys.
WORD_INTS = [False]


def lit(t: str, rng: random.Random, small: bool = False) -> str:
    """A literal (constant expression valid inside the compiled module) of type t."""
    h, a = targs(t)
    if t == "int":
        v = rng.choice(SMALL_INTS if small or rng.random() < 0.6 else INT_POOL)
        if WORD_INTS[0] and not -2 ** 63 <= v < 2 ** 63:
            v = 2 ** 63 - 1 - (abs(v) % 1000) if v > 0 else -2 ** 63 + (abs(v) % 1000)
        return str(v) if v >= 0 else f"({v})"
    if t == "i64":
        v = rng.choice(I64_POOL[:7] if small else I64_POOL)
        return str(v) if v >= 0 else f"({v})"
    if t == "float":
        v = rng.choice(FLOAT_POOL)
        return v if not v.startswith("-") else f"({v})"
    if t == "bool":
        return rng.choice(["True", "False"])
    if t == "str":
        return repr(rng.choice(STR_POOL))
    if t == "bytes":
        return repr(rng.choice(BYTES_POOL))
    if t == "Pt":
        return f"Pt({lit('int', rng, True)}, {lit('int', rng)})"
    if t == "Any":
        return rng.choice(["None", "0", "'s'"])
    if h == "Optional":
        return "None" if rng.random() < 0.35 else lit(a[0], rng, small)
    if h == "list":
        # never empty: an empty display in a nested position has no inferable element type for mypy
        items = [lit(a[0], rng, small) for _ in range(rng.choice([1, 1, 2, 3, 3, 5]))]
        if a[0].startswith("Optional["):
            # [None] alone would be inferred as list[None], [1, 2] as list[int]: always one value and one None
            items = [lit(a[0][9:-1], rng, small), "None"] + items[2:]
        return "[" + ", ".join(items) + "]"
    if h == "set":
        n = rng.choice([1, 2, 3, 4])
        return "{" + ", ".join(lit(a[0], rng, small) for _ in range(n)) + "}"
    if h == "dict":
        n = rng.choice([1, 2, 3, 4])
        vals = [lit(a[1], rng, small) for _ in range(n)]
        if a[1].startswith("Optional["):
            vals = [lit(a[1][9:-1], rng, small), "None"] + vals[2:]
        keys = [lit(a[0], rng, True) for _ in vals]
        if len(vals) == 2 and keys[0] == keys[1] and a[1].startswith("Optional["):
            keys[1] = lit(a[0], rng, False)
        return "{" + ", ".join(f"{k}: {v}" for k, v in zip(keys, vals)) + "}"
    if h == "tuple":
        return "(" + ", ".join(lit(x, rng, small) for x in a) + ("," if len(a) == 1 else "") + ")"
    raise ValueError(t)


def val(t: str, rng: random.Random) -> str:
    """A driver-side expression producing a fresh argument value of exactly type t (no bool for int etc.)."""
    h, a = targs(t)
    if t == "Any":
        k = rng.random()
        if k < 0.7:
            return f"H({rng.choice([0, 1, 2, 3, 5])})"
        return f"H({rng.choice([0, 1, 2])}, [H(1), H(2), H(1)])"
    if t == "str" and rng.random() < 0.25:
        return f"fresh_str({rng.randrange(100)})"
    if t == "int" and rng.random() < 0.1:
        return f"fresh_int({rng.randrange(1000)})" if not WORD_INTS[0] else f"(fresh_int({rng.randrange(1000)}) >> 8)"
    if h == "list":
        n = rng.choice([0, 1, 2, 3, 4, 6, 9])
        return "[" + ", ".join(val(a[0], rng) for _ in range(n)) + "]"
    if h == "set":
        n = rng.choice([0, 1, 3, 5])
        return "set()" if n == 0 else "{" + ", ".join(val(a[0], rng) for _ in range(n)) + "}"
    if h == "dict":
        n = rng.choice([0, 1, 2, 4, 6])
        return "{" + ", ".join(f"{lit(a[0], rng, rng.random() < 0.8)}: {val(a[1], rng)}" for _ in range(n)) + "}"
    if h == "tuple":
        return "(" + ", ".join(val(x, rng) for x in a) + ("," if len(a) == 1 else "") + ")"
    if h == "Optional":
        return "None" if rng.random() < 0.3 else val(a[0], rng)
    return lit(t, rng)


# ---------------------------------------------------------------------------------------------------------
# typed expression generator

class Prod:
    """Producer of type `res`: template with {0},{1}.. holes of types `args` ('v:T' = must be a variable)."""
    __slots__ = ("tmpl", "args", "tag", "w")

    def __init__(self, tmpl: str, args: list[str], tag: str, w: float = 1.0) -> None:
        self.tmpl, self.args, self.tag, self.w = tmpl, args, tag, w


_PRODS: dict[str, list[Prod]] = {}


def _p(res: str, tmpl: str, args: list[str], tag: str, w: float = 1.0) -> None:
    _PRODS.setdefault(res, []).append(Prod(tmpl, args, tag, w))


def _build_tables() -> None:
    I, F, B, S = "int", "float", "bool", "str"
    for op, tag in (("+", "add"), ("-", "sub"), ("*", "mul"), ("&", "and"), ("|", "or"), ("^", "xor")):
        _p(I, "({0} %s {1})" % op, [I, I], "int." + tag, 1.5)
    _p(I, "({0} // {1})", [I, I], "int.floordiv")
    _p(I, "({0} % {1})", [I, I], "int.mod")
    _p(I, "({0} << ({1} & 31))", [I, I], "int.lshift", 0.5)
    _p(I, "({0} >> ({1} & 63))", [I, I], "int.rshift", 0.5)
    _p(I, "(-{0})", [I], "int.neg")
    _p(I, "(~{0})", [I], "int.invert", 0.5)
    _p(I, "abs({0})", [I], "int.abs", 0.5)
    _p(I, "({0} ** ({1} & 3))", [I, I], "int.pow", 0.4)
    _p(I, "min({0}, {1})", [I, I], "min.int", 0.5)
    _p(I, "max({0}, {1})", [I, I], "max.int", 0.5)
    _p(I, "divmod({0}, {1})[1]", [I, I], "divmod", 0.3)
    _p(I, "({0} if {1} else {2})", [I, B, I], "condexpr.int")
    _p(I, "int({0})", [F], "int(float)", 0.5)
    _p(I, "int({0})", [S], "int(str)", 0.4)
    _p(I, "int({0})", [B], "int(bool)", 0.4)
    _p(I, "int({0})", ["i64"], "int(i64)", 0.6)
    _p(I, "len({0})", [S], "len.str")
    _p(I, "len({0})", ["bytes"], "len.bytes", 0.3)
    _p(I, "ord({0}[{1}])", [S, I], "ord", 0.3)
    _p(I, "{0}.find({1})", [S, S], "str.find", 0.5)
    _p(I, "{0}.count({1})", [S, S], "str.count", 0.3)
    _p(I, "{0}[{1}]", ["bytes", I], "bytes.getitem", 0.3)
    _p(I, "{0}.x", ["Pt"], "attr.get.int")
    _p(I, "{0}.norm1()", ["Pt"], "method.call")
    _p(I, "{0}.dot({1})", ["Pt", "Pt"], "method.call2", 0.5)
    _p(I, "round({0})", [F], "round", 0.3)
    _p(I, "({0} or {1})", [I, I], "or.int", 0.3)
    _p(I, "({0} and {1})", [I, I], "and.int", 0.3)
    _p(I, "add3({0}, {1})", [I, I], "call.native.defaults", 0.6)
    _p(I, "add3({0}, {1}, c={2})", [I, I, I], "call.native.kw", 0.6)
    _p(I, "sum_all({0}, {1})", [I, I], "call.native.star", 0.4)
    _p(I, "({0} if {0} is not None else {1})", ["v:Optional[int]", I], "optional.narrow")
    _p(I, "hash({0})", [I], "hash.int", 0.2)
    # implicit coercions between representations (values are only used numerically: the exact type of an int is a
    # documented difference, its value is not)
    _p(I, "({0} + {1})", [I, B], "coerce.bool->int.add", 0.8)
    _p(I, "({1} - {0})", [B, I], "coerce.bool->int.sub", 0.4)
    _p(I, "({0} * {1})", [B, I], "coerce.bool->int.mul", 0.4)
    _p(I, "add3({0}, {1})", [B, I], "coerce.bool->int.arg", 0.6)
    _p(I, "add3({0}, c={1})", [I, B], "coerce.bool->int.kwarg", 0.4)
    _p(I, "(Pt({0}, {1}).x + 0)", [B, I], "coerce.bool->int.attr", 0.3)
    _p(I, "{0}[{1}]", ["list[int]", B], "coerce.bool->int.index", 0.4)
    _p(I, "({0} + {1})", [I, "i64"], "coerce.i64->int.add", 0.5)
    _p(I, "add3({0}, {1})", ["i64", I], "coerce.i64->int.arg", 0.4)
    _p(F, "scale({0})", [I], "coerce.int->float.arg", 0.8)
    _p(F, "scale({0}, {1})", [F, I], "coerce.int->float.arg2", 0.5)
    _p(F, "scale({0})", [B], "coerce.bool->float.arg", 0.3)
    _p(F, "({0} + {1})", [F, B], "coerce.bool->float.add", 0.3)
    _p(F, "scale({0}, k={1})", [F, F], "call.native.float", 0.4)
    _p("i64", "({0} + i64({1} % 1000)) % 100003", ["i64", I], "coerce.int->i64.add", 0.5)
    _p("i64", "({0} + {1}) % 100003", ["i64", B], "coerce.bool->i64.add", 0.3)
    _p("i64", "idi64({0} % 4096)", [I], "coerce.int->i64.arg", 0.5)
    _p("i64", "(idi64({0}) + 0)", [B], "coerce.bool->i64.arg", 0.3)
    _p("Optional[int]", "optid({0})", [I], "coerce.int->optional.arg", 0.5)
    _p("Optional[int]", "optid({0})", ["v:Optional[int]"], "call.native.optional", 0.5)
    _p("tuple[int, str]", "tupid(({0}, {1}))", [I, S], "coerce.tuple.arg", 0.5)
    _p("tuple[int, str]", "tupid({0})", ["tuple[int, str]"], "call.native.tuple", 0.3)
    for e in ELEMS:
        L = f"list[{e}]"
        _p(I, "len({0})", [L], "len.list")
        _p(e, "{0}[{1}]", [L, I], f"list.getitem[{e}]", 2.5)
        _p(e, "{0}[{1}]", [L, "i64"], f"list.getitem.i64idx[{e}]", 0.7)
        _p(e, "{0}[-1]", [L], f"list.getitem.neg1[{e}]", 0.6)
        _p(e, "{0}[0]", [L], f"list.getitem.0[{e}]", 0.6)
        _p(e, "{0}.pop()", ["v:" + L], f"list.pop[{e}]", 0.7)
        _p(e, "{0}.pop({1})", ["v:" + L, I], f"list.pop_i[{e}]", 0.5)
        _p(L, "[{0}, {1}]", [e, e], f"list.literal[{e}]")
        _p(L, "({0} + {1})", [L, L], f"list.concat[{e}]", 0.6)
        _p(L, "({0} * ({1} & 3))", [L, I], f"list.mul[{e}]", 0.5)
        _p(L, "(({1} & 3) * {0})", [L, I], f"list.rmul[{e}]", 0.3)
        _p(L, "{0}[{1}:{2}]", [L, I, I], f"list.slice[{e}]", 0.8)
        _p(L, "{0}[{1}:]", [L, I], f"list.slice_from[{e}]", 0.4)
        _p(L, "{0}[:{1}]", [L, I], f"list.slice_to[{e}]", 0.4)
        _p(L, "{0}[::-1]", [L], f"list.slice_rev[{e}]", 0.4)
        _p(L, "{0}.copy()", [L], f"list.copy[{e}]", 0.4)
        _p(L, "list({0})", [L], f"list.list[{e}]", 0.4)
        _p(L, "list(reversed({0}))", [L], f"list.reversed[{e}]", 0.4)
        _p(L, "[__x for __x in {0}]", [L], f"listcomp.id[{e}]", 0.5)
        _p(I, "{0}.count({1})", [L, e], f"list.count[{e}]", 0.4)
        _p(I, "{0}.index({1})", [L, e], f"list.index[{e}]", 0.4)
        _p(B, "({1} in {0})", [L, e], f"list.contains[{e}]", 0.8)
        _p(B, "({1} not in {0})", [L, e], f"list.not_contains[{e}]", 0.3)
        _p(B, "({0} == {1})", [L, L], f"list.eq[{e}]", 0.4)
        _p(B, "bool({0})", [L], "list.bool", 0.2)
    for e in SORTABLE:
        L = f"list[{e}]"
        _p(L, "sorted({0})", [L], f"sorted[{e}]", 0.6)
        _p(L, "sorted({0}, reverse=True)", [L], f"sorted.rev[{e}]", 0.3)
        _p(e, "min({0})", [L], f"min.list[{e}]", 0.4)
        _p(e, "max({0})", [L], f"max.list[{e}]", 0.4)
    _p(I, "sum({0})", ["list[int]"], "sum.int")
    _p(F, "sum({0})", ["list[float]"], "sum.float")
    _p("list[int]", "list(range({0} % 9))", [I], "list.range")
    _p("list[int]", "[__i * {1} for __i in range({0} % 7)]", [I, I], "listcomp.range")
    _p("list[int]", "[__x + {1} for __x in {0} if __x != {2}]", ["list[int]", I, I], "listcomp.filter")
    _p("list[int]", "[len(__s) for __s in {0}]", ["list[str]"], "listcomp.len")
    _p("list[str]", "{0}.split()", [S], "str.split")
    _p("list[str]", "{0}.split({1})", [S, S], "str.split_sep", 0.6)
    _p("list[str]", "[str(__x) for __x in {0}]", ["list[int]"], "listcomp.str")
    _p("list[str]", "list({0})", [S], "list.of_str", 0.4)
    _p("list[str]", "{0}.splitlines()", [S], "str.splitlines", 0.3)
    _p("list[float]", "[float(__x) / 2.0 for __x in {0}]", ["list[int]"], "listcomp.float")
    _p("list[bool]", "[__x > {1} for __x in {0}]", ["list[int]", I], "listcomp.bool")
    _p("list[Pt]", "[Pt(__x, {1}) for __x in {0}]", ["list[int]", I], "listcomp.pt")
    _p("list[tuple[int, str]]", "[(__i, __s) for __i, __s in enumerate({0})]", ["list[str]"], "listcomp.enumerate")
    _p("list[tuple[int, str]]", "list(zip({0}, {1}))", ["list[int]", "list[str]"], "list.zip")
    _p("list[list[int]]", "[[__x, __x * 2] for __x in {0}]", ["list[int]"], "listcomp.nested")
    _p("list[Optional[int]]", "[{1}.get(__k) for __k in {0}]", ["list[str]", "dict[str, int]"], "listcomp.dictget")
    _p("list[i64]", "[i64(__x % 1000) for __x in {0}]", ["list[int]"], "listcomp.i64")
    # bool
    for t in (I, F, S, "i64"):
        for op, tag in (("<", "lt"), ("<=", "le"), ("==", "eq"), ("!=", "ne"), (">", "gt"), (">=", "ge")):
            _p(B, "({0} %s {1})" % op, [t, t], f"cmp.{tag}[{t}]", 0.5)
    _p(B, "({0} < {1} <= {2})", [I, I, I], "cmp.chain", 0.5)
    _p(B, "(not {0})", [B], "not")
    _p(B, "({0} and {1})", [B, B], "and.bool")
    _p(B, "({0} or {1})", [B, B], "or.bool")
    _p(B, "bool({0})", [I], "bool(int)", 0.4)
    _p(B, "bool({0})", [S], "bool(str)", 0.3)
    _p(B, "({0} is None)", ["v:Optional[int]"], "is_none", 0.5)
    _p(B, "({0} is not None)", ["v:Optional[Pt]"], "is_not_none", 0.5)
    _p(B, "{0}.startswith({1})", [S, S], "str.startswith", 0.5)
    _p(B, "{0}.endswith({1})", [S, S], "str.endswith", 0.5)
    _p(B, "({1} in {0})", [S, S], "str.contains", 0.5)
    _p(B, "{0}.isdigit()", [S], "str.isdigit", 0.3)
    _p(B, "({0} == {1})", ["Pt", "Pt"], "dunder.eq", 0.5)
    _p(B, "({0} != {1})", ["Pt", "Pt"], "dunder.ne", 0.3)
    _p(B, "isinstance({0}, Pt3)", ["Pt"], "isinstance.native", 0.5)
    _p(B, "({0} == {1})", ["tuple[int, str]", "tuple[int, str]"], "tuple.eq", 0.5)
    _p(B, "({0} < {1})", ["tuple[int, str]", "tuple[int, str]"], "tuple.lt", 0.3)
    _p(B, "({0} == {1})", [B, B], "cmp.eq[bool]", 0.3)
    _p(B, "any([__x > {1} for __x in {0}])", ["list[int]", I], "any", 0.3)
    _p(B, "all([__x > {1} for __x in {0}])", ["list[int]", I], "all", 0.3)
    _p(B, "({0} if {1} else {2})", [B, B, B], "condexpr.bool", 0.4)
    # float
    for op, tag in (("+", "add"), ("-", "sub"), ("*", "mul")):
        _p(F, "({0} %s {1})" % op, [F, F], "float." + tag, 1.5)
    _p(F, "({0} / {1})", [F, F], "float.truediv")
    _p(F, "({0} / {1})", [I, I], "int.truediv", 0.8)
    _p(F, "({0} // {1})", [F, F], "float.floordiv", 0.4)
    _p(F, "({0} % {1})", [F, F], "float.mod", 0.4)
    _p(F, "(-{0})", [F], "float.neg", 0.5)
    _p(F, "abs({0})", [F], "float.abs", 0.5)
    _p(F, "float({0})", [I], "float(int)", 0.8)
    _p(F, "float({0})", [S], "float(str)", 0.3)
    _p(F, "({0} + {1})", [F, I], "float.add_int", 0.5)
    _p(F, "({0} * {1})", [I, F], "int.mul_float", 0.5)
    _p(F, "({0} if {1} else {2})", [F, B, F], "condexpr.float", 0.5)
    _p(F, "math.sqrt({0})", [F], "math.sqrt", 0.4)
    _p(F, "math.floor({0}) + 0.5", [F], "math.floor", 0.3)
    _p(F, "min({0}, {1})", [F, F], "min.float", 0.3)
    _p(F, "(abs({0}) ** 0.5)", [F], "float.pow", 0.3)
    _p(F, "{0}[1]", ["tuple[str, float]"], "tuple.getitem.float", 0.5)
    # i64 (values stay small: overflow of fixed-width ints is a documented difference and C15's subject)
    _p("i64", "({0} + {1}) % 100003", ["i64", "i64"], "i64.add")
    _p("i64", "({0} - {1}) % 100003", ["i64", "i64"], "i64.sub")
    _p("i64", "(({0} % 1000) * ({1} % 1000))", ["i64", "i64"], "i64.mul", 0.7)
    _p("i64", "({0} // {1})", ["i64", "i64"], "i64.floordiv", 0.5)
    _p("i64", "({0} % {1})", ["i64", "i64"], "i64.mod", 0.5)
    _p("i64", "({0} & {1})", ["i64", "i64"], "i64.and", 0.4)
    _p("i64", "({0} ^ {1})", ["i64", "i64"], "i64.xor", 0.3)
    _p("i64", "i64({0} % 65536)", [I], "i64(int)", 0.8)
    _p("i64", "(-{0})", ["i64"], "i64.neg", 0.4)
    _p("i64", "({0} if {1} else {2})", ["i64", B, "i64"], "condexpr.i64", 0.4)
    _p("i64", "{0}[0]", ["tuple[i64, float]"], "tuple.getitem.i64", 0.4)
    # str
    _p(S, "({0} + {1})", [S, S], "str.concat", 1.5)
    _p(S, "({0} * ({1} & 3))", [S, I], "str.mul", 0.5)
    _p(S, "{0}[{1}]", [S, I], "str.getitem", 1.0)
    _p(S, "{0}[{1}]", [S, "i64"], "str.getitem.i64idx", 0.3)
    _p(S, "{0}[{1}:{2}]", [S, I, I], "str.slice", 0.8)
    _p(S, "{0}[::-1]", [S], "str.slice_rev", 0.3)
    _p(S, "{0}.upper()", [S], "str.upper", 0.4)
    _p(S, "{0}.lower()", [S], "str.lower", 0.4)
    _p(S, "{0}.strip()", [S], "str.strip", 0.4)
    _p(S, "{0}.lstrip({1})", [S, S], "str.lstrip", 0.2)
    _p(S, "{0}.replace({1}, {2})", [S, S, S], "str.replace", 0.5)
    _p(S, "{0}.join({1})", [S, "list[str]"], "str.join", 0.8)
    _p(S, "str({0})", [I], "str(int)", 0.8)
    _p(S, "str({0})", [F], "str(float)", 0.4)
    _p(S, "str({0})", [B], "str(bool)", 0.3)
    _p(S, "str({0})", ["i64"], "str(i64)", 0.3)
    _p(S, "repr({0})", [S], "repr(str)", 0.3)
    _p(S, "str({0})", ["list[int]"], "str(list)", 0.3)
    _p(S, "str({0})", ["Pt"], "dunder.str", 0.4)
    _p(S, "repr({0})", ["Pt"], "dunder.repr", 0.4)
    _p(S, "f'{{({0})}}-{{({1})}}'", [I, S], "fstring", 0.8)
    _p(S, "f'{{({0}):>6}}|{{({1}):.3f}}|{{({2})!r}}'", [I, F, S], "fstring.spec", 0.5)
    _p(S, "f'{{({0}):04d}}{{({1})}}'", [I, B], "fstring.d", 0.3)
    _p(S, "'%s=%d' % ({0}, {1})", [S, I], "percent.format", 0.4)
    _p(S, "'{{}}:{{}}'.format({0}, {1})", [S, I], "str.format", 0.4)
    _p(S, "chr(({0} % 500) + 32)", [I], "chr", 0.3)
    _p(S, "({0} if {1} else {2})", [S, B, S], "condexpr.str", 0.6)
    _p(S, "({0} or {1})", [S, S], "or.str", 0.3)
    _p(S, "{0}[1]", ["tuple[int, str]"], "tuple.getitem.str", 0.6)
    _p(S, "{0}.decode('latin-1')", ["bytes"], "bytes.decode", 0.3)
    _p(S, "{0}.name", ["Pt3"], "attr.get.str", 0.5)
    _p(S, "{0}.partition({1})[0]", [S, S], "str.partition", 0.2)
    _p(S, "({0} if {0} is not None else {1})", ["v:Optional[str]", S], "optional.narrow.str", 0.8)
    # bytes
    _p("bytes", "({0} + {1})", ["bytes", "bytes"], "bytes.concat")
    _p("bytes", "{0}[{1}:{2}]", ["bytes", I, I], "bytes.slice", 0.5)
    _p("bytes", "{0}.encode('utf-8')", [S], "str.encode", 0.5)
    _p("bytes", "bytes([{0} & 255, {1} & 255])", [I, I], "bytes.fromlist", 0.3)
    # Pt
    _p("Pt", "Pt({0}, {1})", [I, I], "native.construct", 2.0)
    _p("Pt", "Pt({0})", [I], "native.construct.default", 0.6)
    _p("Pt", "Pt(y={0}, x={1})", [I, I], "native.construct.kw", 0.5)
    _p("Pt", "{0}.shifted({1})", ["Pt", I], "method.ret_native", 1.0)
    _p("Pt", "({0} + {1})", ["Pt", "Pt"], "dunder.add", 0.8)
    _p("Pt", "Pt3({0}, {1}, {2})", [I, I, S], "native.construct.sub", 0.6)
    _p("Pt", "({0} if {0} is not None else {1})", ["v:Optional[Pt]", "Pt"], "optional.narrow.native", 0.8)
    _p("Pt", "{0}[0]", ["tuple[Pt, int]"], "tuple.getitem.native", 0.4)
    _p("Pt3", "Pt3({0}, {1}, {2})", [I, I, S], "native.construct.sub")
    # tuples
    for t in TUPLE_TYPES:
        _, a = targs(t)
        _p(t, "(" + ", ".join("{%d}" % i for i in range(len(a))) + ")", a, f"tuple.literal[{t}]", 1.5)
        _p(t, "({0} if {1} else {2})", [t, B, t], "condexpr.tuple", 0.3)
    _p("tuple[int, int]", "divmod({0}, {1})", [I, I], "divmod.tuple", 0.6)
    _p("tuple[int, int]", "{0}.as_tuple()", ["Pt"], "method.ret_tuple", 0.8)
    _p("tuple[int, str]", "{0}[1]", ["tuple[int, tuple[int, str]]"], "tuple.getitem.tuple", 0.5)
    _p(I, "{0}[0]", ["tuple[int, str]"], "tuple.getitem.int", 0.8)
    _p(I, "{0}[1]", ["tuple[int, int]"], "tuple.getitem.int1", 0.5)
    _p(I, "len({0})", ["tuple[bool, int, str]"], "tuple.len", 0.2)
    _p(B, "{0}[0]", ["tuple[bool, int, str]"], "tuple.getitem.bool", 0.4)
    # Optional
    for t in OPT_TYPES:
        _, a = targs(t)
        _p(t, "({0} if {1} else None)", [a[0], B], f"optional.make[{a[0]}]", 1.5)
        _p(t, "None", [], "optional.none", 0.5)
        _p(t, "{0}", [a[0]], "optional.wrap", 1.0)
    _p("Optional[int]", "{0}.get({1})", ["dict[str, int]", S], "dict.get.opt")
    _p("Optional[str]", "{0}.get({1})", ["dict[int, str]", I], "dict.get.opt")
    _p("Optional[Pt]", "{0}.get({1})", ["dict[int, Pt]", I], "dict.get.opt")
    _p("Optional[int]", "{0}[{1}]", ["dict[str, Optional[int]]", S], "dict.getitem[Optional[int]]")
    # dicts
    for t in DICT_TYPES:
        _, (k, v) = targs(t)
        _p(v, "{0}[{1}]", [t, k], f"dict.getitem[{k}->{v}]", 2.0)
        if not v.startswith("Optional"):
            _p(v, "{0}.get({1}, {2})", [t, k, v], f"dict.get_default[{k}->{v}]", 1.0)
        _p(v, "{0}.setdefault({1}, {2})", ["v:" + t, k, v], f"dict.setdefault[{k}->{v}]", 0.4)
        _p(v, "{0}.pop({1})", ["v:" + t, k], f"dict.pop[{k}->{v}]", 0.4)
        _p(B, "({1} in {0})", [t, k], f"dict.contains[{k}]", 1.0)
        _p(B, "({1} not in {0})", [t, k], f"dict.not_contains[{k}]", 0.3)
        _p(I, "len({0})", [t], "len.dict", 0.6)
        _p(t, "{{{0}: {1}}}", [k, v], f"dict.literal[{k}->{v}]", 1.0)
        _p(t, "{{{0}: {1}, {2}: {3}}}", [k, v, k, v], f"dict.literal2[{k}->{v}]", 0.6)
        _p(t, "{0}.copy()", [t], "dict.copy", 0.4)
        _p(t, "dict({0})", [t], "dict.dict", 0.3)
        _p(t, "{{**{0}, **{1}}}", [t, t], "dict.splat", 0.4)
        _p(t, "{{__k: __v for __k, __v in {0}.items()}}", [t], "dictcomp.items", 0.4)
        _p(f"list[{k}]", "list({0})", [t], f"dict.keys.list[{k}]", 0.4) if f"list[{k}]" in LIST_TYPES else None
        _p(f"list[{k}]", "list({0}.keys())", [t], f"dict.keys[{k}]", 0.4) if f"list[{k}]" in LIST_TYPES else None
        _p(f"list[{v}]", "list({0}.values())", [t], f"dict.values[{v}]", 0.4) if f"list[{v}]" in LIST_TYPES else None
        _p(B, "({0} == {1})", [t, t], "dict.eq", 0.2)
    _p("dict[str, int]", "{{__s: len(__s) for __s in {0}}}", ["list[str]"], "dictcomp.list")
    _p("dict[int, str]", "{{__i: __s for __i, __s in enumerate({0})}}", ["list[str]"], "dictcomp.enumerate")
    _p("dict[int, int]", "{{__x: __x * __x for __x in {0}}}", ["list[int]"], "dictcomp.sq")
    _p("dict[int, str]", "dict({0})", ["list[tuple[int, str]]"], "dict.from_pairs")
    _p("list[tuple[int, str]]", "list({0}.items())", ["dict[int, str]"], "dict.items.list")
    # sets
    for t in SET_TYPES:
        _, (e,) = targs(t)
        _p(B, "({1} in {0})", [t, e], f"set.contains[{e}]", 1.5)
        _p(I, "len({0})", [t], "len.set", 0.6)
        _p(t, "{{{0}, {1}}}", [e, e], f"set.literal[{e}]", 1.0)
        _p(t, "({0} | {1})", [t, t], "set.or", 0.5)
        _p(t, "({0} & {1})", [t, t], "set.and", 0.5)
        _p(t, "({0} - {1})", [t, t], "set.sub", 0.5)
        _p(t, "({0} ^ {1})", [t, t], "set.xor", 0.3)
        _p(t, "{0}.union({1})", [t, t], "set.union", 0.3)
        _p(t, "{0}.copy()", [t], "set.copy", 0.3)
        if f"list[{e}]" in LIST_TYPES:
            _p(t, "set({0})", [f"list[{e}]"], f"set.from_list[{e}]", 0.8)
            _p(f"list[{e}]", "sorted({0})", [t], f"sorted.set[{e}]", 0.8)
        _p(B, "({0} == {1})", [t, t], "set.eq", 0.2)
        _p(B, "({0} <= {1})", [t, t], "set.le", 0.2)
    _p("set[int]", "{{__x % 5 for __x in {0}}}", ["list[int]"], "setcomp")
    _p("set[str]", "{{__s.lower() for __s in {0}}}", ["list[str]"], "setcomp.str")
    _p("set[int]", "set({0})", ["dict[int, str]"], "set.from_dict", 0.4)
    # hostile Any values (mem dialect): every producer calls back into interpreted code
    A = "Any"
    _p(A, "({0} + {1})", [A, A], "any.add", 1.5)
    _p(A, "({0} - {1})", [A, A], "any.sub", 0.5)
    _p(A, "({0} * {1})", [A, I], "any.mul_int", 0.5)
    _p(A, "({0} + {1})", [A, I], "any.add_int", 0.8)
    _p(A, "({1} + {0})", [A, I], "any.radd_int", 0.5)
    _p(A, "(-{0})", [A], "any.neg", 0.5)
    _p(A, "{0}[{1}]", [A, I], "any.getitem", 1.0)
    _p(A, "{0}()", [A], "any.call0", 0.8)
    _p(A, "{0}({1}, k={2})", [A, I, S], "any.call_kw", 0.8)
    _p(A, "{0}(*{1})", [A, "list[int]"], "any.call_star", 0.5)
    _p(A, "{0}.prop", [A], "any.getattr", 1.0)
    _p(A, "{0}.meth({1})", [A, I], "any.method", 1.0)
    _p(A, "{0}.meth(x={1})", [A, I], "any.method_kw", 0.5)
    _p(A, "({0} if {1} else {2})", [A, A, A], "any.condexpr", 0.6)
    _p(A, "({0} and {1})", [A, A], "any.and", 0.4)
    _p(A, "({0} or {1})", [A, A], "any.or", 0.4)
    _p(A, "max({0}, {1})", [A, A], "any.max", 0.4)
    _p(A, "getattr({0}, 'v')", [A], "any.getattr_fn", 0.4)
    _p(A, "next(iter({0}))", [A], "any.next_iter", 0.5)
    _p(A, "{0}[{1}]", ["list[Any]", I], "list.getitem[Any]", 1.0)
    _p(A, "{0}.get({1}, {2})", ["dict[Any, Any]", A, A], "dict.get[Any]", 0.8)
    _p(A, "{0}[{1}]", ["dict[Any, Any]", A], "dict.getitem[Any]", 0.8)
    _p(A, "{0}.pop()", ["v:list[Any]"], "list.pop[Any]", 0.4)
    _p(A, "sum({0}, {1})", ["list[Any]", A], "any.sum", 0.3)
    _p(A, "min({0})", ["list[Any]"], "any.min_list", 0.3)
    _p(B, "({0} == {1})", [A, A], "any.eq", 1.2)
    _p(B, "({0} != {1})", [A, A], "any.ne", 0.4)
    _p(B, "bool({0} < {1})", [A, A], "any.lt", 0.8)
    _p(B, "bool({0})", [A], "any.bool", 1.0)
    _p(B, "(not {0})", [A], "any.not", 0.8)
    _p(B, "({1} in {0})", [A, I], "any.contains", 0.8)
    _p(B, "({1} in {0})", ["list[Any]", A], "list.contains[Any]", 1.2)
    _p(B, "({1} in {0})", ["dict[Any, Any]", A], "dict.contains[Any]", 0.8)
    _p(B, "({1} in {0})", ["set[Any]", A], "set.contains[Any]", 0.8)
    _p(B, "isinstance({0}, Pt)", [A], "any.isinstance", 0.3)
    _p(B, "({0} == {1})", ["list[Any]", "list[Any]"], "list.eq[Any]", 0.5)
    _p(B, "callable({0})", [A], "any.callable", 0.1)
    _p(I, "len({0})", [A], "any.len", 1.0)
    _p(I, "int({0})", [A], "any.int", 0.6)
    _p(I, "hash({0})", [A], "any.hash", 0.5)
    _p(I, "{0}.index({1})", ["list[Any]", A], "list.index[Any]", 0.6)
    _p(I, "{0}.count({1})", ["list[Any]", A], "list.count[Any]", 0.6)
    _p(I, "len({0})", ["list[Any]"], "len.list", 0.3)
    _p(F, "float({0})", [A], "any.float", 0.4)
    _p(S, "str({0})", [A], "any.str", 0.8)
    _p(S, "repr({0})", [A], "any.repr", 0.5)
    _p(S, "f'<{{({0})}}|{{({1})!r}}>'", [A, A], "any.fstring", 0.6)
    _p(S, "f'{{({0}):>4}}'", [A], "any.fstring_spec", 0.3)
    _p(S, "'%s/%s' % ({0}, {1})", [A, S], "any.percent", 0.3)
    _p(S, "{1}.join([str(__h) for __h in {0}])", [A, S], "any.iter_join", 0.5)
    _p("list[Any]", "[{0}, {1}]", [A, A], "list.literal[Any]", 1.0)
    _p("list[Any]", "list({0})", [A], "any.list", 1.0)
    _p("list[Any]", "[__h for __h in {0}]", [A], "any.listcomp", 0.8)
    _p("list[Any]", "[__h + {1} for __h in {0} if __h]", [A, I], "any.listcomp_filter", 0.6)
    _p("list[Any]", "sorted({0})", ["list[Any]"], "any.sorted", 0.8)
    _p("list[Any]", "({0} + {1})", ["list[Any]", "list[Any]"], "list.concat[Any]", 0.4)
    _p("list[Any]", "{0}[{1}:]", ["list[Any]", I], "list.slice[Any]", 0.3)
    _p("list[Any]", "[*{0}, {1}]", [A, A], "any.star_list", 0.5)
    _p("dict[Any, Any]", "{{{0}: {1}}}", [A, A], "dict.literal[Any]", 1.0)
    _p("dict[Any, Any]", "{{{0}: {1}, {2}: {3}}}", [A, A, A, A], "dict.literal2[Any]", 0.6)
    _p("dict[Any, Any]", "{{__h: __h for __h in {0}}}", [A], "any.dictcomp", 0.6)
    _p("dict[Any, Any]", "dict({0})", ["dict[Any, Any]"], "dict.dict[Any]", 0.3)
    _p("set[Any]", "{{{0}, {1}}}", [A, A], "set.literal[Any]", 1.0)
    _p("set[Any]", "set({0})", [A], "any.set", 0.8)
    _p("set[Any]", "{{__h for __h in {0}}}", [A], "any.setcomp", 0.5)
    _p("tuple[int, str]", "({0}, str({1}))", [I, A], "any.tuple_str", 0.3)
    _p("Pt", "Pt(int({0}), {1})", [A, I], "any.into_native", 0.5)


_build_tables()
ANY_TYPES = ["Any", "list[Any]", "dict[Any, Any]", "set[Any]"]


class Scope:
    """Variables visible at the current point: name -> type.  Blocks push/pop frames."""

    def __init__(self) -> None:
        self.frames: list[dict[str, str]] = [{}]
        self.readonly: set[str] = set()

    def push(self) -> None:
        self.frames.append({})

    def pop(self) -> None:
        self.frames.pop()

    def add(self, name: str, t: str) -> None:
        self.frames[-1][name] = t

    def all(self) -> dict[str, str]:
        out: dict[str, str] = {}
        for f in self.frames:
            out.update(f)
        return out

    def of(self, t: str) -> list[str]:
        return [n for n, tt in self.all().items() if tt == t]


class ExprGen:
    def __init__(self, rng: random.Random, hostile: bool = False) -> None:
        self.rng = rng
        self.hostile = hostile
        self.tags: set[str] = set()
        self.scope = Scope()
        self._n = 0

    def fresh(self, p: str = "v") -> str:
        self._n += 1
        return f"{p}{self._n}"

    def expr(self, t: str, depth: int = 2) -> str:
        rng = self.rng
        if t.startswith("v:"):
            t = t[2:]
            vs = self.scope.of(t)
            if not vs:
                raise LookupError(t)
            return rng.choice(vs)
        vs = self.scope.of(t)
        if t == "Pt" and rng.random() < 0.3:
            vs = vs + self.scope.of("Pt3")
        prods = _PRODS.get(t, [])
        if depth <= 0 or not prods or rng.random() < 0.18:
            if vs and (rng.random() < 0.92 or t in ANY_TYPES):
                return rng.choice(vs)
            if t in ANY_TYPES or t == "Pt3":
                if vs:
                    return rng.choice(vs)
                if depth <= -2:
                    return {"Any": "None", "list[Any]": "[]", "dict[Any, Any]": "{}", "set[Any]": "set()",
                            "Pt3": "Pt3(1, 2, 'n')"}[t]
            else:
                return lit(t, rng, small=rng.random() < 0.5)
        if vs and rng.random() < 0.4:
            return rng.choice(vs)
        for _ in range(6):
            p = rng.choices(prods, weights=[q.w for q in prods])[0]
            if not self.hostile and any("Any" in a for a in p.args):
                continue
            try:
                args = [self.expr(a, depth - 1) for a in p.args]
            except LookupError:
                continue
            # comprehension variables must not collide when producers nest
            tm = p.tmpl
            if "__" in tm:
                self._n += 1
                for nm in ("__x", "__i", "__s", "__k", "__v", "__h"):
                    tm = tm.replace(nm, f"{nm[2:]}_{self._n}")
            self.tags.add(p.tag)
            return tm.format(*args)
        if vs:
            return rng.choice(vs)
        if t in ANY_TYPES or t == "Pt3":
            return {"Any": "None", "list[Any]": "[]", "dict[Any, Any]": "{}", "set[Any]": "set()", "Pt3": "Pt3(1, 2, 'n')"}[t]
        return lit(t, rng, small=True)


def all_tags() -> list[str]:
    return sorted({p.tag for ps in _PRODS.values() for p in ps})
