"""Seeded generator of fully annotated, Any-free programs (typed by construction, best effort) with a driver,
plus single-edit ill-typed perturbations (C01; also feeds C19/C05-style checks).

Types are tuples: ("int",) ("str",) ("bool",) ("float",) ("bytes",) ("none",) ("opt", T) ("union", (T...))
("list", T) ("set", T) ("dict", K, V) ("tuple", (T...)) ("cls", name) ("enum",) ("lit", (values...))
("box", T) ("call", (args...), ret) ("proto",) ("dc",) ("nt",)
"""

from __future__ import annotations

import random
from typing import Any

Ty = tuple  # type: ignore[type-arg]

INT, STR, BOOL, FLOAT, BYTES, NONE = ("int",), ("str",), ("bool",), ("float",), ("bytes",), ("none",)
A, B, C = ("cls", "A"), ("cls", "B"), ("cls", "C")
ENUM, PROTO, DC, NT = ("enum",), ("proto",), ("dc",), ("nt",)
VTUP = ("vtuple",)   # Tuple[int, *Tuple[str, ...]]

PRELUDE = '''\
from typing import Callable, Dict, Generic, List, Literal, NamedTuple, Optional, Protocol, Set, Tuple, TypeVar, Union
from dataclasses import dataclass, field
import enum

T = TypeVar("T")


class A:
    def __init__(self, v: int) -> None:
        self.v = v
        self.tag: str = "a"

    def m(self) -> int:
        return self.v

    def name(self) -> str:
        return self.tag + str(self.v)


class B(A):
    def __init__(self, v: int, w: str) -> None:
        super().__init__(v)
        self.w = w

    def m(self) -> int:
        return self.v * 2

    def only_b(self) -> str:
        return self.w.upper()


class C(A):
    def __init__(self, v: int) -> None:
        super().__init__(v)
        self.items: List[int] = [v]

    def only_c(self) -> List[int]:
        return self.items + [self.v]


class HasM(Protocol):
    def m(self) -> int: ...


class Other:
    def m(self) -> int:
        return 7


@dataclass
class D:
    a: int
    b: str = "d"
    c: List[int] = field(default_factory=list)

    def total(self) -> int:
        return self.a + len(self.b) + sum(self.c)


class E(enum.Enum):
    X = 1
    Y = 2
    Z = 3


class NT(NamedTuple):
    p: int
    q: str


class Box(Generic[T]):
    def __init__(self, item: T) -> None:
        self.item = item

    def get(self) -> T:
        return self.item

    def map_to_str(self) -> str:
        return str(self.item)


class AnyEq:
    """Compares equal to everything (custom __eq__): narrowing by == / in must not trust it."""

    def __eq__(self, other: object) -> bool:
        return True

    def __hash__(self) -> int:
        return 0


ANY_EQ = AnyEq()


def ident(x: T) -> T:
    return x


def first(xs: List[T], default: T) -> T:
    for x in xs:
        return x
    return default


def use_m(o: HasM) -> int:
    return o.m()

'''


def ann(t: Ty) -> str:
    k = t[0]
    if k in ("int", "str", "bool", "float", "bytes"):
        return k
    if k == "none":
        return "None"
    if k == "opt":
        return f"Optional[{ann(t[1])}]"
    if k == "union":
        return "Union[" + ", ".join(ann(x) for x in t[1]) + "]"
    if k == "list":
        return f"List[{ann(t[1])}]"
    if k == "set":
        return f"Set[{ann(t[1])}]"
    if k == "dict":
        return f"Dict[{ann(t[1])}, {ann(t[2])}]"
    if k == "tuple":
        return "Tuple[" + ", ".join(ann(x) for x in t[1]) + "]"
    if k == "cls":
        return t[1]
    if k == "enum":
        return "E"
    if k == "lit":
        return "Literal[" + ", ".join(repr(v) for v in t[1]) + "]"
    if k == "box":
        return f"Box[{ann(t[1])}]"
    if k == "call":
        return "Callable[[" + ", ".join(ann(x) for x in t[1]) + "], " + ann(t[2]) + "]"
    if k == "proto":
        return "HasM"
    if k == "dc":
        return "D"
    if k == "nt":
        return "NT"
    if k == "vtuple":
        return "Tuple[int, *Tuple[str, ...]]"
    raise AssertionError(t)


def sub(s: Ty, t: Ty) -> bool:
    """Conservative subtype test used to pick variables (False is always safe)."""
    if s == t:
        return True
    if t[0] == "opt":
        return s == NONE or sub(s, t[1]) or (s[0] == "opt" and sub(s[1], t[1]))
    if t[0] == "union":
        if s[0] == "union":
            return all(sub(x, t) for x in s[1])
        if s[0] == "opt":
            return sub(NONE, t) and sub(s[1], t)
        return any(sub(s, x) for x in t[1])
    if s == BOOL and t == INT:
        return True
    if s in (INT, BOOL) and t == FLOAT:
        return True
    if s[0] == "cls" and t[0] == "cls":
        return t[1] == "A"
    if t == PROTO:
        return s[0] == "cls" or s == ("other",)
    if s[0] == "lit" and t[0] == "lit":
        return set(s[1]) <= set(t[1])
    if s[0] == "lit":
        return sub((type(s[1][0]).__name__,), t)
    if s == NT and t == ("tuple", (INT, STR)):
        return True
    return False


class Gen:
    def __init__(self, rng: random.Random, n_funcs: int = 6, max_depth: int = 3) -> None:
        self.r = rng
        self.n_funcs = n_funcs
        self.max_depth = max_depth
        self.funcs: list[tuple[str, list[tuple[str, Ty]], Ty]] = []
        self.uid = 0
        self.features: set[str] = set()
        self.min_len = 1   # literals inside function bodies are non-empty (an empty literal has no inferable item type)

    # ---- types -----------------------------------------------------------------------------------
    def scalar(self) -> Ty:
        return self.r.choice([INT, INT, STR, STR, BOOL, FLOAT, BYTES])

    def rtype(self, depth: int = 0) -> Ty:
        r = self.r
        x = r.random()
        if depth >= 2 or x < 0.3:
            return r.choice([INT, STR, BOOL, FLOAT, A, B, C, ENUM, DC, NT, INT, STR])
        if x < 0.42:
            return ("opt", self.rtype(depth + 1) if r.random() < 0.3 else r.choice([INT, STR, A, B, DC, ("list", INT)]))
        if x < 0.56:
            items = r.sample([INT, STR, BYTES, A, B, C, NONE, ("list", INT), ("tuple", (INT, STR)), ENUM, DC], r.randint(2, 3))
            if B in items and A in items:
                items.remove(A)
            if C in items and A in items:
                items.remove(A)
            if FLOAT in items and INT in items:
                items.remove(INT)
            if len(items) < 2:
                return ("opt", items[0]) if items[0] != NONE else ("opt", INT)
            return ("union", tuple(items))
        if x < 0.68:
            return ("list", self.rtype(depth + 1) if r.random() < 0.4 else self.scalar())
        if x < 0.76:
            return ("dict", r.choice([STR, INT]), self.rtype(depth + 1) if r.random() < 0.4 else self.scalar())
        if x < 0.82:
            return ("tuple", tuple(self.scalar() for _ in range(r.randint(2, 3))))
        if x < 0.86:
            return ("set", r.choice([INT, STR]))
        if x < 0.91:
            return ("box", r.choice([INT, STR, A, ("list", INT)]))
        if x < 0.95:
            return ("lit", tuple(r.sample(["a", "b", "c"], 2)) if r.random() < 0.5 else tuple(r.sample([1, 2, 3], 2)))
        if x < 0.97:
            return ("call", (self.scalar(),), self.scalar())
        if x < 0.985:
            return VTUP
        return PROTO

    # ---- values (driver side; always of the declared type) ---------------------------------------
    def value(self, t: Ty, depth: int = 0) -> str:
        r = self.r
        k = t[0]
        if k == "int":
            return str(r.choice([0, 1, -1, 2, 7, 100, -5]))
        if k == "str":
            return repr(r.choice(["", "a", "hello", "x y", "42"]))
        if k == "bool":
            return r.choice(["True", "False"])
        if k == "float":
            return r.choice(["0.0", "1.5", "-2.25", "3", "10"])
        if k == "bytes":
            return r.choice(["b''", "b'ab'"])
        if k == "none":
            return "None"
        if k == "opt":
            return "None" if r.random() < 0.4 else self.value(t[1], depth + 1)
        if k == "union":
            return self.value(r.choice(t[1]), depth + 1)
        if k == "list":
            return "[" + ", ".join(self.value(t[1], depth + 1) for _ in range(r.randint(self.min_len, 3))) + "]"
        if k == "set":
            n = r.randint(self.min_len, 3)
            return "{" + ", ".join(self.value(t[1], depth + 1) for _ in range(n)) + "}" if n else "set()"
        if k == "dict":
            return "{" + ", ".join(f"{self.value(t[1], depth + 1)}: {self.value(t[2], depth + 1)}" for _ in range(r.randint(self.min_len, 3))) + "}"
        if k == "tuple":
            return "(" + ", ".join(self.value(x, depth + 1) for x in t[1]) + ",)"
        if k == "cls":
            if t[1] == "A":
                return r.choice([f"A({self.value(INT)})", f"B({self.value(INT)}, {self.value(STR)})", f"C({self.value(INT)})"])
            return f"B({self.value(INT)}, {self.value(STR)})" if t[1] == "B" else f"C({self.value(INT)})"
        if k == "enum":
            return r.choice(["E.X", "E.Y", "E.Z"])
        if k == "lit":
            return repr(r.choice(t[1]))
        if k == "box":
            return f"Box({self.value(t[1], depth + 1)})"
        if k == "call":
            a = t[1][0]
            body = self.value(t[2], depth + 1)
            return f"(lambda _x: {body})"
        if k == "proto":
            return r.choice(["Other()", f"A({self.value(INT)})", f"C({self.value(INT)})"])
        if k == "dc":
            return f"D({self.value(INT)}, {self.value(STR)}, [{self.value(INT)}])" if r.random() < 0.6 else f"D({self.value(INT)})"
        if k == "nt":
            return f"NT({self.value(INT)}, {self.value(STR)})"
        if k == "vtuple":
            return r.choice(["(1,)", "(2, 'a')", "(3, 'a', 'b')", "(0, '', 'x', 'y')"])
        raise AssertionError(t)

    # ---- expressions of a given static type, from an environment ---------------------------------
    def expr(self, t: Ty, env: dict[str, Ty], depth: int = 0, exact: bool = False) -> str:
        r = self.r
        cands = [v for v, vt in env.items() if (vt == t if exact else sub(vt, t))]
        if cands and (depth >= self.max_depth or r.random() < 0.45):
            return r.choice(cands)
        if depth >= self.max_depth:
            return self.value(t)
        d = depth + 1
        k = t[0]

        def some(tt: Ty) -> str:
            return self.expr(tt, env, d)

        def var_of(pred: Any) -> str | None:
            c = [v for v, vt in env.items() if pred(vt)]
            return r.choice(c) if c else None

        if k == "int":
            opts = [lambda: f"({some(INT)} + {some(INT)})", lambda: f"({some(INT)} * {some(INT)})", lambda: f"len({some(STR)})",
                    lambda: f"len({some(('list', INT))})", lambda: f"{some(A)}.m()", lambda: f"{some(A)}.v", lambda: f"abs({some(INT)})",
                    lambda: f"max({some(INT)}, {some(INT)})", lambda: f"({some(INT)} if {some(BOOL)} else {some(INT)})",
                    lambda: f"{some(DC)}.total()", lambda: f"{some(DC)}.a", lambda: f"{some(NT)}.p", lambda: f"{some(ENUM)}.value",
                    lambda: f"use_m({some(PROTO)})", lambda: f"ident({some(INT)})", lambda: f"first({some(('list', INT))}, {some(INT)})",
                    lambda: f"{some(('box', INT))}.get()", lambda: f"sum({some(('list', INT))})", lambda: f"({some(INT)} // ({some(INT)} or 1))",
                    lambda: f"{some(('dict', STR, INT))}.get({some(STR)}, {some(INT)})", lambda: f"int({some(BOOL)})",
                    lambda: f"{some(('tuple', (INT, STR)))}[0]", lambda: f"ord({some(STR)}[0:1] or 'a')", lambda: f"{some(C)}.only_c()[0]"]
            for fname, params, ret in self.funcs:
                if ret == INT:
                    opts.append(lambda fname=fname, params=params: f"{fname}(" + ", ".join(self.expr(pt, env, d) for _, pt in params) + ")")
            return r.choice(opts)()
        if k == "str":
            opts = [lambda: f"({some(STR)} + {some(STR)})", lambda: f"{some(STR)}.upper()", lambda: f"str({some(INT)})", lambda: f"{some(A)}.name()",
                    lambda: f"{some(B)}.only_b()", lambda: f"{some(B)}.w", lambda: f"{some(DC)}.b", lambda: f"{some(NT)}.q", lambda: f"{some(ENUM)}.name",
                    lambda: f"', '.join({some(('list', STR))})", lambda: f"f'{{{some(INT)}}}-{{{some(STR)}}}'", lambda: f"{some(('box', STR))}.get()",
                    lambda: f"({some(STR)} if {some(BOOL)} else {some(STR)})", lambda: f"{some(('box', INT))}.map_to_str()", lambda: f"{some(A)}.tag",
                    lambda: f"({some(STR)} * 2)", lambda: f"{some(('dict', INT, STR))}.get({some(INT)}, {some(STR)})", lambda: f"ident({some(STR)})",
                    lambda: f"{some(('tuple', (INT, STR)))}[1]", lambda: f"{some(STR)}.strip().lower()", lambda: f"{some(BYTES)}.decode()"]
            for fname, params, ret in self.funcs:
                if ret == STR:
                    opts.append(lambda fname=fname, params=params: f"{fname}(" + ", ".join(self.expr(pt, env, d) for _, pt in params) + ")")
            return r.choice(opts)()
        if k == "bool":
            return r.choice([lambda: f"({some(INT)} < {some(INT)})", lambda: f"({some(STR)} == {some(STR)})", lambda: f"(not {some(BOOL)})",
                             lambda: f"({some(BOOL)} and {some(BOOL)})", lambda: f"({some(INT)} in {some(('list', INT))})",
                             lambda: f"{some(STR)}.startswith({some(STR)})", lambda: f"isinstance({some(A)}, B)", lambda: f"bool({some(('list', INT))})",
                             lambda: f"({some(ENUM)} is E.X)", lambda: f"({some(FLOAT)} >= {some(FLOAT)})", lambda: r.choice(["True", "False"])])()
        if k == "float":
            return r.choice([lambda: f"({some(FLOAT)} + {some(FLOAT)})", lambda: f"({some(INT)} / ({some(INT)} or 1))", lambda: f"float({some(INT)})",
                             lambda: f"({some(FLOAT)} * {some(INT)})", lambda: f"abs({some(FLOAT)})", lambda: self.value(FLOAT), lambda: f"round({some(FLOAT)}, 1)"])()
        if k == "bytes":
            return r.choice([lambda: f"{some(STR)}.encode()", lambda: f"({some(BYTES)} + {some(BYTES)})", lambda: self.value(BYTES)])()
        if k == "none":
            return "None"
        if k == "opt":
            return r.choice([lambda: "None", lambda: some(t[1]), lambda: some(t[1]),
                             lambda: f"({some(t[1])} if {some(BOOL)} else None)"] +
                            ([lambda: f"{some(('dict', STR, t[1]))}.get({some(STR)})"] if t[1] in (INT, STR) else []))()
        if k == "union":
            return some(r.choice(t[1]))
        if k == "list":
            e = t[1]
            opts = [lambda: "[" + ", ".join(self.expr(e, env, d, exact=True) for _ in range(r.randint(1, 3))) + "]", lambda: f"({some(t)} + {some(t)})", lambda: f"list({some(t)})",
                    lambda: f"[_c for _c in {some(t)}]", lambda: f"{some(t)}[:2]", lambda: f"sorted({some(t)})" if e in (INT, STR) else self.value(t)]
            if e == INT:
                opts += [lambda: f"{some(C)}.only_c()", lambda: f"[len(_s) for _s in {some(('list', STR))}]", lambda: f"list(range({some(INT)} % 5))",
                         lambda: f"[_i for _i in {some(t)} if _i > {some(INT)}]", lambda: f"{some(DC)}.c"]
            if e == STR:
                opts += [lambda: f"{some(STR)}.split()", lambda: f"[str(_i) for _i in {some(('list', INT))}]", lambda: f"list({some(('dict', STR, INT))}.keys())"]
            return r.choice(opts)()
        if k == "set":
            return r.choice([lambda: f"set({some(('list', t[1]))})", lambda: self.value(t), lambda: f"({some(t)} | {some(t)})"])()
        if k == "dict":
            return r.choice([lambda: self.value(t), lambda: "{" + f"{some(t[1])}: {some(t[2])}" + "}", lambda: f"dict({some(t)})",
                             lambda: "{" + f"_k: _v for _k, _v in {some(t)}.items()" + "}"])()
        if k == "tuple":
            return "(" + ", ".join(some(x) for x in t[1]) + ",)"
        if k == "cls":
            if t[1] == "A":
                return r.choice([f"A({some(INT)})", f"B({some(INT)}, {some(STR)})", f"C({some(INT)})", f"ident({some(A)})"])
            return f"B({some(INT)}, {some(STR)})" if t[1] == "B" else f"C({some(INT)})"
        if k == "enum":
            return r.choice(["E.X", "E.Y", "E.Z", f"E({some(('lit', (1, 2)))})"])
        if k == "lit":
            return repr(r.choice(t[1]))
        if k == "box":
            return f"Box({some(t[1])})"
        if k == "call":
            return f"(lambda _x: {self.expr(t[2], {**env, '_x': t[1][0]}, d)})"
        if k == "proto":
            return r.choice([lambda: "Other()", lambda: some(A)])()
        if k == "dc":
            return r.choice([lambda: f"D({some(INT)}, {some(STR)})", lambda: f"D({some(INT)})", lambda: f"D(a={some(INT)}, c={some(('list', INT))})"])()
        if k == "nt":
            return f"NT({some(INT)}, {some(STR)})"
        if k == "vtuple":
            return r.choice([f"({some(INT)},)", f"({some(INT)}, {some(STR)})", f"({some(INT)}, {some(STR)}, {some(STR)})"])
        raise AssertionError(t)

    # ---- statements ---------------------------------------------------------------------------------
    def fresh(self, p: str = "v") -> str:
        self.uid += 1
        return f"{p}{self.uid}"

    def use(self, t: Ty, v: str, env: dict[str, Ty], acc: str) -> str:
        """A statement that uses variable v at (narrowed) type t and folds something into the int accumulator."""
        k = t[0]
        r = self.r
        if k == "int" or k == "bool":
            return f"{acc} += {v} + 1"
        if k == "float":
            return f"{acc} += int({v} * 2)"
        if k == "str":
            return r.choice([f"{acc} += len({v}.upper())", f"{acc} += len({v} + 's')", f"{acc} += {v}.count('a')"])
        if k == "bytes":
            return f"{acc} += len({v}.decode())"
        if k == "none":
            return f"{acc} += 0 if {v} is None else 1"
        if k == "list":
            return f"{acc} += len({v} + {v})"
        if k == "set":
            return f"{acc} += len({v} | {v})"
        if k == "dict":
            return f"{acc} += len({v}.keys())"
        if k == "tuple":
            return f"{acc} += len({v}) + " + (f"{v}[0]" if t[1][0] in (INT, BOOL) else f"len(str({v}[0]))")
        if k == "cls":
            return {"A": f"{acc} += {v}.m() + len({v}.name())", "B": f"{acc} += len({v}.only_b()) + len({v}.w)", "C": f"{acc} += len({v}.only_c()) + {v}.items[0]"}[t[1]]
        if k == "enum":
            return f"{acc} += len({v}.name)"
        if k == "lit":
            return f"{acc} += len(str({v}))"
        if k == "box":
            return f"{acc} += len({v}.map_to_str())"
        if k == "call":
            return f"{acc} += len(str({v}({self.value(t[1][0])})))"
        if k == "proto":
            return f"{acc} += use_m({v}) + {v}.m()"
        if k == "dc":
            return f"{acc} += {v}.total() + len({v}.b)"
        if k == "nt":
            return f"{acc} += {v}.p + len({v}.q)"
        if k == "opt":
            return f"{acc} += 0 if {v} is None else 1"
        if k == "union":
            return f"{acc} += len(str({v}))"
        if k == "vtuple":
            return f"{acc} += {v}[0] + len({v})"
        raise AssertionError(t)

    def isinstance_test(self, t: Ty) -> str | None:
        k = t[0]
        return {"int": "int", "str": "str", "bytes": "bytes", "float": "float", "bool": "bool", "list": "list", "tuple": "tuple", "dict": "dict",
                "set": "set", "enum": "E", "dc": "D", "nt": "NT"}.get(k) or (t[1] if k == "cls" else None)

    def narrow_stmt(self, v: str, t: Ty, env: dict[str, Ty], acc: str, ind: str, depth: int) -> list[str]:
        """Narrowing forms on a plain local name."""
        r = self.r
        out: list[str] = []
        if t[0] == "opt":
            inner = t[1]
            form = r.choice(["is_none", "is_not_none", "early", "truthy", "walrus", "assert", "or_default", "while"])
            self.features.add("narrow:" + form)
            if form == "is_none":
                out += [f"{ind}if {v} is None:", f"{ind}    {acc} -= 1", f"{ind}else:", f"{ind}    {self.use(inner, v, env, acc)}"]
            elif form == "is_not_none":
                out += [f"{ind}if {v} is not None:", f"{ind}    {self.use(inner, v, env, acc)}"]
                out += self.block({**env, v: inner}, acc, ind + "    ", depth + 1, 1)
            elif form == "early":
                out += [f"{ind}if {v} is None:", f"{ind}    return {self.ret_expr(env)}", f"{ind}{self.use(inner, v, env, acc)}"]
                env[v] = inner
            elif form == "truthy" and inner[0] in ("str", "list", "cls", "dc"):
                out += [f"{ind}if {v}:", f"{ind}    {self.use(inner, v, env, acc)}"]
            elif form == "walrus":
                w = self.fresh("w")
                out += [f"{ind}if ({w} := {v}) is not None:", f"{ind}    {self.use(inner, w, env, acc)}"]
            elif form == "assert":
                out += [f"{ind}if {v} is not None:", f"{ind}    assert {v} is not None", f"{ind}    {self.use(inner, v, env, acc)}"]
            elif form == "or_default" and inner in (INT, STR) or form == "or_default" and inner[0] == "list":
                w = self.fresh("d")
                out += [f"{ind}{w} = {v} or {self.value(inner)}", f"{ind}{self.use(inner, w, env, acc)}"]
            else:
                w = self.fresh("n")
                out += [f"{ind}{w} = 0", f"{ind}while {v} is not None and {w} < 2:", f"{ind}    {self.use(inner, v, env, acc)}", f"{ind}    {w} += 1"]
            return out
        if t[0] == "union" and set(t[1]) <= {INT, STR, BYTES, NONE} and (INT in t[1] or STR in t[1]) and r.random() < 0.6:
            self.features.add("narrow:in-tuple")
            if INT in t[1]:
                out += [f"{ind}if {v} in (0, 1, 7):", f"{ind}    {acc} += {v} + 1", f"{ind}else:", f"{ind}    {acc} += len(str({v}))"]
            else:
                out += [f"{ind}if {v} in ('a', 'hello'):", f"{ind}    {acc} += len({v}.upper())", f"{ind}else:", f"{ind}    {acc} += len(str({v}))"]
            return out
        if t[0] == "union":
            items = list(t[1])
            form = r.choice(["isinstance_chain", "isinstance_chain", "match", "not_isinstance", "tuple_isinstance"])
            self.features.add("narrow:" + form)
            tests = [(it, self.isinstance_test(it)) for it in items]
            # bool is an int at runtime: test order matters for correctness; keep generated unions free of that trap
            if form == "match":
                out.append(f"{ind}match {v}:")
                for it, cls in tests:
                    if it == NONE:
                        out += [f"{ind}    case None:", f"{ind}        {acc} -= 1"]
                    elif cls and it[0] not in ("list", "tuple", "dict", "set"):
                        w = self.fresh("m")
                        out += [f"{ind}    case {cls}() as {w}:", f"{ind}        {self.use(it, w, env, acc)}"]
                    elif cls:
                        out += [f"{ind}    case {cls}():", f"{ind}        {self.use(it, v, env, acc)}"]
                out += [f"{ind}    case _:", f"{ind}        {acc} += 0"]
                return out
            if form == "not_isinstance" and len(items) == 2 and all(c for _, c in tests) and NONE not in items:
                (t0, c0), (t1, _c1) = tests
                out += [f"{ind}if not isinstance({v}, {c0}):", f"{ind}    {self.use(t1, v, env, acc)}", f"{ind}else:", f"{ind}    {self.use(t0, v, env, acc)}"]
                return out
            if form == "tuple_isinstance" and len(items) >= 3 and all(c for _, c in tests[:2]):
                (t0, c0), (t1, c1) = tests[:2]
                out += [f"{ind}if isinstance({v}, ({c0}, {c1})):", f"{ind}    {acc} += len(str({v}))", f"{ind}else:"]
                rest = items[2:]
                if len(rest) == 1:
                    out += [f"{ind}    {self.use(rest[0], v, env, acc)}"]
                else:
                    out += [f"{ind}    {acc} += 1"]
                return out
            first_ = True
            for it, cls in tests[:-1]:
                kw = "if" if first_ else "elif"
                first_ = False
                if it == NONE:
                    out += [f"{ind}{kw} {v} is None:", f"{ind}    {acc} -= 1"]
                elif cls:
                    out += [f"{ind}{kw} isinstance({v}, {cls}):", f"{ind}    {self.use(it, v, env, acc)}"]
                else:
                    out += [f"{ind}{kw} False:", f"{ind}    pass"]
            last_t, last_c = tests[-1]
            if all(c or it == NONE for it, c in tests[:-1]):
                out += [f"{ind}else:", f"{ind}    {self.use(last_t, v, env, acc)}"]
            return out
        if t == VTUP:
            self.features.add("narrow:match-sequence-star")
            a0, a1, a2 = self.fresh("s"), self.fresh("s"), self.fresh("s")
            form = r.choice(["star_tail", "exact", "two_star"])
            if form == "star_tail":
                out += [f"{ind}match {v}:", f"{ind}    case ({a0}, {a1}, *{a2}):", f"{ind}        {acc} += {a0} + len({a1}) + len({a2})",
                        f"{ind}    case _:", f"{ind}        {acc} += len({v})"]
            elif form == "exact":
                out += [f"{ind}match {v}:", f"{ind}    case ({a0},):", f"{ind}        {acc} += {a0}", f"{ind}    case ({a0}, {a1}):",
                        f"{ind}        {acc} += {a0} + len({a1})", f"{ind}    case _:", f"{ind}        {acc} += len({v}) + {v}[0]"]
            else:
                out += [f"{ind}match {v}:", f"{ind}    case ({a0}, *{a2}, {a1}):", f"{ind}        {acc} += {a0} + len({a1}) + len({a2})",
                        f"{ind}    case ({a0}, *{a2}):", f"{ind}        {acc} += {a0} - len({a2})"]
            return out
        if t == A:
            self.features.add("narrow:subclass")
            out += [f"{ind}if isinstance({v}, B):", f"{ind}    {self.use(B, v, env, acc)}", f"{ind}elif isinstance({v}, C):",
                    f"{ind}    {self.use(C, v, env, acc)}", f"{ind}else:", f"{ind}    {self.use(A, v, env, acc)}"]
            return out
        if t == ENUM:
            self.features.add("narrow:enum")
            out += [f"{ind}if {v} is E.X:", f"{ind}    {acc} += 1", f"{ind}elif {v} == E.Y:", f"{ind}    {acc} += 2", f"{ind}else:", f"{ind}    {acc} += len({v}.name)"]
            return out
        if t[0] == "lit":
            self.features.add("narrow:literal")
            out += [f"{ind}if {v} == {t[1][0]!r}:", f"{ind}    {acc} += 1", f"{ind}else:", f"{ind}    {acc} += len(str({v}))"]
            return out
        out.append(f"{ind}{self.use(t, v, env, acc)}")
        return out

    def ret_expr(self, env: dict[str, Ty]) -> str:
        return self.expr(self.cur_ret, env, 1)

    def block(self, env: dict[str, Ty], acc: str, ind: str, depth: int, n: int) -> list[str]:
        out = self._block(env, acc, ind, depth, n)
        return out or [f"{ind}{acc} += 0"]

    def _block(self, env: dict[str, Ty], acc: str, ind: str, depth: int, n: int) -> list[str]:
        r = self.r
        out: list[str] = []
        for _ in range(n):
            kind = r.choice(["assign", "assign", "narrow", "narrow", "narrow", "for", "try", "if", "reassign", "aug", "while", "closure", "comp", "call"])
            if depth >= 3 and kind in ("for", "try", "if", "while", "closure"):
                kind = "assign"
            self.features.add("stmt:" + kind)
            if kind == "assign":
                t = self.rtype()
                v = self.fresh()
                out.append(f"{ind}{v}: {ann(t)} = {self.expr(t, env, 1)}")
                env[v] = t
            elif kind == "narrow":
                cands = [(v, t) for v, t in env.items() if t[0] in ("opt", "union", "enum", "lit") or t == A]
                if not cands:
                    t = ("opt", r.choice([INT, STR, A])) if r.random() < 0.5 else self.rtype(0)
                    v = self.fresh()
                    out.append(f"{ind}{v}: {ann(t)} = {self.expr(t, env, 1)}")
                    env[v] = t
                    cands = [(v, t)]
                v, t = r.choice(cands)
                out += self.narrow_stmt(v, t, env, acc, ind, depth)
            elif kind == "for":
                lt = r.choice([t for t in env.values() if t[0] == "list"] or [("list", INT)])
                it = self.fresh("it")
                out.append(f"{ind}for {it} in {self.expr(lt, env, 1)}:")
                inner = {**env, it: lt[1]}
                body = self.narrow_stmt(it, lt[1], inner, acc, ind + "    ", depth + 1)
                out += body
                if r.random() < 0.3:
                    out += [f"{ind}    if {acc} > 50:", f"{ind}        break"]
                if r.random() < 0.3:
                    out += [f"{ind}else:", f"{ind}    {acc} += 1"]
            elif kind == "while":
                w = self.fresh("i")
                out += [f"{ind}{w} = 0", f"{ind}while {w} < {r.randint(1, 3)}:"]
                out += self.block(dict(env), acc, ind + "    ", depth + 1, 1)
                out.append(f"{ind}    {w} += 1")
            elif kind == "try":
                t = r.choice([INT, STR, ("list", INT)])
                v = self.fresh("t")
                out += [f"{ind}{v}: {ann(t)} = {self.value(t)}", f"{ind}try:", f"{ind}    {v} = {self.expr(t, env, 0)}"]
                exc = r.choice(["(IndexError, KeyError)", "ZeroDivisionError", "ValueError", "Exception"])
                out += [f"{ind}except {exc}:", f"{ind}    {acc} -= 1"]
                if r.random() < 0.5:
                    out += [f"{ind}else:", f"{ind}    {self.use(t, v, env, acc)}"]
                if r.random() < 0.5:
                    out += [f"{ind}finally:", f"{ind}    {acc} += 1"]
                env[v] = t
            elif kind == "if":
                out.append(f"{ind}if {self.expr(BOOL, env, 1)}:")
                out += self.block(dict(env), acc, ind + "    ", depth + 1, r.randint(1, 2))
                if r.random() < 0.6:
                    out.append(f"{ind}else:")
                    out += self.block(dict(env), acc, ind + "    ", depth + 1, 1)
            elif kind == "reassign":
                cands = [(v, t) for v, t in env.items() if not v.startswith(("it", "_")) and v != acc]
                if cands:
                    v, t = r.choice(cands)
                    out.append(f"{ind}{v} = {self.expr(t, {k: x for k, x in env.items() if k != v or True}, 1)}")
            elif kind == "aug":
                out.append(f"{ind}{acc} += {self.expr(INT, env, 1)}")
            elif kind == "closure":
                fn = self.fresh("inner")
                cands = [(v, t) for v, t in env.items() if t[0] in ("int", "str", "list", "cls", "dc")]
                if cands:
                    v, t = r.choice(cands)
                    rt = r.choice([INT, STR])
                    out += [f"{ind}def {fn}(k: int) -> {ann(rt)}:", f"{ind}    return {self.expr(rt, {v: t, 'k': INT}, 1)}",
                            f"{ind}{self.use(rt, f'{fn}({acc})', env, acc)}"]
            elif kind == "comp":
                lt = ("list", r.choice([INT, STR]))
                v = self.fresh("c")
                src_l = self.expr(lt, env, 1)
                e = self.expr(INT, {**env, "_e": lt[1]}, 2)
                out.append(f"{ind}{v}: List[int] = [{e} for _e in {src_l} if {self.expr(BOOL, {**env, '_e': lt[1]}, 2)}]")
                env[v] = ("list", INT)
            elif kind == "call" and self.funcs:
                fname, params, ret = r.choice(self.funcs)
                v = self.fresh("r")
                out.append(f"{ind}{v}: {ann(ret)} = {fname}(" + ", ".join(self.expr(pt, env, 1) for _, pt in params) + ")")
                env[v] = ret
        return out

    def function(self, idx: int) -> str:
        r = self.r
        name = f"f{idx}"
        params = [(f"p{j}", self.rtype()) for j in range(r.randint(1, 3))]
        if r.random() < 0.3:
            params.append((f"p{len(params)}", ("union", (INT, STR))))
        if r.random() < 0.2:
            params.append((f"p{len(params)}", VTUP))
        ret = r.choice([INT, INT, STR, self.rtype(1)])
        self.cur_ret = ret
        env: dict[str, Ty] = dict(params)
        lines = [f"def {name}(" + ", ".join(f"{p}: {ann(t)}" for p, t in params) + f") -> {ann(ret)}:", "    acc = 0"]
        env["acc"] = INT
        lines += self.block(env, "acc", "    ", 1, r.randint(2, 5))
        # every parameter is used at least once through a narrowing form
        for p, t in params:
            if r.random() < 0.7:
                lines += self.narrow_stmt(p, t, env, "acc", "    ", 1)
        if ret == INT:
            lines.append("    return acc")
        elif ret == STR:
            lines.append(f"    return str(acc) + {self.expr(STR, env, 1)}")
        else:
            lines.append(f"    return {self.expr(ret, env, 1)}")
        self.funcs.append((name, params, ret))
        return "\n".join(lines) + "\n"

    def driver(self, calls_per_func: int = 4) -> str:
        self.min_len = 0   # arguments are checked against declared parameter types: empty containers are fine
        out = ["\n\ndef _drive() -> None:"]
        for fname, params, _ret in self.funcs:
            for _ in range(calls_per_func):
                args = ", ".join(self.value(t) for _, t in params)
                out += ["    try:", f"        print({fname}({args}))", "    except (IndexError, KeyError, ZeroDivisionError, ValueError, OverflowError, RecursionError, UnicodeError):",
                        "        print('exc')"]
        out.append("\n\n_drive()\n")
        return "\n".join(out)

    def program(self) -> str:
        parts = [PRELUDE]
        for i in range(self.n_funcs):
            parts.append(self.function(i))
            parts.append("\n")
        parts.append(self.driver())
        return "\n".join(parts)


def generate(seed_parts: tuple[Any, ...], n_funcs: int = 6) -> tuple[str, list[str]]:
    from .common import rng_for
    g = Gen(rng_for("typedgen", *seed_parts), n_funcs=n_funcs)
    return g.program(), sorted(g.features)


# ---- single-edit ill-typed perturbations -----------------------------------------------------------------

def perturb(src: str, rng: random.Random) -> tuple[str, str] | None:
    """One edit that is likely to make the program ill-typed while keeping it syntactically valid."""
    import re
    lines = src.split("\n")
    body_start = next((i for i, ln in enumerate(lines) if ln.startswith("def f0(")), 0)
    idxs = [i for i in range(body_start, len(lines)) if lines[i].strip() and not lines[i].startswith("def _drive")]
    drive = next((i for i, ln in enumerate(lines) if ln.startswith("def _drive")), len(lines))
    idxs = [i for i in idxs if i < drive]
    if not idxs:
        return None
    ops = ["drop_none_check", "swap_isinstance", "widen_annotation", "narrow_annotation", "swap_args", "replace_operand", "negate_test",
           "drop_else", "change_return", "wrong_value", "swap_branches", "remove_or_default", "inject_any_eq", "inject_any_eq", "case_body_type"]
    # lines on which each pattern-bound operator can apply (so that rare constructs get their share of mutants)
    PAT = {"drop_none_check": r"\bif \w+ is (not )?None:", "swap_isinstance": r"isinstance\(", "negate_test": r"^\s*(if|elif|while) ",
           "drop_else": r"^\s*else:$", "change_return": r"^\s*return ", "swap_branches": r"^\s*elif isinstance\(",
           "inject_any_eq": r" in \((\d+|'[^']*'), | == (E\.[XYZ]|\d+|'[^']*'):", "remove_or_default": r" or ", "narrow_annotation": r"Optional\["}
    for _ in range(30):
        op = rng.choice(ops)
        cand = [j for j in idxs if re.search(PAT[op], lines[j])] if op in PAT else idxs
        if op == "case_body_type":
            cand = [j for j in idxs if j > 0 and lines[j - 1].strip().startswith("case ") and "+=" in lines[j]]
        if not cand:
            continue
        i = rng.choice(cand)
        ln = lines[i]
        new = None
        if op == "drop_none_check" and re.search(r"\bif (\w+) is None:", ln):
            new = re.sub(r"if (\w+) is None:", "if False:", ln)
        elif op == "drop_none_check" and re.search(r"\bif (\w+) is not None:", ln):
            new = re.sub(r"if (\w+) is not None:", "if True:", ln)
        elif op == "swap_isinstance" and "isinstance(" in ln:
            m = re.search(r"isinstance\((\w+), (\w+)\)", ln)
            if m:
                other = rng.choice([c for c in ["int", "str", "bytes", "float", "list", "tuple", "dict", "A", "B", "C", "D", "E", "NT"] if c != m.group(2)])
                new = ln.replace(m.group(0), f"isinstance({m.group(1)}, {other})")
        elif op == "negate_test" and re.match(r"\s*(if|elif|while) ", ln) and "not " not in ln:
            new = re.sub(r"^(\s*)(if|elif|while) (.*):$", r"\1\2 not (\3):", ln)
        elif op == "widen_annotation" and re.search(r": (int|str|A|B|C|D) = ", ln):
            new = re.sub(r": (int|str|A|B|C|D) = ", lambda m: f": Optional[{m.group(1)}] = ", ln, count=1)
        elif op == "narrow_annotation" and "Optional[" in ln and " = " in ln:
            new = re.sub(r"Optional\[(\w+)\]", r"\1", ln, count=1)
        elif op == "narrow_annotation" and ln.startswith("def f") and "Optional[" in ln:
            new = re.sub(r"Optional\[(\w+)\]", r"\1", ln, count=1)
        elif op == "widen_annotation" and ln.startswith("def f"):
            new = re.sub(r"(p\d): (int|str|A|B)\b", lambda m: f"{m.group(1)}: Optional[{m.group(2)}]", ln, count=1)
            if new == ln:
                new = None
        elif op == "swap_args" and re.search(r"\w+\(([^(),]+), ([^(),]+)\)", ln):
            new = re.sub(r"(\w+)\(([^(),]+), ([^(),]+)\)", r"\1(\3, \2)", ln, count=1)
        elif op == "replace_operand":
            names = sorted(set(re.findall(r"\b([vptdwrc]\d+|acc)\b", src)))
            here = re.findall(r"\b([vptdwrc]\d+)\b", ln)
            if here and len(names) > 1:
                a = rng.choice(here)
                b = rng.choice([n for n in names if n != a])
                new = re.sub(rf"\b{a}\b", b, ln, count=1)
        elif op == "drop_else" and ln.strip() == "else:":
            new = ln.replace("else:", "if True:")
        elif op == "change_return" and ln.strip().startswith("return "):
            new = re.sub(r"return .*", "return " + rng.choice(["None", "'s'", "0", "[]", "acc"]), ln)
        elif op == "wrong_value" and " = " in ln and ":" in ln.split(" = ")[0]:
            new = ln.split(" = ")[0] + " = " + rng.choice(["None", "'s'", "0", "[]", "{}", "A(1)", "(1, 's')", "1.5"])
        elif op == "swap_branches" and ln.strip().startswith("elif isinstance("):
            new = ln.replace("elif ", "if ", 1)
        elif op == "inject_any_eq" and re.search(r" in \((\d+|'[^']*'), ", ln):
            new = re.sub(r" in \((\d+|'[^']*'), ", " in (ANY_EQ, ", ln, count=1)
        elif op == "inject_any_eq" and re.search(r" == (E\.[XYZ]|\d+|'[^']*'):", ln):
            new = re.sub(r" == (E\.[XYZ]|\d+|'[^']*'):", " == ANY_EQ:", ln, count=1)
        elif op == "case_body_type" and i > 0 and lines[i - 1].strip().startswith("case ") and "+=" in ln:
            new = re.sub(r"\+= .*", "+= 's'", ln)
        elif op == "remove_or_default" and " or " in ln and " = " in ln:
            new = re.sub(r" or [^\n]+$", "", ln)
        if new is not None and new != ln:
            out = list(lines)
            out[i] = new
            text = "\n".join(out)
            try:
                compile(text, "<p>", "exec")
            except SyntaxError:
                continue
            return text, op
    return None
