"""C12 generators (parent side, pure data): the four bounded input spaces.

* call binding: signatures (<=4 parameters over positional-only / positional-or-keyword / *args /
  keyword-only / **kwargs x default/no default) and call shapes (<=4 actuals over positional,
  keyword, `*` fixed-length tuple of length 0-2, `**` total TypedDict with 0-2 keys);
* class hierarchies (every class picks an ordered subset of the earlier classes as bases);
* sys.version_info / sys.platform conditions;
* constant expressions over the folding grammar.

Nothing here touches mypy: the texts are handed to worker tasks that run the real checker and CPython."""

from __future__ import annotations

import itertools
import random
from typing import Any, Iterator, Sequence

# ------------------------------------------------------------------------------------------------
# 1. call binding
# ------------------------------------------------------------------------------------------------

PNAMES = "abcd"
# kinds: P positional-only, K positional-or-keyword, V *args, N keyword-only, W **kwargs
# a parameter is (kind, has_default)
Param = tuple[str, bool]
Sig = tuple[Param, ...]


def all_signatures(max_params: int = 4) -> list[Sig]:
    """All syntactically valid parameter lists with <= max_params parameters."""
    out: list[Sig] = []
    for n in range(max_params + 1):
        for np_ in range(n + 1):
            for nk in range(n - np_ + 1):
                for v in (0, 1):
                    for nn in range(n - np_ - nk - v + 1):
                        w = n - np_ - nk - v - nn
                        if w not in (0, 1) or v > n - np_ - nk:
                            continue
                        npos = np_ + nk
                        # defaults among positional params: a suffix has defaults
                        for ndef in range(npos + 1):
                            pos = [("P" if i < np_ else "K", i >= npos - ndef) for i in range(npos)]
                            for ndefs in itertools.product((False, True), repeat=nn):
                                sig = list(pos)
                                if v:
                                    sig.append(("V", False))
                                sig += [("N", d) for d in ndefs]
                                if w:
                                    sig.append(("W", False))
                                out.append(tuple(sig))
    # de-duplicate (ndef loops can coincide when npos == 0)
    seen: set[Sig] = set()
    res = []
    for s in out:
        if s not in seen:
            seen.add(s)
            res.append(s)
    return res


def sig_names(sig: Sig) -> list[str]:
    return [PNAMES[i] for i in range(len(sig))]


def sig_src(sig: Sig, fname: str) -> str:
    parts: list[str] = []
    names = sig_names(sig)
    kinds = [k for k, _ in sig]
    for i, (k, d) in enumerate(sig):
        nm = names[i]
        if k == "N" and "V" not in kinds and (i == 0 or sig[i - 1][0] != "N"):
            parts.append("*")
        if k == "V":
            parts.append(f"*{nm}: int")
        elif k == "W":
            parts.append(f"**{nm}: int")
        else:
            parts.append(f"{nm}: int" + (" = 0" if d else ""))
        if k == "P" and (i + 1 == len(sig) or sig[i + 1][0] != "P"):
            parts.append("/")
    return f"def {fname}({', '.join(parts)}) -> None: ..."


def sig_id(sig: Sig) -> str:
    return "".join(k + ("d" if d else "") for k, d in sig) or "-"


# an actual is ("pos",) | ("kw", name) | ("star", n) | ("td", (keys...))
Actual = tuple[Any, ...]


def actual_options(sig: Sig, extra_names: Sequence[str] = ("z",)) -> list[Actual]:
    names = sig_names(sig) + list(extra_names)
    opts: list[Actual] = [("pos",)]
    opts += [("kw", n) for n in names]
    opts += [("star", k) for k in (0, 1, 2)]
    opts.append(("td", ()))
    opts += [("td", (n,)) for n in names]
    opts += [("td", c) for c in itertools.combinations(names, 2)]
    return opts


def call_valid(call: Sequence[Actual]) -> bool:
    """Python call syntax: no positional after keyword or after **; no * after **; no repeated keyword."""
    seen_kw = False
    seen_dstar = False
    kws: set[str] = set()
    for a in call:
        t = a[0]
        if t == "pos":
            if seen_kw or seen_dstar:
                return False
        elif t == "star":
            if seen_dstar:
                return False
        elif t == "kw":
            if a[1] in kws:
                return False
            kws.add(a[1])
            seen_kw = True
        else:
            seen_dstar = True
    return True


def all_calls(sig: Sig, max_actuals: int) -> Iterator[tuple[Actual, ...]]:
    opts = actual_options(sig)
    for n in range(max_actuals + 1):
        for call in itertools.product(opts, repeat=n):
            if call_valid(call):
                yield call


def random_call(sig: Sig, rng: random.Random, max_actuals: int = 4) -> tuple[Actual, ...]:
    """Biased sampler over the same space (uniform sampling is ~97 % trivially rejecting)."""
    names = sig_names(sig) + ["z"]
    while True:
        n = rng.choice((0, 1, 2, 2, 3, 3, 4, 4))
        call: list[Actual] = []
        for _ in range(n):
            r = rng.random()
            if r < 0.30:
                call.append(("pos",))
            elif r < 0.55:
                call.append(("kw", rng.choice(names)))
            elif r < 0.75:
                call.append(("star", rng.choice((0, 1, 2))))
            else:
                k = rng.choice((0, 1, 1, 2, 2))
                call.append(("td", tuple(sorted(rng.sample(names, min(k, len(names)))))))
        # order into a syntactically plausible form most of the time
        if rng.random() < 0.8:
            order = {"pos": 0, "star": 0, "kw": 1, "td": 2}
            if rng.random() < 0.3:
                order["star"] = 1
            if rng.random() < 0.3:
                order["td"] = 1
            call.sort(key=lambda a: order[a[0]])
        if call_valid(call):
            return tuple(call)


def td_name(keys: Sequence[str]) -> str:
    return "D_" + "_".join(keys)


def call_src(call: Sequence[Actual], fname: str) -> str:
    parts = []
    for a in call:
        if a[0] == "pos":
            parts.append("1")
        elif a[0] == "kw":
            parts.append(f"{a[1]}=1")
        elif a[0] == "star":
            parts.append(f"*T{a[1]}")
        else:
            parts.append("**" + td_name(a[1]))
    return f"{fname}({', '.join(parts)})"


def call_id(call: Sequence[Actual]) -> str:
    out = []
    for a in call:
        if a[0] == "pos":
            out.append("p")
        elif a[0] == "kw":
            out.append("k:" + a[1])
        elif a[0] == "star":
            out.append(f"*{a[1]}")
        else:
            out.append("**{" + ",".join(a[1]) + "}")
    return " ".join(out) or "-"


def call_prelude(tds: set[tuple[str, ...]]) -> list[str]:
    lines = ["from typing import TypedDict", "T0: tuple[()] = ()", "T1: tuple[int] = (1,)",
             "T2: tuple[int, int] = (1, 2)"]
    for keys in sorted(tds):
        nm = td_name(keys)
        body = "; ".join(f"{k}: int" for k in keys) or "pass"
        lines.append(f"class C{nm}(TypedDict): {body}")
        lines.append(f"{nm}: C{nm} = {{{', '.join(repr(k) + ': 1' for k in keys)}}}")
    return lines


def call_module(cases: Sequence[tuple[Sig, tuple[Actual, ...]]]) -> tuple[str, list[int]]:
    """Module text with one call per line; returns (text, 1-based line number of every case)."""
    sigs: dict[Sig, str] = {}
    tds: set[tuple[str, ...]] = set()
    for sig, call in cases:
        if sig not in sigs:
            sigs[sig] = f"f{len(sigs)}"
        for a in call:
            if a[0] == "td":
                tds.add(a[1])
    lines = call_prelude(tds)
    for sig, fn in sigs.items():
        lines.append(sig_src(sig, fn))
    linenos = []
    for sig, call in cases:
        lines.append(call_src(call, sigs[sig]))
        linenos.append(len(lines))
    return "\n".join(lines) + "\n", linenos


# ------------------------------------------------------------------------------------------------
# 2. class hierarchies
# ------------------------------------------------------------------------------------------------

Hier = tuple[tuple[int, ...], ...]   # bases (indices of earlier classes, in order) of class i


def ordered_subsets(n: int) -> list[tuple[int, ...]]:
    out: list[tuple[int, ...]] = []
    for k in range(n + 1):
        out += list(itertools.permutations(range(n), k))
    return out


def all_hierarchies(n: int) -> Iterator[Hier]:
    """Hierarchies with exactly n classes."""
    return itertools.product(*[ordered_subsets(i) for i in range(n)])


def count_hierarchies(n: int) -> int:
    c = 1
    for i in range(n):
        c *= len(ordered_subsets(i))
    return c


def random_hierarchy(n: int, rng: random.Random) -> Hier:
    h = []
    for i in range(n):
        if rng.random() < 0.5:
            # uniform over ordered subsets is dominated by long permutations; mix with short ones
            k = rng.randint(0, min(i, 3))
            h.append(tuple(rng.sample(range(i), k)))
        else:
            h.append(rng.choice(ordered_subsets(i)))
    return tuple(h)


def hier_src(h: Hier, prefix: str) -> list[str]:
    lines = []
    for i, bases in enumerate(h):
        b = ", ".join(f"{prefix}{j}" for j in bases)
        lines.append(f"class {prefix}{i}({b}): pass" if b else f"class {prefix}{i}: pass")
    return lines


# ------------------------------------------------------------------------------------------------
# 3. version / platform conditions
# ------------------------------------------------------------------------------------------------

CMP_OPS = ("==", "!=", "<", "<=", ">", ">=")
VERSIONS = [(3, m) for m in range(16)]
PLATFORMS = ["linux", "win32", "darwin", "emscripten", "unknown"]


def version_atoms(minors: Sequence[int] = tuple(range(17))) -> list[str]:
    lhs_tuple = ["sys.version_info", "sys.version_info[:1]", "sys.version_info[:2]", "sys.version_info[:3]",
                 "sys.version_info[0:2]", "sys.version_info[1:2]", "sys.version_info[:]", "sys.version_info[0:1]",
                 "sys.version_info[::1]", "sys.version_info[:2:1]", "sys.version_info[::2]", "sys.version_info[1:]",
                 "sys.version_info[-5:2]", "sys.version_info[:-3]"]
    lhs_int = ["sys.version_info[0]", "sys.version_info[1]", "sys.version_info[2]", "sys.version_info[-5]",
               "sys.version_info.major", "sys.version_info.minor"]
    rhs_tuple = ["(2,)", "(3,)", "(4,)", "()"]
    for m in minors:
        rhs_tuple += [f"(3, {m})", f"({m},)"]
    for m in (0, 7, 8, 12, 15):
        rhs_tuple += [f"(3, {m}, 0)", f"(3, {m}, 1)", f"(2, {m})", f"(4, {m})", f"(3, {m}, 0, 'final', 0)",
                      f"(3, {m}, 0, 'alpha', 0)"]
    rhs_int = ["2", "3", "4"] + [str(m) for m in minors if m > 4]
    out = []
    for op in CMP_OPS:
        for l in lhs_tuple:
            for r in rhs_tuple:
                out.append(f"{l} {op} {r}")
                out.append(f"{r} {op} {l}")
        for l in lhs_int:
            for r in rhs_int:
                out.append(f"{l} {op} {r}")
                out.append(f"{r} {op} {l}")
    # chained comparisons (must stay unknown or be right)
    out += ["(3, 5) <= sys.version_info < (3, 10)", "(3,) < sys.version_info[:2] <= (3, 12)",
            "3 <= sys.version_info[0] < 4"]
    return out


def platform_atoms() -> list[str]:
    out = []
    names = ["linux", "win32", "darwin", "emscripten", "unknown", "cygwin", "win", "lin", "", "linux2", "Linux"]
    for n in names:
        out += [f"sys.platform == {n!r}", f"sys.platform != {n!r}", f"{n!r} == sys.platform", f"{n!r} != sys.platform",
                f"sys.platform.startswith({n!r})", f"sys.platform.endswith({n!r})", f"sys.platform in ({n!r}, 'x')",
                f"sys.platform < {n!r}", f"sys.platform >= {n!r}"]
    out += ["sys.platform.startswith(('win', 'lin'))", "sys.platform.startswith('in', 1)"]
    return out


COMBO_FORMS = ["not ({0})", "({0}) and ({1})", "({0}) or ({1})", "not (({0}) and ({1}))", "not (({0}) or ({1}))",
               "(({0}) and ({1})) or ({2})", "(({0}) or ({1})) and ({2})", "(not ({0})) and ({1})", "({0}) or (not ({1}))",
               "not (not ({0}))", "({0}) and (({1}) or ({2}))", "({0}) or (({1}) and ({2}))"]


def combine_conditions(atoms: Sequence[str], rng: random.Random, n: int) -> list[tuple[str, str, tuple[str, ...]]]:
    """not / and / or combinations of depth <= 2 over the atoms: (text, form, atoms used)."""
    out = []
    for _ in range(n):
        form = rng.choice(COMBO_FORMS)
        k = 3 if "{2}" in form else 2 if "{1}" in form else 1
        used = tuple(rng.choice(atoms) for _ in range(k))
        out.append((form.format(*used), form, used))
    return out


# ------------------------------------------------------------------------------------------------
# 4. constant folding
# ------------------------------------------------------------------------------------------------

INT_LEAVES = ["0", "1", "2", "3", "7", "10", "31", "32", "63", "64", "65", "255", "1023", "1024", "2147483647",
              "2147483648", "4294967295", "9223372036854775807", "9223372036854775808", "18446744073709551617",
              "100000000000000000000", "0x10", "0b101", "0o17", "1_000", "(-1)", "(-2)", "(-7)", "(-9223372036854775808)"]
FLOAT_LEAVES = ["0.0", "1.0", "0.5", "2.5", "3.0", "1e308", "5e-324", "1e-320", "1.5e300", "0.1", "7.0", "1e16",
                "9007199254740993.0", "1e400", "(-2.5)", "(-0.0)"]
STR_LEAVES = ['""', '"a"', '"ab"', "'\\n'", '"\\u00e9"', 'r"\\x"']
BYTES_LEAVES = ['b""', 'b"a"', 'b"\\xff"', 'b"ab"']
COMPLEX_LEAVES = ["1j", "0j", "2.5j", "1e308j"]
BOOL_LEAVES = ["True", "False"]
BIN_OPS = ["+", "-", "*", "/", "//", "%", "**", "<<", ">>", "&", "|", "^"]
UN_OPS = ["-", "+", "~", "not "]
OTHER_OPS = ["and", "or", "==", "<", "in", "@"]


def leaves_by_type() -> dict[str, list[str]]:
    return {"int": INT_LEAVES, "float": FLOAT_LEAVES, "str": STR_LEAVES, "bytes": BYTES_LEAVES,
            "complex": COMPLEX_LEAVES, "bool": BOOL_LEAVES}


def all_leaves() -> list[str]:
    return [x for v in leaves_by_type().values() for x in v]


def fold_depth1() -> list[str]:
    """Every unary op x leaf, and every binary op x leaf x leaf (complete for depth 1)."""
    ls = all_leaves()
    out = list(ls)
    for op in UN_OPS:
        out += [f"{op}{x}" for x in ls]
    for op in BIN_OPS:
        for a in ls:
            for b in ls:
                out.append(f"{a} {op} {b}")
    return out


def random_fold_expr(rng: random.Random, depth: int, names: Sequence[str] = ()) -> str:
    """Expression of the folding grammar with the given maximal depth; numeric-heavy."""
    if depth == 0 or rng.random() < 0.15:
        if names and rng.random() < 0.25:
            return rng.choice(names)
        r = rng.random()
        ty = ("int" if r < 0.55 else "float" if r < 0.75 else "bool" if r < 0.82 else "str" if r < 0.90
              else "complex" if r < 0.95 else "bytes")
        return rng.choice(leaves_by_type()[ty])
    r = rng.random()
    if r < 0.22:
        op = rng.choice(UN_OPS[:3]) if rng.random() < 0.95 else "not "
        inner = random_fold_expr(rng, depth - 1, names)
        return f"{op}({inner})" if not inner.replace("_", "").isalnum() else f"{op}{inner}"
    if r < 0.25:
        op = rng.choice(OTHER_OPS)
        return f"({random_fold_expr(rng, depth - 1, names)}) {op} ({random_fold_expr(rng, depth - 1, names)})"
    op = rng.choice(BIN_OPS)
    a = random_fold_expr(rng, depth - 1, names)
    b = random_fold_expr(rng, depth - 1, names)
    return f"({a}) {op} ({b})"


# --- size guard: keeps generated expressions cheap to evaluate for BOTH sides (it is not the oracle) -----------------

class _TooBig(Exception):
    pass


_MAX_BITS = 12000          # < 4300 decimal digits, so reprs stay printable
_MAX_LEN = 20000


def _guard_eval(node: Any, env: dict[str, Any]) -> Any:
    """Evaluate an expression AST with pre-checks that refuse operations whose result would be huge or slow.
    Raises _TooBig for those; any other exception means 'the expression raises at run time' (cheaply)."""
    import ast
    import operator as O

    if isinstance(node, ast.Expression):
        return _guard_eval(node.body, env)
    if isinstance(node, ast.Constant):
        return node.value
    if isinstance(node, ast.Name):
        if node.id in env:
            v = env[node.id]
            if isinstance(v, BaseException):
                raise v
            return v
        raise NameError(node.id)
    if isinstance(node, ast.UnaryOp):
        v = _guard_eval(node.operand, env)
        return {ast.USub: O.neg, ast.UAdd: O.pos, ast.Invert: O.invert, ast.Not: O.not_}[type(node.op)](v)
    if isinstance(node, ast.BoolOp):
        vals = []
        pend2: BaseException | None = None
        for x in node.values:   # evaluates all sides (stricter than needed)
            try:
                vals.append(_guard_eval(x, env))
            except _TooBig:
                raise
            except BaseException as e:
                pend2 = pend2 or e
        if pend2 is not None:
            raise pend2
        r = vals[0]
        for v in vals[1:]:
            r = (r and v) if isinstance(node.op, ast.And) else (r or v)
        return r
    if isinstance(node, ast.Compare):
        pend3: BaseException | None = None
        try:
            l = _guard_eval(node.left, env)
        except _TooBig:
            raise
        except BaseException as e:
            pend3 = e
        r = _guard_eval(node.comparators[0], env)
        if pend3 is not None:
            raise pend3
        if len(node.ops) != 1:
            raise _TooBig()
        op = node.ops[0]
        fn = {ast.Eq: O.eq, ast.Lt: O.lt, ast.In: lambda a, b: a in b}.get(type(op))
        if fn is None:
            raise _TooBig()
        return fn(l, r)
    if isinstance(node, ast.BinOp):
        # both operands are always evaluated (a static folder looks at the right operand even if the left one raises)
        pend: BaseException | None = None
        try:
            l = _guard_eval(node.left, env)
        except _TooBig:
            raise
        except BaseException as e:
            pend = e
        r = _guard_eval(node.right, env)
        if pend is not None:
            raise pend
        op = type(node.op)
        li, ri = isinstance(l, int), isinstance(r, int)
        if op is ast.Pow and li and ri and r >= 0:
            if abs(l) > 1 and l.bit_length() * r > _MAX_BITS:
                raise _TooBig()
        elif op is ast.Pow and li and ri and r < 0:
            if abs(l) > 1 and -r > 10 ** 6 and False:
                raise _TooBig()
        elif op is ast.LShift and li and ri:
            if l != 0 and 0 <= r < (1 << 62) and l.bit_length() + r > _MAX_BITS:
                raise _TooBig()
        elif op is ast.Mult:
            for a, b in ((l, r), (r, l)):
                if isinstance(a, (str, bytes)) and isinstance(b, int) and 0 < b < (1 << 62) and len(a) * b > _MAX_LEN:
                    raise _TooBig()
            if li and ri and l.bit_length() + r.bit_length() > _MAX_BITS:
                raise _TooBig()
        fn = {ast.Add: O.add, ast.Sub: O.sub, ast.Mult: O.mul, ast.Div: O.truediv, ast.FloorDiv: O.floordiv,
              ast.Mod: O.mod, ast.Pow: O.pow, ast.LShift: O.lshift, ast.RShift: O.rshift, ast.BitAnd: O.and_,
              ast.BitOr: O.or_, ast.BitXor: O.xor, ast.MatMult: O.matmul}[op]
        v = fn(l, r)
        if isinstance(v, int) and v.bit_length() > _MAX_BITS:
            raise _TooBig()
        return v
    raise _TooBig()


def fold_guard(expr: str, env: dict[str, Any] | None = None) -> tuple[bool, Any]:
    """(cheap?, value-or-exception). Not an oracle: only decides whether the case is generated at all."""
    import ast
    import warnings
    try:
        with warnings.catch_warnings():
            warnings.simplefilter("ignore")
            tree = ast.parse(expr, mode="eval")
            return True, _guard_eval(tree, env or {})
    except _TooBig:
        return False, None
    except RecursionError:
        return False, None
    except BaseException as e:
        return True, e
