"""Build/run harness shared by C05 (compiled vs interpreted transcript) and C06 (memory safety).

* build_program: mypycify + setuptools build_ext of a generated multi-module program in a scratch directory, with the
  mypyc + lib-rt of the repository under test (VERIF_REPO).  The setup script wraps (attribute replacement, original
  always called, result unchanged) `mypyc.codegen.emitmodule.compile_modules_to_ir` to dump, per function, the names
  of the ops / C primitives / native calls in its *final* IR (non-triviality and coverage cells), and the set of
  registered primitive descriptions of the live `mypyc.primitives` package.
* run_driver: runs vlib/c05_driver.py in a fresh process next to the compiled extension(s) or next to the plain
  sources, optionally under ASan/UBSan or valgrind, and parses the transcript and the sanitizer logs.

All functions here are pool tasks as well ("vlib.c05_harness:build_program" etc.): they return JSON values.
Nothing is cached between check runs.
"""

from __future__ import annotations

import glob
import json
import os
import re
import shutil
import signal
import subprocess
import time
from typing import Any

from vlib import common

DRIVER = os.path.join(common.VERIF, "vlib", "c05_driver.py")

SAN_CFLAGS = ("-O1 -g -fno-omit-frame-pointer -fsanitize=address,undefined "
              "-fno-sanitize=shift-base,signed-integer-overflow -fno-sanitize-recover=all")
SAN_LDFLAGS = "-fsanitize=address,undefined -shared-libasan"

# name -> mypycify keyword arguments + environment of the build
CONFIGS: dict[str, dict[str, Any]] = {
    "o0": {"opt": "0"},
    "o3": {"opt": "3"},
    "mf0": {"opt": "0", "multi_file": True},
    "mf3": {"opt": "3", "multi_file": True},
    "sep0": {"opt": "0", "separate": True},
    "sep3": {"opt": "3", "separate": True},
    "g0": {"opt": "0", "debug": "2"},
    "asan": {"opt": "1", "debug": "2",
             "env": {"CC": "clang", "LDSHARED": "clang -shared", "CFLAGS": SAN_CFLAGS, "LDFLAGS": SAN_LDFLAGS}},
}

SETUP = r'''
import json, sys
from setuptools import setup
from mypyc.build import mypycify
from mypyc.codegen import emitmodule

_orig = emitmodule.compile_modules_to_ir


def _summarise(modules):
    from mypyc.ir import ops as O
    out = {}
    for name, mod in modules.items():
        fns = list(mod.functions)
        for cl in mod.classes:
            for fn in cl.methods.values():
                if fn not in fns:
                    fns.append(fn)
        for fn in fns:
            s = set()
            for b in fn.blocks:
                for op in b.ops:
                    if isinstance(op, O.CallC):
                        s.add("c:" + op.function_name)
                    elif isinstance(op, O.Call):
                        s.add("call:native")
                    elif isinstance(op, O.MethodCall):
                        s.add("call:method")
                    elif isinstance(op, O.PrimitiveOp):
                        s.add("prim:" + op.desc.name)
                    elif isinstance(op, O.IntOp):
                        s.add("IntOp:" + O.IntOp.op_str.get(op.op, str(op.op)))
                    elif isinstance(op, O.ComparisonOp):
                        s.add("ComparisonOp:" + O.ComparisonOp.op_str.get(op.op, str(op.op)))
                    elif isinstance(op, O.FloatOp):
                        s.add("FloatOp:" + O.FloatOp.op_str.get(op.op, str(op.op)))
                    elif isinstance(op, O.Branch):
                        s.add("Branch:" + ("err" if op.op == O.Branch.IS_ERROR else "bool"))
                    else:
                        s.add(type(op).__name__)
            key = name + ":" + ((fn.class_name + ".") if fn.class_name else "") + fn.name + ":" + str(fn.line)
            out[key] = sorted(s)
    return out


def _registered():
    import importlib, pkgutil
    import mypyc.primitives as P
    from mypyc.ir.ops import PrimitiveDescription
    names = set()
    for mi in pkgutil.iter_modules(P.__path__):
        m = importlib.import_module("mypyc.primitives." + mi.name)
        for v in vars(m).values():
            if isinstance(v, PrimitiveDescription) and v.c_function_name:
                names.add(v.c_function_name)
    from mypyc.primitives import registry as R
    for table in (R.method_call_ops, R.function_ops, R.binary_ops, R.unary_ops):
        for lst in table.values():
            for d in lst:
                if getattr(d, "c_function_name", None):
                    names.add(d.c_function_name)
    return sorted(names)


def _wrapped(*a, **k):
    r = _orig(*a, **k)
    try:
        with open("c05_ir.json", "w") as f:
            json.dump({"functions": _summarise(r), "registered": _registered()}, f)
    except Exception as e:  # the hook must never disturb the build
        with open("c05_ir.err", "w") as f:
            f.write(repr(e))
    return r


emitmodule.compile_modules_to_ir = _wrapped

setup(name="c05prog",
      ext_modules=mypycify(%(paths)r, opt_level=%(opt)r, debug_level=%(debug)r, multi_file=%(multi_file)r,
                           separate=%(separate)r, strip_asserts=False),
      script_args=["build_ext", "--inplace", "-q"])
'''


def asan_runtime() -> str | None:
    try:
        p = subprocess.run(["clang", "-print-file-name=libclang_rt.asan-x86_64.so"], capture_output=True, text=True,
                           timeout=30)
    except (OSError, subprocess.TimeoutExpired):
        return None
    path = p.stdout.strip()
    return path if os.path.isabs(path) and os.path.exists(path) else None


def build_program(files: dict[str, str], outdir: str, config: str, timeout: float = 1500) -> dict[str, Any]:
    """Compile `files` ({"mod.py": source}) into extension modules inside `outdir`."""
    cfg = CONFIGS[config]
    if os.path.isdir(outdir):
        shutil.rmtree(outdir, ignore_errors=True)
    os.makedirs(outdir)
    for rel, text in files.items():
        with open(os.path.join(outdir, rel), "w", encoding="utf-8") as f:
            f.write(text)
    paths = sorted(files)
    with open(os.path.join(outdir, "setup_c05.py"), "w") as f:
        f.write(SETUP % {"paths": paths, "opt": cfg["opt"], "debug": cfg.get("debug", "1"),
                         "multi_file": bool(cfg.get("multi_file")), "separate": bool(cfg.get("separate"))})
    env = common.base_env(**cfg.get("env", {}))
    if "env" not in cfg:
        for k in ("CC", "CFLAGS", "LDFLAGS", "LDSHARED"):
            env.pop(k, None)
    env["MYPY_CACHE_DIR"] = os.path.join(outdir, ".mypy_cache")
    env.pop("MYPYC_OPT_LEVEL", None)
    t0 = time.time()
    try:
        p = subprocess.run([common.PY, "setup_c05.py"], cwd=outdir, env=env, capture_output=True, text=True,
                           timeout=timeout, stdin=subprocess.DEVNULL, start_new_session=True)
    except subprocess.TimeoutExpired:
        return {"ok": False, "timeout": True, "errors": [], "log": "TIMEOUT", "wall": time.time() - t0, "config": config}
    log = p.stdout + p.stderr
    mods = [os.path.splitext(x)[0] for x in paths]
    sos = {m: (glob.glob(os.path.join(outdir, m + ".*.so")) + glob.glob(os.path.join(outdir, m + ".so"))) for m in mods}
    ok = p.returncode == 0 and all(sos.values())
    errors = [(m.group(1), int(m.group(2)), m.group(3)) for m in re.finditer(r"(?m)^(\w+\.py):(\d+): error: (.*)$", log)]
    ir: dict[str, Any] = {}
    try:
        with open(os.path.join(outdir, "c05_ir.json")) as f:
            ir = json.load(f)
    except (OSError, ValueError):
        pass
    internal = None
    if not ok and not errors:
        m = re.search(r"(?s)Traceback \(most recent call last\):.*", log)
        if m and "mypyc" in m.group(0):
            tb = m.group(0)
            frames = re.findall(r'File "[^"]*/(mypyc?/[^"]+)", line \d+, in (\w+)', tb)
            last = tb.strip().splitlines()[-1][:160]
            internal = {"where": "/".join(frames[-1]) if frames else "?", "last": last, "tb": tb[-3000:]}
    cerr = [m.group(0)[:300] for m in re.finditer(r"(?m)^.*\.c:\d+:\d+: error: .*$", log)][:5]
    c_units = [] if ok else _units_of_c_errors(outdir, log)
    return {"ok": ok, "rc": p.returncode, "errors": errors, "c_errors": cerr, "c_units": c_units, "internal": internal,
            "log": log[-3000:] if not ok else "", "wall": time.time() - t0, "config": config, "outdir": outdir,
            "ir": ir}


def _units_of_c_errors(outdir: str, log: str) -> list[str]:
    """Unit names (u<k> prefixes of generated definitions) nearest above each C compiler error."""
    out: list[str] = []
    cache: dict[str, list[str]] = {}
    for m in re.finditer(r"(?m)^(\S+\.c):(\d+):\d+: error: ", log):
        path = os.path.join(outdir, m.group(1))
        if path not in cache:
            try:
                with open(path, errors="replace") as f:
                    cache[path] = f.read().split("\n")
            except OSError:
                cache[path] = []
        lines = cache[path]
        i = min(int(m.group(2)), len(lines)) - 1
        lo = max(0, i - 400)
        while i >= lo:
            u = re.search(r"(?<![A-Za-z0-9])(u\d+)(?=[A-Z_])", lines[i])
            if u:
                if u.group(1) not in out:
                    out.append(u.group(1))
                break
            i -= 1
    return out


def task_cgen(source: str, outdir: str, timeout: float = 600) -> dict[str, Any]:
    """mypyc front end + C generation only (no C compiler) for a single-module source: does mypyc itself fail?"""
    if os.path.isdir(outdir):
        shutil.rmtree(outdir, ignore_errors=True)
    os.makedirs(outdir)
    with open(os.path.join(outdir, "native.py"), "w") as f:
        f.write(source)
    env = common.base_env()
    env["MYPY_CACHE_DIR"] = os.path.join(outdir, ".mypy_cache")
    code = ("from mypyc.build import mypyc_build\nfrom mypyc.options import CompilerOptions\n"
            "mypyc_build(['native.py'], CompilerOptions(target_dir='build'))\n")
    try:
        p = subprocess.run([common.PY, "-c", code], cwd=outdir, env=env, capture_output=True, text=True, timeout=timeout,
                           stdin=subprocess.DEVNULL, start_new_session=True)
    except subprocess.TimeoutExpired:
        return {"ok": False, "timeout": True}
    log = p.stdout + p.stderr
    shutil.rmtree(outdir, ignore_errors=True)
    return {"ok": p.returncode == 0, "traceback": "Traceback (most recent call last)" in log, "log": log[-1500:]}


_SAN_KIND = re.compile(r"ERROR: AddressSanitizer: ([\w-]+)|runtime error: ([^\n]{0,160})|"
                       r"==\d+== (Invalid (?:read|write)[^\n]*|Conditional jump or move depends on uninitialised[^\n]*|"
                       r"Use of uninitialised value[^\n]*|Invalid free[^\n]*|Mismatched free[^\n]*)")


def parse_san_logs(prefix: str, stderr: str) -> list[dict[str, Any]]:
    """Sanitizer / memcheck report blocks -> [{"kind", "frames": top frames inside generated C / lib-rt, "text"}]."""
    texts: list[str] = []
    for path in sorted(glob.glob(prefix + "*")):
        try:
            with open(path, errors="replace") as f:
                texts.append(f.read())
        except OSError:
            pass
    if "AddressSanitizer" in stderr or "runtime error:" in stderr or "==ERROR" in stderr:
        texts.append(stderr)
    out: list[dict[str, Any]] = []
    for text in texts:
        for m in _SAN_KIND.finditer(text):
            kind = m.group(1) or (("ubsan:" + re.sub(r"0x[0-9a-f]+|\d+", "N", m.group(2))[:80]) if m.group(2) else None) \
                or ("memcheck:" + re.sub(r"\d+", "N", m.group(3))[:60])
            tail = text[m.start(): m.start() + 6000]
            frames = re.findall(r"(?m)^\s*(?:#\d+ 0x[0-9a-f]+ in|==\d+==\s+(?:at|by) 0x[0-9A-F]+:) (\w+)", tail)[:12]
            own = [f for f in frames if f.startswith(("CPy", "CPyDef", "CPyPy", "CPyL", "CPyTagged", "CPyStatic")) or "___" in f]
            out.append({"kind": kind, "frames": frames[:8], "own_frames": own[:4], "text": tail[:2500]})
    return out


MAX_RSS_MB = int(os.environ.get("VERIF_C05_MAX_RSS_MB", "6000"))


def _rss_mb(pid: int) -> float:
    try:
        with open(f"/proc/{pid}/status") as f:
            for ln in f:
                if ln.startswith("VmRSS:"):
                    return int(ln.split()[1]) / 1024.0
    except (OSError, ValueError, IndexError):
        pass
    return 0.0


def run_driver(spec: dict[str, Any], cwd: str, out_path: str, mode: str = "plain", timeout: float = 600,
               log_prefix: str | None = None) -> dict[str, Any]:
    """Run the driver in `cwd` (where the modules are importable). mode: plain | asan | valgrind."""
    spec_path = out_path + ".spec.json"
    with open(spec_path, "w") as f:
        json.dump(spec, f)
    if os.path.exists(out_path):
        os.unlink(out_path)
    env = common.base_env()
    env["PYTHONPATH"] = cwd  # only the program's own directory; mypy/mypyc are not needed at run time
    env["PYTHONFAULTHANDLER"] = "0"
    cmd = [common.PY, "-X", "faulthandler=0", DRIVER, spec_path, out_path]
    log_prefix = log_prefix or (out_path + ".san")
    if mode == "asan":
        rt = asan_runtime()
        if rt is None:
            return {"status": None, "error": "no asan runtime", "records": [], "san": []}
        env.update({"LD_PRELOAD": rt, "PYTHONMALLOC": "malloc",
                    "ASAN_OPTIONS": f"detect_leaks=0:abort_on_error=1:log_path={log_prefix}:allocator_may_return_null=1",
                    "UBSAN_OPTIONS": f"print_stacktrace=1:log_path={log_prefix}:halt_on_error=1"})
    elif mode == "valgrind":
        env["PYTHONMALLOC"] = "malloc"
        cmd = ["valgrind", "-q", "--error-exitcode=0", f"--log-file={log_prefix}.vg", "--num-callers=14"] + cmd
    t0 = time.time()
    timed_out = False
    err_path = out_path + ".stderr"
    with open(err_path, "wb") as errf:
        proc = subprocess.Popen(cmd, cwd=cwd, env=env, stdout=subprocess.DEVNULL, stderr=errf, stdin=subprocess.DEVNULL,
                                start_new_session=True)
        status: int | None = None
        while True:
            try:
                status = proc.wait(timeout=1.0)
                break
            except subprocess.TimeoutExpired:
                pass
            # watchdog: wall clock, and resident memory (a generated call that grows without bound must not take the
            # machine down; RLIMIT_AS cannot be used under ASan).  Either way the call is inconclusive, never a verdict.
            if time.time() - t0 > timeout or _rss_mb(proc.pid) > MAX_RSS_MB:
                timed_out = True
                try:
                    os.killpg(proc.pid, 9)
                except OSError:
                    proc.kill()
                proc.wait()
                status = None
                break
    try:
        with open(err_path, errors="replace") as f:
            stderr = f.read()[-6000:]
    except OSError:
        stderr = ""
    records: list[dict[str, Any]] = []
    try:
        with open(out_path, errors="replace") as f:
            for ln in f:
                try:
                    records.append(json.loads(ln))
                except ValueError:
                    pass
    except OSError:
        pass
    sig = None
    if status is not None and status < 0:
        try:
            sig = signal.Signals(-status).name
        except ValueError:
            sig = str(-status)
    return {"status": status, "signal": sig, "timeout": timed_out, "stderr": stderr, "records": records,
            "san": parse_san_logs(log_prefix, stderr) if mode != "plain" else [], "wall": time.time() - t0}


def drive_all(spec: dict[str, Any], cwd: str, out_path: str, mode: str = "plain", timeout: float = 600,
              max_restarts: int = 6) -> dict[str, Any]:
    """run_driver, restarted past calls that kill the process (each such call is reported in "crashes")."""
    spec = dict(spec)
    skip = list(spec.get("skip", []))
    by_call: dict[str, dict[str, Any]] = {}
    crashes: list[dict[str, Any]] = []
    san: list[dict[str, Any]] = []
    header: dict[str, Any] = {}
    wall = 0.0
    done = False
    last: dict[str, Any] = {}
    for attempt in range(max_restarts + 1):
        spec["skip"] = skip
        r = run_driver(spec, cwd, f"{out_path}.{attempt}", mode, timeout, log_prefix=f"{out_path}.{attempt}.san")
        last = r
        wall += r.get("wall", 0.0)
        begun = None
        for rec in r["records"]:
            if "begin" in rec:
                begun = rec
            elif "c" in rec:
                by_call[rec["c"]] = rec
                begun = None
            elif "loaded" in rec or "import_error" in rec:
                header.update(rec)
            elif rec.get("done"):
                done = True
        for s in r["san"]:
            s["call"] = begun["begin"] if begun else None
            s["unit"] = begun["u"] if begun else None
            san.append(s)
        if done or "import_error" in header or r.get("error"):
            break
        if begun is None:
            crashes.append({"call": None, "unit": None, "status": r["status"], "signal": r["signal"],
                            "timeout": r["timeout"], "stderr": r["stderr"][-1500:]})
            break
        crashes.append({"call": begun["begin"], "unit": begun["u"], "status": r["status"], "signal": r["signal"],
                        "timeout": r["timeout"], "stderr": r["stderr"][-1500:]})
        skip.append(begun["begin"])
    return {"calls": by_call, "crashes": crashes, "san": san, "header": header, "done": done, "wall": wall,
            "status": last.get("status"), "stderr": (last.get("stderr") or "")[-1500:], "error": last.get("error")}


def write_sources(files: dict[str, str], outdir: str) -> str:
    """Directory with the plain sources only (the interpreted reference imports from here)."""
    if os.path.isdir(outdir):
        shutil.rmtree(outdir, ignore_errors=True)
    os.makedirs(outdir)
    for rel, text in files.items():
        with open(os.path.join(outdir, rel), "w", encoding="utf-8") as f:
            f.write(text)
    return outdir


# ---- pool tasks -----------------------------------------------------------------------------------------

def task_build(files: dict[str, str], outdir: str, config: str) -> dict[str, Any]:
    return build_program(files, outdir, config)


def task_drive(spec: dict[str, Any], cwd: str, out_path: str, mode: str = "plain", timeout: float = 600,
               files: dict[str, str] | None = None) -> dict[str, Any]:
    if files is not None:
        write_sources(files, cwd)
    return drive_all(spec, cwd, out_path, mode, timeout)
