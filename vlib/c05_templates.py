"""Part 3 of the C05/C06 program generator: template units (one construct each, random types/values).

Every template is `f(rng, u, hostile) -> unit dict` with keys
  src    source of one or more top-level definitions (all names prefixed with the unit name `u`)
  calls  [{"setup": [stmts], "call": expr, "post": [exprs], "type_only": bool}]  driver calls
  tags   construct tags (coverage cells); kind = template name (first component of mechanism keys)
  classes {class name: [fields]} for the driver's field-by-field dump of instances
  prelude driver-side (interpreted) definitions needed by the calls (e.g. interpreted subclasses)
"""

from __future__ import annotations

import random
from typing import Any, Callable

from vlib import c05_gen as G
from vlib.c05_gen import ELEMS, LIST_TYPES, DICT_TYPES, SET_TYPES, TUPLE_TYPES, lit, targs, val
from vlib.c05_units import FuncGen, ind

Unit = dict[str, Any]
IDX = ["0", "1", "-1", "2", "-2", "5", "-6", "100", "-100", "2**62", "-2**63", "2**64"]


def _strable(t: str) -> bool:
    return not t.startswith(("set[",)) and "set[" not in t


def _calls(name: str, ptypes: list[str], rng: random.Random, n: int, idx_params: set[int] | None = None) -> list[dict[str, Any]]:
    out = []
    if idx_params and len(idx_params) == 1:
        # one index operand: every index of a small domain around the container's bounds, for two container values
        ip = next(iter(idx_params))
        for _ in range(2):
            fixed = {i: val(t, rng) for i, t in enumerate(ptypes) if i != ip}
            for ix in range(-7, 8):
                setup = [f"a{i} = {ix if i == ip else fixed[i]}" for i in range(len(ptypes))]
                out.append({"setup": setup, "call": f"{name}({', '.join(f'a{i}' for i in range(len(ptypes)))})",
                            "post": [f"a{i}" for i, t in enumerate(ptypes) if t.startswith(("list", "dict", "set")) or t in ("Pt", "Any")]})
        n = 4
    for _ in range(n):
        setup = []
        for i, t in enumerate(ptypes):
            if idx_params and i in idx_params and rng.random() < 0.8:
                setup.append(f"a{i} = {rng.choice(IDX[:9] if t == 'i64' else IDX)}")
            else:
                setup.append(f"a{i} = {val(t, rng)}")
        out.append({"setup": setup, "call": f"{name}({', '.join(f'a{i}' for i in range(len(ptypes)))})",
                    "post": [f"a{i}" for i, t in enumerate(ptypes) if t.startswith(("list", "dict", "set")) or t in ("Pt", "Any")]})
    return out


def t_prim(rng: random.Random, u: str, hostile: bool = False) -> Unit:
    """One registered producer (primitive op x operand representation) as a function of its operands."""
    res = rng.choice([t for t in G._PRODS if hostile or "Any" not in t])
    cands = [p for p in G._PRODS[res] if hostile or not any("Any" in a for a in p.args)]
    if hostile:
        hc = [p for p in cands if any("Any" in a for a in p.args)]
        cands = hc or cands
    p = rng.choices(cands, weights=[3.0 if ("[{1}]" in q.tmpl or "pop({1})" in q.tmpl) else 1.0 for q in cands])[0]
    ptypes = [a[2:] if a.startswith("v:") else a for a in p.args]
    tm = p.tmpl
    for nm in ("__x", "__i", "__s", "__k", "__v", "__h"):
        tm = tm.replace(nm, nm[2:] + "_")
    body_e = tm.format(*[f"a{i}" for i in range(len(ptypes))])
    variant = rng.choice(["ret", "ret", "local", "twice", "guard"])
    sig = f"def {u}_f({', '.join(f'a{i}: {t}' for i, t in enumerate(ptypes))}) -> {res}:"
    if variant == "ret" or res in ("Pt3",):
        body = [f"return {body_e}"]
    elif variant == "local":
        body = [f"r: {res} = {body_e}", "return r"]
    elif variant == "twice":
        body = [f"r: {res} = {body_e}", f"r = {body_e}", "return r"]
    else:
        body = ["try:", f"    return {body_e}", "except (IndexError, KeyError, ValueError, ZeroDivisionError, OverflowError) as e:",
                "    print(type(e).__name__)", f"    return {lit(res, rng, True) if 'Any' not in res and res != 'Pt3' else body_e}"]
    idx = {i for i, t in enumerate(ptypes) if t in ("int", "i64") and ("[{%d}" % i in p.tmpl or "pop({%d}" % i in p.tmpl)}
    return {"src": "\n".join([sig] + ind(body)), "calls": _calls(u + "_f", ptypes, rng, rng.choice([6, 8, 10]), idx),
            "tags": [p.tag, "prim." + variant], "kind": "prim:" + p.tag}


def t_stmt(rng: random.Random, u: str, hostile: bool = False) -> Unit:
    """One container/attribute mutation statement applied to a parameter; post-state is the observable."""
    g = FuncGen(rng, hostile)
    t = rng.choice(LIST_TYPES * 2 + DICT_TYPES + SET_TYPES + ["Pt"] + (["list[Any]", "Any"] * 4 if hostile else []))
    others = [rng.choice(["int", "str", "int"] + ([targs(t)[1][0]] if t.startswith(("list[", "set[")) else []))
              for _ in range(rng.choice([1, 2]))]
    ptypes = [t] + others
    for i, pt in enumerate(ptypes):
        g.scope.add(f"a{i}", pt)
    # force the mutation onto a0
    saved = g.pick_var
    g.pick_var = lambda pred: "a0"  # type: ignore[method-assign]
    st = g.mutate()
    g.pick_var = saved  # type: ignore[method-assign]
    tag = sorted(x for x in g.tags if x.startswith("stmt."))[0]
    sig = f"def {u}_f({', '.join(f'a{i}: {x}' for i, x in enumerate(ptypes))}) -> int:"
    body = st + ["return len(a0)" if t.startswith(("list", "dict", "set")) else "return 0"]
    idx = {i for i, x in enumerate(ptypes) if x == "int" and i > 0}
    return {"src": "\n".join([sig] + ind(body)), "calls": _calls(u + "_f", ptypes, rng, 8, idx), "tags": sorted(g.tags),
            "kind": "mut:" + tag[5:]}


def t_loop(rng: random.Random, u: str, hostile: bool = False) -> Unit:
    """One for-loop helper; the loop variables of every iteration are appended to the result."""
    g = FuncGen(rng, hostile)
    ptypes = [rng.choice(LIST_TYPES), rng.choice(LIST_TYPES + ["str"]), "int", "int", rng.choice(DICT_TYPES), "str", "bytes"]
    if hostile:
        ptypes += ["Any", "list[Any]", "dict[Any, Any]"]
    for i, pt in enumerate(ptypes):
        g.scope.add(f"a{i}", pt)
        g.scope.readonly.add(f"a{i}")
    for _ in range(20):
        hdr, lvars, ng, tag = g.loop_header()
        if hostile and "any" not in tag.lower() and rng.random() < 0.7:
            continue
        break
    used = [i for i in range(len(ptypes)) if f"a{i}" in hdr]
    ren = {f"a{i}": f"a{k}" for k, i in enumerate(used)}
    for old, new in sorted(ren.items(), key=lambda kv: -len(kv[0])):
        hdr = hdr.replace(old, "\0" + new[1:])
    hdr = hdr.replace("\0", "a")
    ptypes = [ptypes[i] for i in used] or ["int"]
    parts = " + '/' + ".join(f"str({v})" for v, t in lvars)
    extra = rng.choice(["", "", "break", "continue", "else"])
    body = ["out: list[str] = []", hdr, f"    out.append({parts})"]
    if extra in ("break", "continue"):
        body += [f"    if len(out) == {rng.choice([1, 2, 3])}:", f"        {extra}", "    out.append('.')"]
    if extra == "else":
        body += ["else:", "    out.append('else')"]
    body += ["return out"]
    sig = f"def {u}_f({', '.join(f'a{i}: {x}' for i, x in enumerate(ptypes))}) -> list[str]:"
    calls = _calls(u + "_f", ptypes, rng, 10)
    if "range" in tag:
        for c in calls:
            c["setup"] = [s if ptypes[i] != "int" else f"a{i} = " + str(rng.choice(
                [0, 1, 2, 3, 5, 7, 8, 11, 13, 14, -1, -2, -5, 2 ** 62, 2 ** 64 + 5, -2 ** 63])) for i, s in enumerate(c["setup"])]
    return {"src": "\n".join([sig] + ind(body)), "calls": calls, "tags": [tag, "loop." + (extra or "plain")], "kind": "loop:" + tag}


def t_range_grid(rng: random.Random, u: str, hostile: bool = False) -> Unit:
    """for-range helper over an exhaustive small grid of (start, stop) for one step (literal or variable), per index type."""
    it = rng.choice(["int", "int", "i64", "len"])
    step = rng.choice([-1, -2, -2, -3, -3, -4, -5, -7, 1, 2, 3, 4, 5])
    var = rng.random() < 0.25
    body = ["out: list[str] = []"]
    if it == "len":
        body += ["for a in range(lo, hi):", "    for b in range(lo, hi):", "        la = [0] * max(a, 0)", "        lb = [0] * max(b, 0)",
                 f"        for i in range(len(la), len(lb), {'st' if var else step}):", "            out.append(str(a) + ',' + str(b) + ':' + str(i))"]
    else:
        body += [f"lo2: {it} = lo", f"hi2: {it} = hi", "a = lo2", "while a < hi2:", "    b = lo2", "    while b < hi2:",
                 f"        for i in range(a, b, {'st' if var else step}):", "            out.append(str(a) + ',' + str(b) + ':' + str(i))",
                 "        b += 1", "    a += 1"]
    extra = rng.choice(["", "", "last"])
    if extra == "last":
        body = [ln.replace("out.append(str(a) + ',' + str(b) + ':' + str(i))", "last = i") for ln in body]
        body = [ln if "for i in range(" not in ln else ln for ln in body]
        # the value of the loop variable after the loop is observable too
        idx = next(k for k, ln in enumerate(body) if "last = i" in ln)
        pad = body[idx][: len(body[idx]) - len(body[idx].lstrip())][:-4]
        body.insert(idx - 1, pad + "last = -99")
        body.insert(idx + 2, pad + "out.append(str(a) + ',' + str(b) + ':' + str(last))")
    body += ["return out"]
    sig = f"def {u}_f(lo: int, hi: int, st: int) -> list[str]:"
    steps = [step] if not var else [-1, -2, -3, -5, 1, 2, 4]
    calls = [{"setup": [], "call": f"{u}_f(-3, 7, {k})", "post": []} for k in steps]
    calls += [{"setup": [], "call": f"{u}_f({lo}, {hi}, {steps[0]})", "post": []} for lo, hi in ((0, 12), (-9, -2), (2 ** 62 - 3, 2 ** 62 + 3) if it == "int" else (5, 9))]
    return {"src": "\n".join([sig] + ind(body)), "calls": calls, "tags": [f"for.range.grid[{it}]", "for.range.grid.step:" + ("var" if var else str(step))],
            "kind": f"rangegrid:{it}:{'var' if var else ('neg' if step < 0 else 'pos')}step"}


def t_callshape(rng: random.Random, u: str, hostile: bool = False) -> Unit:
    """Callee with a random signature; native->native calls in several shapes and python->native (wrapper) calls."""
    npos = rng.choice([1, 2, 3])
    ndef = rng.choice([0, 1, 2])
    star = rng.random() < 0.4
    nkw = rng.choice([0, 0, 1, 2])
    kwdef = [rng.random() < 0.6 for _ in range(nkw)]
    dstar = rng.random() < 0.35
    tys = ["int", "str", "float", "bool", "Optional[int]", "list[int]", "tuple[int, str]", "Pt", "i64"]
    params: list[tuple[str, str, str | None, str]] = []  # name, type, default, kind
    for i in range(npos):
        params.append((f"p{i}", rng.choice(tys), None, "pos"))
    for i in range(ndef):
        # (an i64/float default followed by *args, **kwargs or a keyword-only parameter crashes mypyc itself: get_text_signature)
        t = rng.choice(["int", "str", "bool", "Optional[int]", "tuple[int, str]"] + (["i64", "float"] if not nkw and not star and not dstar else []))
        params.append((f"d{i}", t, lit(t, rng, True), "pos"))
    if star:
        params.append(("rest", "int", None, "star"))
    for i in range(nkw):
        t = rng.choice(["int", "str", "bool", "Optional[int]"])
        params.append((f"k{i}", t, lit(t, rng, True) if kwdef[i] else None, "kw"))
    if dstar:
        params.append(("extra", "int", None, "dstar"))
    sig = []
    seen_kw = False
    for n, t, d, k in params:
        if k == "kw" and not seen_kw and not star:
            sig.append("*")
        if k == "kw":
            seen_kw = True
        if k == "star":
            sig.append(f"*{n}: {t}")
        elif k == "dstar":
            sig.append(f"**{n}: {t}")
        else:
            sig.append(f"{n}: {t}" + (f" = {d}" if d is not None else ""))
    shows = []
    for n, t, d, k in params:
        if k == "dstar":
            shows.append(f"'{n}=' + str(sorted({n}.items()))")
        else:
            shows.append(f"'{n}=' + str({n})")
    is_method = rng.random() < 0.35
    src: list[str] = []
    if is_method:
        src += [f"class {u}K:", "    def __init__(self, tag: str) -> None:", "        self.tag = tag",
                f"    def m(self, {', '.join(sig)}) -> str:", f"        return self.tag + ':' + {' + chr(59) + '.join(shows)}", ""]
        callee = f"{u}K('t').m"
        tags = ["call.method"]
    else:
        src += [f"def {u}_callee({', '.join(sig)}) -> str:", f"    return {' + chr(59) + '.join(shows)}", ""]
        callee = f"{u}_callee"
        tags = ["call.function"]

    def shape(py: bool) -> tuple[str, str]:
        """One valid call shape (source of the argument list) and its tag."""
        args: list[str] = []
        tg = []
        mk = (lambda t: val(t, rng)) if py else (lambda t: lit(t, rng, True))
        kwmode = False
        for n, t, d, k in params:
            if k == "pos":
                if d is not None and rng.random() < 0.5:
                    kwmode = True  # later positional parameters can only be given by keyword now
                    tg.append("default-omitted")
                    continue
                if kwmode or rng.random() < 0.25:
                    kwmode = True
                    args.append(f"{n}={mk(t)}")
                    tg.append("pos-by-keyword")
                else:
                    args.append(mk(t))
            elif k == "star":
                if not kwmode and rng.random() < 0.7:
                    m = rng.choice([1, 2, 4])
                    if rng.random() < 0.4:
                        args.append("*[" + ", ".join(mk("int") for _ in range(m)) + "]")
                        tg.append("star-expansion")
                    else:
                        args += [mk("int") for _ in range(m)]
                        tg.append("extra-positional")
            elif k == "kw":
                if d is not None and rng.random() < 0.5:
                    continue
                args.append(f"{n}={mk(t)}")
                tg.append("kwonly")
            elif k == "dstar":
                if rng.random() < 0.7:
                    if py and rng.random() < 0.5:
                        args.append("**{" + ", ".join(f"'x{j}': {mk('int')}" for j in range(rng.choice([1, 2]))) + "}")
                        tg.append("dstar-expansion")
                    else:
                        args.append(f"zz={mk('int')}")
                        tg.append("extra-keyword")
        # keyword args may be reordered freely
        pos = [a for a in args if "=" not in a.split("(")[0].split("[")[0] and not a.startswith("**")]
        kws = [a for a in args if a not in pos]
        if len(kws) > 1 and rng.random() < 0.5:
            rng.shuffle(kws)
            tg.append("kw-reordered")
        return ", ".join(pos + kws), "+".join(sorted(set(tg))) or "plain"

    ncallers = rng.choice([2, 3])
    calls = []
    for j in range(ncallers):
        a, tg = shape(False)
        src += [f"def {u}_caller{j}() -> str:", f"    return {callee}({a})", ""]
        tags.append("native-call:" + tg)
        calls.append({"setup": [], "call": f"{u}_caller{j}()", "post": []})
    for j in range(6):
        a, tg = shape(True)
        tags.append("wrapper-call:" + tg)
        calls.append({"setup": [], "call": f"{callee}({a})", "post": []})
    # ill-formed calls: only the exception type is compared (boundary errors are a documented difference in wording)
    bad = [f"{callee}()", f"{callee}({', '.join(['1'] * 9)})", f"{callee}(nosuch=1)"]
    for b in bad[: rng.choice([1, 2, 3])]:
        if not (star and "1, 1" in b) and not (dstar and "nosuch" in b) and not (b.endswith("()") and npos == 0):
            calls.append({"setup": [], "call": b, "post": [], "type_only": True})
    # calls through *args/**kwargs and through a Callable value inside compiled code
    src += [f"def {u}_via(f: Callable[..., str], args: list[Any], kw: dict[str, Any]) -> str:", "    return f(*args, **kw)", ""]
    a, tg = shape(True)
    pos = [x for x in a.split(", ")] if a else []
    calls.append({"setup": [], "call": f"{u}_via({callee}, [], {{}})", "post": [], "type_only": True})
    tags.append("call.via-star-args")
    classes = {f"{u}K": ["tag"]} if is_method else {}
    return {"src": "\n".join(src), "calls": calls, "tags": tags, "kind": "callshape:" + ("method" if is_method else "function"),
            "classes": classes}


def t_pycall(rng: random.Random, u: str, hostile: bool = False) -> Unit:
    """Compiled code calling Python-level callables (interpreted functions, lambdas, bound methods, builtins)."""
    rt = rng.choice(["int", "str", "list[int]", "Optional[int]", "tuple[int, str]", "float", "bool"])
    src = [f"def {u}_apply(f: Callable[[int, str], {rt}], n: int, s: str) -> {rt}:", "    return f(n, s)", "",
           f"def {u}_map(f: Callable[[int], int], xs: list[int]) -> list[int]:", "    return [f(x) for x in xs]", "",
           f"def {u}_kw(f: Callable[..., Any], n: int) -> Any:", "    return f(n, key=n + 1)", "",
           f"def {u}_builtin(xs: list[int], ys: list[str]) -> list[Any]:",
           "    return [sorted(xs, key=lambda v: -v), list(map(str, xs)), list(filter(None, xs)), dict(zip(ys, xs)), max(xs, default=-1), "
           "sum(xs, 10), ', '.join(ys), len(ys), list(enumerate(ys, 2)), any(xs), all(xs), abs(min(xs, default=0)), tuple(xs), "
           "divmod(sum(xs) + 7, 3), round(2.567, 2), isinstance(xs, list), repr(ys), bool(ys), int('12') + len(xs), pow(2, 10)]", ""]
    mk = {"int": "lambda n, s: n + len(s)", "str": "lambda n, s: s * (n % 3)", "list[int]": "lambda n, s: [n, len(s)]",
          "Optional[int]": "lambda n, s: None if n % 2 else n", "tuple[int, str]": "lambda n, s: (n, s)", "float": "lambda n, s: n / 2",
          "bool": "lambda n, s: n > len(s)"}[rt]
    calls = [{"setup": [f"f = {mk}"], "call": f"{u}_apply(f, {lit('int', rng)}, {lit('str', rng)})", "post": []} for _ in range(3)]
    calls += [{"setup": [], "call": f"{u}_apply(lambda n, s: 1 // 0, 1, 'a')", "post": []},
              {"setup": [], "call": f"{u}_map(lambda x: x * x, {val('list[int]', rng)})", "post": []},
              {"setup": [], "call": f"{u}_map(abs, {val('list[int]', rng)})", "post": []},
              {"setup": [], "call": f"{u}_map(IC(3).bump, [1, 2, 3])", "post": []},
              {"setup": [], "call": f"{u}_kw(lambda a, key=0: (a, key), 5)", "post": []},
              {"setup": [], "call": f"{u}_kw(dict, 5)", "post": [], "type_only": True},
              {"setup": [], "call": f"{u}_builtin({val('list[int]', rng)}, {val('list[str]', rng)})", "post": []},
              {"setup": [], "call": f"{u}_builtin([3, 1, 2], ['x', 'y'])", "post": []},
              {"setup": [], "call": f"{u}_builtin([], [])", "post": []}]
    return {"src": "\n".join(src), "calls": calls, "tags": ["pycall." + rt], "kind": "pycall"}


ATTR_TYPES = ["int", "str", "float", "bool", "list[int]", "Optional[int]", "tuple[int, str]", "dict[str, int]", "i64", "Optional[str]", "Pt"]


def t_class(rng: random.Random, u: str, hostile: bool = False) -> Unit:
    """Native class family: attributes of several representations, vtable override, trait, property, glue method,
    static/class methods, interpreted subclass; virtual dispatch from compiled code and attribute access from the driver."""
    B, D, E, T = f"{u}Base", f"{u}Der", f"{u}Leaf", f"{u}Trait"
    attrs = [(f"f{i}", rng.choice(ATTR_TYPES)) for i in range(rng.choice([2, 3, 4]))]
    dattr = ("g0", rng.choice(ATTR_TYPES))
    tags = ["class.attrs:" + ",".join(sorted({t for _, t in attrs}))]
    glue = rng.choice(["ret-narrow", "ret-tuple", "none", "opt-arg"])
    use_prop = rng.random() < 0.7
    use_trait = rng.random() < 0.7
    open_sub = rng.random() < 0.5
    src: list[str] = []
    if use_trait:
        src += ["@trait", f"class {T}:", "    def label(self) -> str:", "        return 'trait-default:' + self.kind()", "",
                "    def kind(self) -> str:", "        return 'abstract'", "", "    def weight(self) -> int:", "        return 1", ""]
        tags.append("class.trait")
    if open_sub:
        src += ["@mypyc_attr(allow_interpreted_subclasses=True)"]
        tags.append("class.allow_interpreted_subclasses")
    src += [f"class {B}:", f"    count: ClassVar[int] = {rng.choice([0, 5])}"]
    init_params = ", ".join(f"{n}: {t}" for n, t in attrs)
    src += [f"    def __init__(self, {init_params}) -> None:"] + [f"        self.{n} = {n}" for n, _ in attrs]
    src += ["        self.calls = 0", ""]
    src += ["    def describe(self) -> str:", "        self.calls += 1",
            "        return 'B(' + ', '.join([" + ", ".join(f"str(self.{n})" for n, _ in attrs) + "]) + ')'", ""]
    ret0 = {"ret-narrow": "object", "ret-tuple": "object", "none": "int", "opt-arg": "int"}[glue]
    arg0 = "int" if glue != "opt-arg" else "int"
    src += [f"    def compute(self, k: {arg0}) -> {ret0}:", "        return k + 1", ""]
    src += ["    def twice(self, k: int) -> str:", "        return str(self.compute(k)) + '|' + str(self.compute(k + 1)) + '|' + self.describe()", ""]
    if use_prop:
        pa, pt = attrs[0]
        src += ["    @property", f"    def prop(self) -> {pt}:", f"        return self.{pa}", "", "    @prop.setter",
                f"    def prop(self, v: {pt}) -> None:", "        self.calls += 10", f"        self.{pa} = v", ""]
        tags.append("class.property")
    src += ["    @staticmethod", "    def make_key(a: int, b: str = 'k') -> str:", "        return b + str(a)", "",
            "    @classmethod", f"    def bump(cls, n: int = 1) -> int:", "        cls.count += n", "        return cls.count", ""]
    # derived
    bases = B + (f", {T}" if use_trait else "")
    src += [f"class {D}({bases}):", f"    def __init__(self, {init_params}, {dattr[0]}: {dattr[1]}) -> None:",
            f"        super().__init__({', '.join(n for n, _ in attrs)})", f"        self.{dattr[0]} = {dattr[0]}", ""]
    src += ["    def describe(self) -> str:", f"        return 'D[' + super().describe() + ' ' + str(self.{dattr[0]}) + ']'", ""]
    retd = {"ret-narrow": "int", "ret-tuple": "tuple[int, int]", "none": "int", "opt-arg": "int"}[glue]
    argd = "Optional[int]" if glue == "opt-arg" else "int"
    bodyd = {"ret-narrow": "return k * 3", "ret-tuple": "return (k, k * 2)", "none": "return k * 3 - self.calls",
             "opt-arg": "return -1 if k is None else k * 5"}[glue]
    src += [f"    def compute(self, k: {argd}) -> {retd}:", f"        {bodyd}", ""]
    tags.append("class.glue:" + glue)
    if use_trait:
        src += ["    def kind(self) -> str:", "        return 'der'", ""]
    src += [f"class {E}({D}):", "    def describe(self) -> str:", "        return 'E<' + super().describe() + '>'", ""]
    if use_trait:
        src += ["    def weight(self) -> int:", "        return 7", ""]
        src += [f"class {u}Other({T}):", "    def __init__(self, w: int) -> None:", "        self.w = w", "",
                "    def kind(self) -> str:", "        return 'other' + str(self.w)", ""]
        src += [f"def {u}_use_trait(t: {T}) -> str:", "    return t.label() + '/' + t.kind() + '/' + str(t.weight())", ""]
    src += [f"def {u}_virtual(b: {B}, k: int) -> str:", "    r = b.describe() + '#' + str(b.compute(k)) + '#' + b.twice(k)",
            f"    if isinstance(b, {D}):", f"        r += '#D:' + str(b.{dattr[0]})", "    return r", ""]
    src += [f"def {u}_many(bs: list[{B}]) -> list[str]:", "    return [b.describe() + str(b.calls) for b in bs]", ""]
    a0, t0 = attrs[0]
    src += [f"def {u}_attrs(b: {B}, v: {t0}) -> {t0}:", f"    old = b.{a0}", f"    b.{a0} = v", "    b.calls += 100"]
    if use_prop:
        src += ["    b.prop = old", "    return b.prop", ""]
    else:
        src += ["    return old", ""]
    src += [f"def {u}_static(n: int) -> str:", f"    return {B}.make_key(n) + {B}.make_key(n, 'z') + {D}.make_key(b='q', a=n) + str({B}.bump()) + str({D}.bump(2)) + str({B}.count)", ""]

    def mk(cls: str) -> str:
        a = ", ".join(val(t, rng) for _, t in attrs)
        if cls == B:
            return f"{B}({a})"
        return f"{cls}({a}, {val(dattr[1], rng)})"

    prelude = ""
    subs = [B, D, E]
    if open_sub:
        prelude = (f"class {u}ISub({B}):\n    def describe(self):\n        return 'ISub:' + super().describe()\n"
                   f"    def compute(self, k):\n        return k * 100\n")
        subs.append(f"{u}ISub")
    calls = []
    for _ in range(5):
        c = rng.choice(subs)
        ctor = mk(c) if c != f"{u}ISub" else mk(B).replace(B + "(", f"{u}ISub(", 1)
        calls.append({"setup": [f"o = {ctor}"], "call": f"{u}_virtual(o, {lit('int', rng)})", "post": ["o"]})
    calls.append({"setup": [f"os = [{mk(B)}, {mk(D)}, {mk(E)}]"], "call": f"{u}_many(os)", "post": ["os"]})
    for _ in range(3):
        calls.append({"setup": [f"o = {mk(rng.choice([B, D, E]))}"], "call": f"{u}_attrs(o, {val(t0, rng)})", "post": ["o"]})
    calls.append({"setup": [], "call": f"{u}_static(3)", "post": [f"{B}.count", f"{D}.count"]})
    # driver-level attribute access, method calls through the Python wrappers
    calls.append({"setup": [f"o = {mk(D)}"], "call": "(o.describe(), o.compute(4), o.twice(2), o.calls, o." + a0 + ", o." + dattr[0] + ")", "post": ["o"]})
    calls.append({"setup": [f"o = {mk(E)}"], "call": f"(isinstance(o, {B}), isinstance(o, {D}), type(o).__name__, [c.__name__ for c in type(o).__mro__][:3])", "post": []})
    calls.append({"setup": [f"o = {mk(B)}"], "call": "o.nosuch", "post": [], "type_only": True})
    if use_prop:
        calls.append({"setup": [f"o = {mk(D)}", f"o.prop = {val(t0, rng)}"], "call": "(o.prop, o.calls)", "post": ["o"]})
    if use_trait:
        calls.append({"setup": [f"o = {mk(D)}"], "call": f"{u}_use_trait(o)", "post": []})
        calls.append({"setup": [f"o = {mk(E)}"], "call": f"{u}_use_trait(o)", "post": []})
        calls.append({"setup": [f"o = {u}Other(4)"], "call": f"{u}_use_trait(o)", "post": []})
    fields = [n for n, _ in attrs] + ["calls"]
    classes = {B: fields, D: fields + [dattr[0]], E: fields + [dattr[0]], f"{u}Other": ["w"], f"{u}ISub": fields}
    return {"src": "\n".join(src), "calls": calls, "tags": tags, "kind": "class:" + glue + (":trait" if use_trait else "") +
            (":prop" if use_prop else "") + (":open" if open_sub else ""), "classes": classes, "prelude": prelude}


def t_dunder(rng: random.Random, u: str, hostile: bool = False) -> Unit:
    """Native class with special methods, used from compiled code and through type slots from the driver."""
    C = f"{u}Seq"
    src = [f"class {C}:", "    def __init__(self, xs: list[int]) -> None:", "        self.xs = xs", "        self.i = 0", "",
           "    def __len__(self) -> int:", "        return len(self.xs)", "",
           "    def __getitem__(self, i: int) -> int:", "        return self.xs[i]", "",
           "    def __setitem__(self, i: int, v: int) -> None:", "        self.xs[i] = v", "",
           "    def __contains__(self, v: int) -> bool:", "        return v in self.xs", "",
           "    def __bool__(self) -> bool:", "        return len(self.xs) > 1", "",
           # (a native __next__ returning an unboxed type is rejected by the C compiler: tp_iternext gets the native function)
           "    def __iter__(self) -> Iterator[int]:", "        self.i += 1", "        return iter(self.xs)", "",
           "    def __call__(self, k: int, s: str = 'd') -> str:", "        return s + str(k + len(self.xs))", "",
           f"    def __add__(self, o: '{C}') -> '{C}':", f"        return {C}(self.xs + o.xs)", "",
           f"    def __iadd__(self, o: '{C}') -> '{C}':", "        self.xs = self.xs + o.xs", "        return self", "",
           f"    def __neg__(self) -> '{C}':", f"        return {C}([-x for x in self.xs])", "",
           f"    def __lt__(self, o: '{C}') -> bool:", "        return len(self.xs) < len(o.xs)", "",
           "    def __eq__(self, o: object) -> bool:", f"        return isinstance(o, {C}) and self.xs == o.xs", "",
           "    def __hash__(self) -> int:", "        return len(self.xs)", "",
           "    def __repr__(self) -> str:", f"        return '{C}(' + str(self.xs) + ')'", "",
           "    def __str__(self) -> str:", "        return 'seq' + str(len(self.xs))", ""]
    src += [f"def {u}_use(a: {C}, b: {C}, k: int) -> list[str]:", "    out: list[str] = []", "    out.append(str(len(a)))",
            "    out.append(str(k in a))", "    out.append('T' if a else 'F')", "    out.append(str([x for x in a]))",
            "    out.append(a(k))", "    out.append(a(k, s='kw'))", "    out.append(repr(a + b))", "    out.append(repr(-a))",
            "    out.append(str(a < b) + str(a == b) + str(a != b) + str(b > a))", "    out.append(str({a: 1}[a]))",
            "    out.append(str(a) + f'{a}' + f'{a!r}')", "    a += b", "    out.append(repr(a))", "    a[0] = k",
            "    out.append(str(a[0]) + str(a[k]))", "    return out", ""]
    calls = []
    for _ in range(5):
        calls.append({"setup": [f"a = {C}({val('list[int]', rng)})", f"b = {C}({val('list[int]', rng)})"],
                      "call": f"{u}_use(a, b, {rng.choice(['0', '1', '-1', '2', '7'])})", "post": ["a", "b"]})
    calls.append({"setup": [f"a = {C}([3, 1, 2])", f"b = {C}([9])"],
                  "call": "(len(a), a[1], 1 in a, bool(a), list(a), a(1), a(2, 's'), a + b, -a, a < b, a == b, hash(a), str(a), repr(a), sorted([a, b]), max(a), sum(a))",
                  "post": ["a"]})
    calls.append({"setup": [f"a = {C}([])"], "call": "(bool(a), list(a), a[0])", "post": []})
    return {"src": "\n".join(src), "calls": calls, "tags": ["class.dunders"], "kind": "dunder", "classes": {C: ["xs", "i"]}}


def t_generator(rng: random.Random, u: str, hostile: bool = False) -> Unit:
    et = rng.choice(["int", "str", "float", "Pt", "tuple[int, str]", "Optional[int]", "list[int]", "i64"])
    L = f"list[{et}]"
    variant = rng.choice(["basic", "finally", "retval", "yieldfrom", "method", "send", "closure", "nested-loops", "early-return"])
    src: list[str] = []
    calls: list[dict[str, Any]] = []
    if variant == "basic":
        src += [f"def {u}_g(xs: {L}, n: int) -> Iterator[{et}]:", "    for i, x in enumerate(xs):", "        if i >= n:", "            return",
                "        yield x", "    print('exhausted')", ""]
        calls += [{"setup": [f"xs = {val(L, rng)}"], "call": f"{u}_g(xs, {rng.choice([0, 1, 2, 5, 100])})", "post": ["xs"]} for _ in range(5)]
    elif variant == "finally":
        src += [f"def {u}_g(xs: {L}, bad: int) -> Iterator[{et}]:", "    try:", "        for i, x in enumerate(xs):", "            if i == bad:",
                "                raise ValueError('bad index ' + str(i))", "            try:", "                yield x", "            finally:",
                "                print('inner', i)", "    except KeyError:", "        print('never')", "    finally:", "        print('cleanup', len(xs))", ""]
        src += [f"def {u}_consume(xs: {L}, bad: int, stop: int) -> list[str]:", "    out: list[str] = []", "    try:",
                f"        for x in {u}_g(xs, bad):", "            out.append(str(x))", "            if len(out) == stop:", "                break",
                "    except ValueError as e:", "        out.append('VE:' + str(e))", "    return out", ""]
        calls += [{"setup": [f"xs = {val(L, rng)}"], "call": f"{u}_g(xs, {rng.choice([-1, 0, 1, 2, 3])})", "post": []} for _ in range(4)]
        calls += [{"setup": [f"xs = {val(L, rng)}"], "call": f"{u}_consume(xs, {rng.choice([-1, 1, 2])}, {rng.choice([1, 2, 9])})", "post": []} for _ in range(4)]
    elif variant == "retval":
        src += [f"def {u}_g(n: int) -> Generator[int, None, str]:", "    t = 0", "    for i in range(n):", "        t += i", "        yield t",
                "    return 'total=' + str(t)", "", f"def {u}_outer(n: int) -> Generator[int, None, str]:", f"    r = yield from {u}_g(n)",
                "    yield -1", "    return r + '!'", ""]
        calls += [{"setup": [], "call": f"{u}_g({k})", "post": []} for k in (0, 1, 4)]
        calls += [{"setup": [], "call": f"{u}_outer({k})", "post": []} for k in (0, 3)]
    elif variant == "yieldfrom":
        src += [f"def {u}_g(xs: {L}, ys: {L}) -> Iterator[{et}]:", "    yield from xs", "    yield from reversed(ys)",
                f"    yield from {u}_h(xs)", "", f"def {u}_h(xs: {L}) -> Iterator[{et}]:", "    for x in xs[:2]:", "        yield x", ""]
        calls += [{"setup": [], "call": f"{u}_g({val(L, rng)}, {val(L, rng)})", "post": []} for _ in range(4)]
    elif variant == "method":
        src += [f"class {u}Tree:", f"    def __init__(self, v: {et}, kids: list['{u}Tree']) -> None:", "        self.v = v", "        self.kids = kids", "",
                f"    def walk(self) -> Iterator[{et}]:", "        yield self.v", "        for k in self.kids:", "            yield from k.walk()", "",
                f"def {u}_build(xs: {L}) -> list[{et}]:", f"    leaves = [{u}Tree(x, []) for x in xs]", "    if not xs:", "        return []",
                f"    root = {u}Tree(xs[0], [{u}Tree(xs[-1], leaves[:2]), *leaves])", "    return list(root.walk())", ""]
        calls += [{"setup": [], "call": f"{u}_build({val(L, rng)})", "post": []} for _ in range(5)]
    elif variant == "send":
        src += [f"def {u}_g(start: int) -> Generator[int, int, None]:", "    acc = start", "    while acc < 50:", "        got = yield acc",
                "        acc += got", "", f"def {u}_drive(start: int, sends: list[int]) -> list[int]:", f"    g = {u}_g(start)", "    out: list[int] = []",
                "    try:", "        out.append(next(g))", "        for s in sends:", "            out.append(g.send(s))", "    except StopIteration:",
                "        out.append(-99)", "    g.close()", "    return out", ""]
        calls += [{"setup": [], "call": f"{u}_drive({rng.choice([0, 10, 49, 60])}, {val('list[int]', rng)})", "post": []} for _ in range(5)]
    elif variant == "closure":
        src += [f"def {u}_mk(xs: {L}, k: int) -> Callable[[], Iterator[{et}]]:", f"    def gen() -> Iterator[{et}]:", "        for i in range(k):",
                "            for x in xs:", "                yield x", "    return gen", "",
                f"def {u}_run(xs: {L}, k: int) -> list[{et}]:", f"    g = {u}_mk(xs, k)", "    return list(g()) + list(g())[:1]", ""]
        calls += [{"setup": [], "call": f"{u}_run({val(L, rng)}, {rng.choice([0, 1, 2])})", "post": []} for _ in range(5)]
    elif variant == "nested-loops":
        src += [f"def {u}_g(xs: {L}, d: dict[str, int]) -> Iterator[tuple[str, {et}]]:", "    for k, v in d.items():", "        for x in xs:",
                "            if v % 2:", "                continue", "            yield (k, x)", "        else:", "            yield (k + '!', xs[0])", ""]
        calls += [{"setup": [], "call": f"{u}_g({val(L, rng)}, {val('dict[str, int]', rng)})", "post": []} for _ in range(5)]
    else:
        src += [f"def {u}_g(xs: {L}, flag: bool) -> Iterator[{et}]:", "    if flag:", "        return", "    with Ctx('gen', False):",
                "        for x in xs:", "            yield x", ""]
        calls += [{"setup": [], "call": f"{u}_g({val(L, rng)}, {b})", "post": []} for b in ("True", "False", "False")]
    return {"src": "\n".join(src), "calls": calls, "tags": ["generator." + variant, "generator.elem:" + et], "kind": "generator:" + variant,
            "classes": {f"{u}Tree": ["v"]}}


def t_closure(rng: random.Random, u: str, hostile: bool = False) -> Unit:
    t = rng.choice(["int", "str", "list[int]", "float", "Pt", "Optional[int]", "tuple[int, str]"])
    variant = rng.choice(["adder", "counter", "late-binding", "nested2", "recursive", "default-capture", "decorator"])
    src: list[str] = []
    calls: list[dict[str, Any]] = []
    if variant == "adder":
        src += [f"def {u}_mk(a: {t}) -> Callable[[int], str]:", "    def f(n: int) -> str:", "        return str(a) + ':' + str(n)", "    return f", "",
                f"def {u}_use(a: {t}, n: int) -> str:", f"    f = {u}_mk(a)", "    return f(n) + f(n + 1)", ""]
        calls += [{"setup": [], "call": f"{u}_use({val(t, rng)}, {lit('int', rng)})", "post": []} for _ in range(4)]
        calls += [{"setup": [f"f = {u}_mk({val(t, rng)})"], "call": "(f(1), f(2))", "post": []}]
    elif variant == "counter":
        src += [f"def {u}_mk(start: int) -> tuple[Callable[[], int], Callable[[], int]]:", "    n = start", "    def inc() -> int:", "        nonlocal n",
                "        n += 1", "        return n", "    def get() -> int:", "        return n", "    return inc, get", "",
                f"def {u}_use(start: int, k: int) -> list[int]:", f"    inc, get = {u}_mk(start)", "    out = [inc() for _ in range(k % 5)]", "    out.append(get())", "    return out", ""]
        calls += [{"setup": [], "call": f"{u}_use({lit('int', rng)}, {rng.choice([0, 1, 3, 4])})", "post": []} for _ in range(4)]
        calls += [{"setup": [f"i, g = {u}_mk(2**62)"], "call": "(i(), i(), g())", "post": []}]
    elif variant == "late-binding":
        src += [f"def {u}_mk(n: int) -> list[Callable[[], int]]:", "    fs: list[Callable[[], int]] = []", "    for i in range(n):", "        fs.append(lambda: i * 10)",
                "    return fs", "", f"def {u}_use(n: int) -> list[int]:", f"    return [f() for f in {u}_mk(n)]", ""]
        calls += [{"setup": [], "call": f"{u}_use({k})", "post": []} for k in (0, 1, 3)]
    elif variant == "nested2":
        src += [f"def {u}_f(a: {t}, k: int) -> list[str]:", "    out: list[str] = []", "    def mid(m: int) -> None:", "        def inner(j: int) -> None:",
                "            out.append(str(a) + str(m + j + k))", "        for j in range(m):", "            inner(j)", "    mid(k % 4)", "    mid(1)", "    return out", ""]
        calls += [{"setup": [], "call": f"{u}_f({val(t, rng)}, {lit('int', rng, True)})", "post": []} for _ in range(4)]
    elif variant == "recursive":
        src += [f"def {u}_f(n: int) -> int:", "    def fib(k: int) -> int:", "        if k < 2:", "            return k", "        return fib(k - 1) + fib(k - 2)",
                "    return fib(n % 15)", ""]
        calls += [{"setup": [], "call": f"{u}_f({k})", "post": []} for k in (0, 1, 7, 14, 2 ** 64)]
    elif variant == "default-capture":
        src += [f"def {u}_f(xs: list[int]) -> list[int]:", "    fs = [lambda v, k=x: v + k for x in xs]", "    return [f(100) for f in fs]", ""]
        calls += [{"setup": [], "call": f"{u}_f({val('list[int]', rng)})", "post": []} for _ in range(4)]
    else:
        src += [f"def {u}_deco(f: Callable[[int], int]) -> Callable[[int], int]:", "    def wrapped(n: int) -> int:", "        print('call', n)", "        return f(n) + 1",
                "    return wrapped", "", f"@{u}_deco", f"def {u}_target(n: int) -> int:", "    return n * 2", "",
                f"def {u}_use(n: int) -> int:", f"    return {u}_target(n) + {u}_target(n + 1)", ""]
        calls += [{"setup": [], "call": f"{u}_use({lit('int', rng)})", "post": []} for _ in range(3)]
        calls += [{"setup": [], "call": f"{u}_target(5)", "post": []}]
    return {"src": "\n".join(src), "calls": calls, "tags": ["closure." + variant, "closure.capture:" + t], "kind": "closure:" + variant}


def t_exc(rng: random.Random, u: str, hostile: bool = False) -> Unit:
    variant = rng.choice(["order", "custom", "nested", "finally-return", "cause", "loop-finally", "else", "with-suppress", "reraise-in-finally", "assert"])
    src: list[str] = []
    calls: list[dict[str, Any]] = []
    E = f"{u}Err"
    if variant == "order":
        src += [f"def {u}_f(d: dict[str, int], k: str, xs: list[int], i: int) -> int:", "    try:", "        print('try')", "        r = d[k] // xs[i]",
                "        print('computed', r)", "        return r", "    except KeyError as e:", "        print('KeyError', e)", "        return -1",
                "    except (IndexError, ZeroDivisionError) as e:", "        print(type(e).__name__, e)", "        return -2", "    finally:", "        print('finally')", ""]
        calls += [{"setup": [], "call": f"{u}_f({{'a': 10, 'b': 0}}, {k!r}, [2, 0, 5], {i})", "post": []}
                  for k, i in (("a", 0), ("a", 1), ("z", 0), ("b", 2), ("a", 9), ("a", -1), ("a", -4))]
    elif variant == "custom":
        src += [f"class {E}(Exception):", "    def __init__(self, code: int, msg: str) -> None:", "        super().__init__(msg)", "        self.code = code", "",
                f"class {E}2({E}):", "    pass", "", f"def {u}_raise(n: int) -> int:", "    if n < 0:", f"        raise {E}(n, 'negative')", "    if n == 0:",
                f"        raise {E}2(0, 'zero')", "    if n > 100:", "        raise ValueError('big', n)", "    return n", "",
                f"def {u}_f(n: int) -> str:", "    try:", f"        return 'ok' + str({u}_raise(n))", f"    except {E}2 as e:", "        return 'E2:' + str(e.code) + str(e)",
                f"    except {E} as e:", "        return 'E:' + str(e.code) + str(e) + str(e.args)", ""]
        calls += [{"setup": [], "call": f"{u}_f({k})", "post": []} for k in (-5, 0, 7, 101)]
        calls += [{"setup": [], "call": f"{u}_raise({k})", "post": []} for k in (-5, 0, 101)]
    elif variant == "nested":
        src += [f"def {u}_f(a: int, b: int, xs: list[int]) -> str:", "    out = ''", "    try:", "        try:", "            out += str(a // b)", "            out += str(xs[a])",
                "        except ZeroDivisionError:", "            out += 'Z'", "            out += str(xs[b + 5])", "        finally:", "            out += 'f1'", "    except IndexError as e:",
                "        out += 'I:' + str(e)", "    finally:", "        out += 'f2'", "    return out", ""]
        calls += [{"setup": [], "call": f"{u}_f({a}, {b}, [1, 2, 3])", "post": []} for a, b in ((4, 2), (1, 0), (9, 1), (0, 0), (-1, -7), (2 ** 64, 1))]
    elif variant == "finally-return":
        # (break/continue out of try..finally is an explicit "unimplemented" error of mypyc: only return is used)
        src += [f"def {u}_f(n: int, xs: list[int]) -> int:", "    for i in range(3):", "        try:", "            if n == i:", "                return xs[i]", "            if n == 10 + i:",
                "                raise KeyError(i)", "            xs.append(i)", "        except KeyError:", "            xs.append(100 + i)", "        finally:", "            xs.append(-i)", "    return len(xs)", ""]
        calls += [{"setup": [f"xs = {val('list[int]', rng)}"], "call": f"{u}_f({k}, xs)", "post": ["xs"]} for k in (0, 1, 2, 10, 11, 21, 22, 5)]
    elif variant == "cause":
        src += [f"def {u}_f(n: int) -> str:", "    try:", "        try:", "            return str(1 // n)", "        except ZeroDivisionError as e:", "            if n == 0:",
                "                raise ValueError('wrapped') from e", "            raise", "    except ValueError as v:",
                "        return type(v.__cause__).__name__ + '/' + type(v.__context__).__name__ + '/' + str(v)", ""]
        src += [f"def {u}_g(n: int) -> None:", "    try:", "        [1][n]", "    except IndexError:", "        d: dict[str, int] = {}", "        print(d['k' + str(n)])", ""]
        calls += [{"setup": [], "call": f"{u}_f({k})", "post": []} for k in (0, 1, 5)]
        calls += [{"setup": [], "call": f"{u}_g({k})", "post": []} for k in (0, 3)]
    elif variant == "loop-finally":
        src += [f"def {u}_f(xs: list[int]) -> list[str]:", "    out: list[str] = []", "    for x in xs:", "        try:", "            if x < 0:", "                raise ValueError(str(x))",
                "            if x == 0:", "                continue", "            if x > 50:", "                break", "            out.append('v' + str(x))", "        except ValueError as e:",
                "            out.append('e' + str(e))", "        finally:", "            out.append('f')", "    else:", "        out.append('done')", "    return out", ""]
        calls += [{"setup": [], "call": f"{u}_f({val('list[int]', rng)})", "post": []} for _ in range(3)]
        calls += [{"setup": [], "call": f"{u}_f([1, -2, 0, 3])", "post": []}, {"setup": [], "call": f"{u}_f([1, 99, 2])", "post": []}]
    elif variant == "else":
        src += [f"def {u}_f(s: str) -> str:", "    try:", "        n = int(s)", "    except ValueError as e:", "        return 'bad:' + str(e)", "    else:", "        n += 1",
                "    finally:", "        print('parsed', s)", "    return str(n)", ""]
        calls += [{"setup": [], "call": f"{u}_f({s!r})", "post": []} for s in ("12", "x", "", " 7 ", "1_0", "٣", "99999999999999999999")]
    elif variant == "with-suppress":
        src += [f"def {u}_f(sup: bool, n: int) -> str:", "    r = 'start'", "    with Ctx('outer', sup) as c:", "        with Ctx('inner', False):", "            r += str(10 // n)",
                "        r += 'mid'", "    r += 'after'", "    return r", ""]
        calls += [{"setup": [], "call": f"{u}_f({a}, {b})", "post": []} for a, b in (("True", 0), ("False", 0), ("True", 2), ("False", 5))]
    elif variant == "reraise-in-finally":
        src += [f"def {u}_f(n: int) -> int:", "    try:", "        try:", "            return 10 // n", "        finally:", "            if n == 0:",
                "                raise KeyError('from finally')", "            print('fin', n)", "    except KeyError as e:", "        print(type(e.__context__).__name__)", "        return -1", ""]
        calls += [{"setup": [], "call": f"{u}_f({k})", "post": []} for k in (0, 1, 3)]
    else:
        src += [f"def {u}_f(n: int, s: str) -> int:", "    assert n >= 0, 'neg:' + s", "    assert s", "    assert n != 3, (n, s)", "    return n", ""]
        calls += [{"setup": [], "call": f"{u}_f({a}, {b!r})", "post": []} for a, b in ((1, "a"), (-1, "q"), (2, ""), (3, "t"))]
    return {"src": "\n".join(src), "calls": calls, "tags": ["exc." + variant], "kind": "exc:" + variant, "classes": {}}


def t_uninit(rng: random.Random, u: str, hostile: bool = False) -> Unit:
    """E4 of C06 / exception parity of C05: reads of locals and attributes that were never assigned."""
    t = rng.choice(["int", "str", "list[int]", "float", "Pt", "Optional[int]", "tuple[int, str]", "bool", "i64", "dict[str, int]"])
    variant = rng.choice(["cond-local", "del-local", "loop-local", "try-local", "attr-branch", "attr-read-before", "attr-subclass", "attr-never", "del-attr", "closure-cell"])
    src: list[str] = []
    calls: list[dict[str, Any]] = []
    v = lit(t, rng, True)
    if variant == "cond-local":
        src += [f"def {u}_f(c: bool, d: bool) -> str:", "    if c:", f"        x: {t} = {v}", "    if d:", "        return 'skip'", "    return str(x)", ""]
        calls += [{"setup": [], "call": f"{u}_f({a}, {b})", "post": []} for a in ("True", "False") for b in ("True", "False")]
    elif variant == "del-local":
        src += [f"def {u}_f(c: bool) -> str:", f"    x: {t} = {v}", "    if c:", "        del x", "    return str(x)", ""]
        calls += [{"setup": [], "call": f"{u}_f({a})", "post": []} for a in ("True", "False")]
    elif variant == "loop-local":
        src += [f"def {u}_f(xs: list[int]) -> str:", "    for x in xs:", f"        last: {t} = {v}", "        y = x", "    return str(last) + str(y)", ""]
        calls += [{"setup": [], "call": f"{u}_f({a})", "post": []} for a in ("[]", "[1]", "[2, 3]")]
    elif variant == "try-local":
        src += [f"def {u}_f(n: int) -> str:", "    try:", "        q = 10 // n", f"        x: {t} = {v}", "    except ZeroDivisionError:", "        pass", "    return str(x)", ""]
        calls += [{"setup": [], "call": f"{u}_f({a})", "post": []} for a in (0, 1)]
    elif variant == "attr-branch":
        src += [f"class {u}C:", "    def __init__(self, c: bool) -> None:", "        self.a = 1", "        if c:", f"            self.b: {t} = {v}", "",
                f"def {u}_f(c: bool) -> str:", f"    o = {u}C(c)", "    return str(o.a) + str(o.b)", ""]
        calls += [{"setup": [], "call": f"{u}_f({a})", "post": []} for a in ("True", "False")]
        calls += [{"setup": [f"o = {u}C(False)"], "call": "o.b", "post": [], "type_only": True}, {"setup": [f"o = {u}C(True)"], "call": "o.b", "post": []}]
    elif variant == "attr-read-before":
        src += [f"class {u}C:", "    def __init__(self, c: bool) -> None:", "        if c:", "            print(self.peek())", f"        self.b: {t} = {v}", "",
                "    def peek(self) -> str:", "        return str(self.b)", "", f"def {u}_f(c: bool) -> str:", f"    return {u}C(c).peek()", ""]
        calls += [{"setup": [], "call": f"{u}_f({a})", "post": []} for a in ("True", "False")]
    elif variant == "attr-subclass":
        src += [f"class {u}B:", "    def __init__(self) -> None:", "        self.setup()", f"        self.b: {t} = {v}", "", "    def setup(self) -> None:", "        pass", "",
                f"class {u}D({u}B):", "    def setup(self) -> None:", "        print('early', self.b)", "", f"def {u}_f(c: bool) -> str:", f"    o = {u}D() if c else {u}B()", "    return str(o.b)", ""]
        calls += [{"setup": [], "call": f"{u}_f({a})", "post": []} for a in ("True", "False")]
    elif variant == "attr-never":
        src += [f"class {u}C:", f"    b: {t}", "    def __init__(self, n: int) -> None:", "        self.n = n", "", "    def fill(self) -> None:", f"        self.b = {v}", "",
                f"def {u}_f(c: bool) -> str:", f"    o = {u}C(1)", "    if c:", "        o.fill()", "    return str(o.b)", ""]
        calls += [{"setup": [], "call": f"{u}_f({a})", "post": []} for a in ("True", "False")]
    elif variant == "del-attr":
        src += [f"class {u}C:", "    __deletable__ = ['b']", "    def __init__(self) -> None:", f"        self.b: {t} = {v}", "",
                f"def {u}_f(c: bool) -> str:", f"    o = {u}C()", "    if c:", "        del o.b", "    return str(o.b)", ""]
        calls += [{"setup": [], "call": f"{u}_f({a})", "post": []} for a in ("True", "False")]
    else:
        src += [f"def {u}_f(c: bool) -> str:", "    def get() -> str:", "        return str(x)", "    if c:", f"        x: {t} = {v}", "    return get()", ""]
        calls += [{"setup": [], "call": f"{u}_f({a})", "post": []} for a in ("True", "False")]
    for c in calls:
        c["uninit"] = True
    return {"src": "\n".join(src), "calls": calls, "tags": ["uninit." + variant, "uninit.type:" + t], "kind": "uninit:" + variant,
            "classes": {f"{u}C": ["b"]}}


def t_narrow(rng: random.Random, u: str, hostile: bool = False) -> Unit:
    variant = rng.choice(["union", "optional-chain", "match", "walrus", "global", "enum", "namedtuple", "dataclass", "final", "isinstance-tuple"])
    src: list[str] = []
    calls: list[dict[str, Any]] = []
    classes: dict[str, list[str]] = {}
    if variant == "union":
        src += [f"def {u}_f(x: Union[int, str, list[int], None, Pt]) -> str:", "    if isinstance(x, int):", "        return 'int' + str(x + 1)", "    elif isinstance(x, str):",
                "        return 'str' + x.upper()", "    elif x is None:", "        return 'none'", "    elif isinstance(x, Pt):", "        return 'pt' + str(x.x)", "    return 'list' + str(len(x))", ""]
        calls += [{"setup": [], "call": f"{u}_f({a})", "post": []} for a in ("1", "2**70", "'s'", "None", "[1, 2]", "Pt(1, 2)", "Pt3(1, 2, 'n')", "[]")]
    elif variant == "optional-chain":
        src += [f"class {u}N:", f"    def __init__(self, v: int, nxt: Optional['{u}N']) -> None:", "        self.v = v", "        self.nxt = nxt", "",
                f"def {u}_f(n: Optional[{u}N]) -> int:", "    t = 0", "    while n is not None:", "        t += n.v", "        n = n.nxt", "    return t", "",
                f"def {u}_mk(k: int) -> Optional[{u}N]:", f"    cur: Optional[{u}N] = None", "    for i in range(k % 6):", f"        cur = {u}N(i * 3, cur)", "    return cur", ""]
        calls += [{"setup": [], "call": f"{u}_f({u}_mk({k}))", "post": []} for k in (0, 1, 5)]
        classes[f"{u}N"] = ["v", "nxt"]
        calls += [{"setup": [], "call": f"{u}_mk(3)", "post": []}]
    elif variant == "match":
        src += [f"def {u}_f(x: object) -> str:", "    match x:", "        case 0 | 1:", "            return 'small'", "        case int(n) if n < 0:", "            return 'neg' + str(n)",
                "        case int():", "            return 'int'", "        case 'a' | 'b' as s:", "            return 'ab' + s", "        case str():", "            return 'str'",
                "        case [a, b]:", "            return 'pair' + str(a) + str(b)", "        case [a, *rest]:", "            return 'seq' + str(a) + str(len(rest))",
                "        case {'k': v}:", "            return 'map' + str(v)", "        case Pt(x=px, y=0):", "            return 'pt-y0:' + str(px)", "        case None:", "            return 'none'",
                "        case _:", "            return 'other'", ""]
        calls += [{"setup": [], "call": f"{u}_f({a})", "post": []} for a in ("0", "1", "-4", "77", "'a'", "'zz'", "[1, 2]", "[1, 2, 3]", "[]", "{'k': 5}", "{'j': 1}", "Pt(3, 0)", "Pt(3, 1)", "None", "2.5", "(4, 5)", "True")]
    elif variant == "walrus":
        src += [f"def {u}_f(xs: list[int], d: dict[str, int]) -> list[int]:", "    out: list[int] = []", "    i = 0", "    while (n := len(xs) - i) > 0:", "        i += 1", "        if (v := d.get(str(n))) is not None:",
                "            out.append(v)", "        else:", "            out.append(-n)", "    return out", ""]
        calls += [{"setup": [], "call": f"{u}_f({val('list[int]', rng)}, {{'1': 10, '3': 30}})", "post": []} for _ in range(4)]
    elif variant == "global":
        src += [f"{u}_total = 0", f"{u}_log: list[str] = []", f"{u}_LIMIT: Final = {rng.choice([3, 2 ** 65])}", "",
                f"def {u}_f(n: int) -> int:", f"    global {u}_total", f"    {u}_total += n", f"    {u}_log.append(str(n))", f"    if {u}_total > {u}_LIMIT:", f"        {u}_total = 0", f"    return {u}_total", ""]
        calls += [{"setup": [], "call": f"{u}_f({k})", "post": [f"{u}_log[-3:]"]} for k in (1, 2, 5, 2 ** 65, 1)]
        for c in calls:
            c["stateful"] = True
    elif variant == "enum":
        src += [f"class {u}Color(Enum):", "    RED = 1", "    GREEN = 2", "    BLUE = 4", "",
                f"def {u}_f(c: {u}Color, n: int) -> str:", f"    if c is {u}Color.RED:", "        return 'r' + str(c.value + n)", f"    elif c == {u}Color.GREEN:", "        return 'g' + c.name",
                f"    return str([m.name for m in {u}Color]) + str({u}Color(4).name)", ""]
        calls += [{"setup": [], "call": f"{u}_f({u}Color.{m}, 3)", "post": []} for m in ("RED", "GREEN", "BLUE")]
    elif variant == "namedtuple":
        src += [f"class {u}NT(NamedTuple):", "    a: int", "    b: str = 'dflt'", "",
                f"def {u}_f(n: int, s: str) -> str:", f"    t = {u}NT(n, s)", f"    u2 = {u}NT(n)", "    a, b = t", "    return str(t.a + a) + t.b + b + u2.b + str(t[0]) + str(len(t)) + str(t == (n, s)) + str(t._replace(a=5).a)", ""]
        calls += [{"setup": [], "call": f"{u}_f({lit('int', rng)}, {lit('str', rng)})", "post": []} for _ in range(3)]
    elif variant == "dataclass":
        src += ["@dataclass", f"class {u}DC:", "    a: int", "    b: str = 'x'", "    c: list[int] = field(default_factory=list)", "",
                "    def total(self) -> int:", "        return self.a + len(self.b) + sum(self.c)", "",
                f"def {u}_f(n: int, s: str) -> str:", f"    d = {u}DC(n, s)", f"    e = {u}DC(n)", "    e.c.append(n)", "    return repr(d) + str(d == e) + str(d.total()) + str(e.total()) + repr(e)", ""]
        calls += [{"setup": [], "call": f"{u}_f({lit('int', rng)}, {lit('str', rng)})", "post": []} for _ in range(3)]
        calls += [{"setup": [], "call": f"repr({u}DC(1, 'q', [2]))", "post": []}]
    elif variant == "final":
        src += [f"{u}_A: Final = {lit('int', rng)}", f"{u}_S: Final = {lit('str', rng)}", f"{u}_T: Final = ({lit('int', rng)}, {lit('str', rng)})", f"{u}_F: Final = {lit('float', rng)}",
                f"{u}_L: Final = [1, 2]", f"def {u}_f(n: int) -> str:", f"    {u}_L.append(n)", f"    return str({u}_A + n) + {u}_S + str({u}_T) + str({u}_F * 2) + str(len({u}_L))", ""]
        calls += [{"setup": [], "call": f"{u}_f({k})", "post": []} for k in (1, 2)]
        for c in calls:
            c["stateful"] = True
    else:
        src += [f"def {u}_f(x: object) -> str:", "    if isinstance(x, (int, str)):", "        return 'is' + str(x)", "    if isinstance(x, (list, tuple)):", "        return 'seq' + str(len(x))",
                "    if isinstance(x, (Pt3, dict)):", "        return 'p3d'", "    if isinstance(x, float) or x is None:", "        return 'fn'", "    return type(x).__name__", ""]
        calls += [{"setup": [], "call": f"{u}_f({a})", "post": []} for a in ("1", "True", "'s'", "[1]", "(1, 2)", "Pt3(1, 2, 'a')", "Pt(1, 2)", "{}", "1.5", "None", "{1}")]
    return {"src": "\n".join(src), "calls": calls, "tags": ["misc." + variant], "kind": "misc:" + variant, "classes": classes}


def t_store(rng: random.Random, u: str, hostile: bool = False) -> Unit:
    """C06 E3 probes: arguments stored into containers/attributes/globals, passed through tuples, stored then raise."""
    t = rng.choice(["Any", "object", "IC_obj", "str", "int", "list[int]", "Pt", "tuple[int, str]", "Optional[Pt]"])
    ann = "object" if t == "IC_obj" else t
    mk = (lambda: f"IC({rng.randrange(50)})") if t in ("IC_obj", "object") else ((lambda: "H(1)") if t == "Any" else (lambda: rng.choice(
        [f"fresh_str({rng.randrange(99)})"] if t == "str" else [f"fresh_int({rng.randrange(99)})"] if t == "int" else [val(t, rng)])))
    variant = rng.choice(["into-list", "through-tuple", "store-then-raise", "attr", "global", "dict-value", "return-arg", "swap", "closure", "overwrite",
                          "loop-reassign", "cond-reassign", "try-reassign", "star-args", "default-box"])
    src: list[str] = []
    sig2 = f"x: {ann}, box: list[{ann}]"
    if variant == "into-list":
        src += [f"def {u}_f({sig2}) -> int:", "    box.append(x)", "    box.append(x)", "    box.pop()", "    return len(box)", ""]
    elif variant == "through-tuple":
        src += [f"def {u}_f({sig2}) -> tuple[{ann}, int]:", "    t = (x, len(box))", "    y, n = t", "    box.append(y)", "    return t", ""]
    elif variant == "store-then-raise":
        src += [f"def {u}_f({sig2}) -> int:", "    box.append(x)", "    d = {'k': x}", "    tmp = [x, x]", "    if len(box) % 2:", "        raise KeyError('odd')", "    return len(tmp) + len(d)", ""]
    elif variant == "attr":
        src += [f"class {u}H:", f"    def __init__(self, v: {ann}) -> None:", "        self.v = v", "        self.prev: list[object] = []", "",
                f"def {u}_f({sig2}) -> int:", f"    h = {u}H(x)", "    h.prev.append(h.v)", "    h.v = x", "    box.append(h.v)", "    return len(h.prev)", ""]
    elif variant == "global":
        src += [f"{u}_keep: list[object] = []", f"def {u}_f({sig2}) -> int:", f"    {u}_keep.append(x)", f"    if len({u}_keep) > 3:", f"        {u}_keep.clear()", f"    return len({u}_keep)", ""]
    elif variant == "dict-value":
        src += [f"def {u}_f({sig2}) -> int:", "    d: dict[str, object] = {}", "    d['a'] = x", "    d['a'] = x", "    d['b'] = box", "    del d['b']", "    e = d.copy()", "    e.update(d)", "    return len(e)", ""]
    elif variant == "return-arg":
        src += [f"def {u}_f({sig2}) -> {ann}:", "    if len(box) > 2:", "        return box[0]", "    return x", ""]
    elif variant == "swap":
        src += [f"def {u}_f({sig2}) -> int:", "    if box:", "        x, box[0] = box[0], x", "    box.append(x)", "    y = x", "    x = y", "    return len(box)", ""]
    elif variant == "closure":
        src += [f"def {u}_f({sig2}) -> int:", "    def add() -> int:", "        box.append(x)", "        return len(box)", "    add()", "    return add()", ""]
    elif variant == "overwrite":
        src += [f"def {u}_f({sig2}) -> int:", "    y = x", "    for i in range(3):", "        y = box[0] if box and i == 1 else x", "    box.append(y)", "    return 1", ""]
    elif variant == "loop-reassign":
        src += [f"def {u}_f({sig2}) -> int:", "    n = 0", "    for b in box:", "        x = b", "        n += 1", "        if n > 2:", "            break", "    box.append(x)", "    return n", ""]
    elif variant == "cond-reassign":
        src += [f"def {u}_f({sig2}) -> int:", "    if len(box) > 1:", "        x = box[1]", "    elif len(box) == 1:", "        box = [x, x]", "    box.append(x)", "    return len(box)", ""]
    elif variant == "try-reassign":
        src += [f"def {u}_f({sig2}) -> int:", "    try:", "        x = box[2]", "        box[5] = x", "    except IndexError:", "        box.append(x)", "    finally:", "        y = x", "    return len(box)", ""]
    elif variant == "star-args":
        src += [f"def {u}_g(*a: object, **k: object) -> int:", "    return len(a) + len(k)", "", f"def {u}_f({sig2}) -> int:", f"    return {u}_g(x, *box, k=x, **{{'z': x}})", ""]
    else:
        src += [f"def {u}_f({sig2}, extra: Optional[list[object]] = None) -> int:", "    if extra is None:", "        extra = []", "    extra.append(x)", "    extra.append(box)", "    return len(extra)", ""]
    calls = []
    for k in range(6):
        n = rng.choice([0, 1, 2, 3, 4])
        calls.append({"setup": [f"x = {mk()}", "box = [" + ", ".join(mk() for _ in range(n)) + "]"], "call": f"{u}_f(x, box)", "post": ["box"], "hostile": t == "Any",
                      **({"stateful": True} if variant == "global" else {})})
    return {"src": "\n".join(src), "calls": calls, "tags": ["store." + variant, "store.type:" + ann], "kind": "store:" + variant, "classes": {f"{u}H": ["v"]}}


def t_genproto(rng: random.Random, u: str, hostile: bool = False) -> Unit:
    """Generator protocol through a delegating generator (PEP 380): close / throw / send / abandon while the outer
    generator is suspended in `yield from`; sub-generators that swallow GeneratorExit, iterators with close() but no throw()."""
    src = [f"def {u}_sub(log: list[str], mode: int) -> Generator[object, Optional[int], str]:", "    try:", "        got = yield 1",
           "        log.append('sub got ' + str(got))", "        yield 2", "    except GeneratorExit:", "        log.append('sub exit')",
           "        if mode == 1:", "            return 'swallowed'", "        raise", "    except ValueError as e:",
           "        log.append('sub VE ' + str(e))", "        yield 3", "    finally:", "        log.append('sub finally')", "    return 'sub done'", "",
           f"class {u}It:", "    def __init__(self, log: list[str]) -> None:", "        self.log = log", "        self.n = 0", "",
           f"    def __iter__(self) -> '{u}It':", "        return self", "", "    def __next__(self) -> object:", "        self.n += 1",
           "        if self.n > 3:", "            raise StopIteration", "        return self.n * 10", "", "    def close(self) -> None:",
           "        self.log.append('It.close')", "",
           f"def {u}_outer(log: list[str], mode: int) -> Generator[object, Optional[int], str]:", "    r = '?'", "    try:", "        if mode == 2:",
           f"            yield from {u}It(log)", "            r = 'it'", "        else:", f"            r = yield from {u}_sub(log, mode)",
           "        log.append('outer after: ' + r)", "        yield 99", "    finally:", "        log.append('outer finally')", "    return r", "",
           f"def {u}_drive(mode: int, action: int) -> list[str]:", "    log: list[str] = []", f"    g = {u}_outer(log, mode)", "    try:",
           "        log.append('next ' + str(next(g)))", "        if action == 0:", "            g.close()", "            log.append('closed')",
           "        elif action == 1:", "            log.append('throw -> ' + str(g.throw(ValueError('boom'))))", "            g.close()",
           "        elif action == 2:", "            log.append('send -> ' + str(g.send(5)))", "            g.close()",
           "        elif action == 3:", "            log.append('next2 ' + str(next(g)))", "            log.append('rest ' + str(list(g)))",
           "        else:", "            log.append('send -> ' + str(g.send(7)))", "            log.append('send2 -> ' + str(g.send(8)))",
           "            log.append('rest ' + str(list(g)))",
           "    except BaseException as e:", "        log.append('exc ' + type(e).__name__ + ' ' + str(e))", "    return log", ""]
    calls = [{"setup": [], "call": f"{u}_drive({m}, {a})", "post": []} for m in (0, 1, 2) for a in (0, 1, 2, 3, 4)]
    return {"src": "\n".join(src), "calls": calls, "tags": ["generator.protocol"], "kind": "generator:protocol", "classes": {f"{u}It": ["n"]}}


def t_deepdefaults(rng: random.Random, u: str, hostile: bool = False) -> Unit:
    """Class-level attribute defaults inherited through a hierarchy of depth 4 in which some levels declare none."""
    tys = [rng.choice(["int", "str", "list[int]", "float", "Optional[int]", "tuple[int, str]"]) for _ in range(4)]
    v = [lit(t, rng, True) for t in tys]
    A, B, C, D, E = (f"{u}{x}" for x in "ABCDE")
    src = [f"class {A}:", f"    a0: {tys[0]} = {v[0]}", f"    a1: {tys[1]} = {v[1]}", "    def __init__(self, k: int) -> None:", "        self.k = k", "",
           f"class {B}({A}):", "    def twice(self) -> int:", "        return self.k * 2", "",
           f"class {C}({B}):", f"    c0: {tys[2]} = {v[2]}", "",
           f"class {D}({C}):", "    def thrice(self) -> int:", "        return self.k * 3", "",
           f"class {E}({D}):", f"    e0: {tys[3]} = {v[3]}", f"    a1: {tys[1]} = {lit(tys[1], rng, True)}", "",
           f"def {u}_show(o: {A}) -> str:", "    return str(o.a0) + '|' + str(o.a1) + '|' + str(o.k)", "",
           f"def {u}_f(which: int, k: int) -> str:", f"    o: {A}", "    if which == 0:", f"        o = {A}(k)", "    elif which == 1:", f"        o = {B}(k)",
           "    elif which == 2:", f"        o = {C}(k)", "    elif which == 3:", f"        o = {D}(k)", "    else:", f"        o = {E}(k)",
           f"    r = {u}_show(o)", f"    if isinstance(o, {C}):", "        r += '|c0=' + str(o.c0)", f"    if isinstance(o, {E}):", "        r += '|e0=' + str(o.e0)",
           "    return r", ""]
    calls = [{"setup": [], "call": f"{u}_f({w}, {rng.choice([0, 3, 2**40])})", "post": []} for w in range(5)]
    calls += [{"setup": [f"o = {X}(1)"], "call": "(o.a0, o.a1, o.k)", "post": []} for X in (C, E)]
    return {"src": "\n".join(src), "calls": calls, "tags": ["class.inherited-defaults-depth4"], "kind": "class:deep-defaults",
            "classes": {A: ["k"], B: ["k"], C: ["k"], D: ["k"], E: ["k"]}}


def t_delrebind(rng: random.Random, u: str, hostile: bool = False) -> Unit:
    """A local that is deleted and conditionally re-bound between two calls that may raise (two error edges that release
    the same registers, the local definitely assigned on the first and only maybe assigned on the second)."""
    t = rng.choice(["str", "list[int]", "Pt", "Optional[int]", "tuple[int, str]", "dict[str, int]", "object"])
    v = lit(t, rng, True) if t != "object" else "object()"
    src = [f"def {u}_chk(n: int) -> int:", "    if n > 2:", "        raise ValueError('n=' + str(n))", "    return n", "",
           f"def {u}_f(a: bool, n: int) -> str:", f"    x: {t} = {v}", f"    r = {u}_chk(0)", "    s = str(type(x).__name__)", "    del x", "    if a:",
           f"        x = {v}", f"    r += {u}_chk(n)", "    return s + str(type(x).__name__) + str(r)", "",
           f"def {u}_g(a: bool, n: int) -> str:", "    try:", f"        return {u}_f(a, n)", "    except ValueError as e:", "        return 'VE ' + str(e)",
           "    except UnboundLocalError:", "        return 'unbound'", "",
           # same live set on both error edges (nothing else owned): the edge blocks are candidates for sharing
           f"def {u}_none(n: int) -> None:", "    if n > 2:", "        raise ValueError('n=' + str(n))", "",
           f"def {u}_h(a: bool, n: int, log: list[str]) -> None:", f"    x: {t} = {v}", f"    {u}_none(0)", "    log.append(type(x).__name__)", "    del x",
           "    if a:", f"        x = {v}", f"    {u}_none(n)", "    log.append(type(x).__name__)", ""]
    calls = [{"setup": [], "call": f"{u}_{fn}({a}, {n})", "post": []} for fn in ("f", "g") for a in ("True", "False") for n in (0, 3)]
    calls += [{"setup": ["log = ['start']"], "call": f"{u}_h({a}, {n}, log)", "post": ["log"]} for a in ("True", "False") for n in (0, 3)]
    for c in calls:
        c["uninit"] = True
    return {"src": "\n".join(src), "calls": calls, "tags": ["uninit.del-rebind-between-raising-calls"], "kind": "uninit:del-rebind"}


# units every program contains once (directed at mechanisms a random draw rarely composes)
DIRECTED: list[Callable[..., Unit]] = [t_genproto, t_deepdefaults, t_delrebind]


TEMPLATES: list[tuple[Callable[..., Unit], float]] = [
    (t_prim, 9.0), (t_stmt, 3.0), (t_loop, 4.0), (t_range_grid, 2.5), (t_callshape, 2.0), (t_pycall, 0.7), (t_class, 2.0), (t_dunder, 0.5), (t_generator, 2.0),
    (t_closure, 1.5), (t_exc, 2.0), (t_uninit, 2.0), (t_narrow, 2.0), (t_store, 1.5),
]
