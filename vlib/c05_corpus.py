"""Additional C05 workload (thorough tier): the repository's mypyc/test-data/run-*.test programs, executed both ways.

Only the *programs* are used.  Their expected-output sections are never read and their asserts are not an oracle of
this check: a recorder driver calls every test_* function of `native` and records outcome + stdout, once with native.py
(and other*.py) compiled by the repository's mypyc against the real typeshed, once with everything interpreted.
Because these programs deliberately exercise documented differences (runtime type checks at boundaries, is_native
checks, ...), only this direction is decided: a test function that completes without exception when interpreted must
complete without exception and with the same stdout when compiled.  Everything else is inconclusive.
"""

from __future__ import annotations

import glob
import json
import os
import shutil
import subprocess
from typing import Any

from vlib import c05_harness as H, common, corpus

SKIP_FILES = ("run-multimodule.test", "run-mypy-sim.test", "run-bench.test", "run-librt-", "run-base64.test", "run-vecs-",
              "run-threading.test", "run-weakref.test", "run-python314")

RECORDER = r'''
import asyncio, inspect, io, json, sys
import native
out = []
loop = asyncio.new_event_loop()
for name in sorted(dir(native)):
    if not name.startswith("test_"):
        continue
    f = getattr(native, name)
    buf = io.StringIO()
    old = sys.stdout
    sys.stdout = buf
    try:
        try:
            if inspect.iscoroutinefunction(f):
                loop.run_until_complete(f())
            else:
                f()
            oc = ["ok"]
        except BaseException as e:
            oc = ["exc", type(e).__name__, str(e)[:300]]
    finally:
        sys.stdout = old
    with open(sys.argv[1], "a") as fh:
        fh.write(json.dumps({"test": name, "oc": oc, "out": buf.getvalue()[:4000]}) + "\n")
'''


def cases(n: int) -> list[dict[str, Any]]:
    root = os.path.join(common.REPO, "mypyc", "test-data")
    out: list[dict[str, Any]] = []
    for path in sorted(glob.glob(os.path.join(root, "run-*.test"))):
        base = os.path.basename(path)
        if base.startswith(SKIP_FILES):
            continue
        for c in corpus.parse_file(path):
            if c.steps or c.deletes or "_librt" in c.name or "_experimental" in c.name or "-xfail" in c.name or "-skip" in c.name:
                continue
            if "librt" in c.main or any("librt" in t for t in c.files.values()):
                continue
            files = {"native.py": c.main}
            files.update({k: v for k, v in c.files.items() if k.endswith((".py", ".pyi"))})
            if any("/" in k for k in files):
                continue
            out.append({"id": c.id, "files": files})
    rng = common.rng_fixed("C05", "corpus")
    rng.shuffle(out)
    return out[:n]


def run_case(case: dict[str, Any], outdir: str) -> dict[str, Any]:
    """Pool task: build natively (opt 0), run the recorder (or the case's own driver) compiled and interpreted."""
    files = dict(case["files"])
    with open(os.path.join(common.REPO, "mypyc", "test-data", "fixtures", "testutil.py")) as f:
        files.setdefault("testutil.py", f.read())
    compiled = {k: v for k, v in files.items() if k == "native.py" or (k.startswith("other") and k.endswith(".py"))}
    own_driver = "driver.py" in files
    res: dict[str, Any] = {"id": case["id"], "own_driver": own_driver}
    bdir, idir = os.path.join(outdir, "c"), os.path.join(outdir, "i")
    try:
        b = H.build_program(compiled, bdir, "o0", timeout=900)
        if not b["ok"]:
            res["skip"] = "not-compilable-with-real-typeshed" if b["errors"] else ("mypyc-internal-error" if b.get("internal") else "build-failed")
            res["detail"] = (b["errors"][:2] or [b.get("log", "")[-300:]])
            return res
        for d in (bdir, idir):
            os.makedirs(d, exist_ok=True)
            for k, v in files.items():
                if d == bdir and k in compiled:
                    continue
                with open(os.path.join(d, k), "w") as f:
                    f.write(v)
            if not own_driver:
                with open(os.path.join(d, "driver.py"), "w") as f:
                    f.write(RECORDER)
        runs = {}
        for tag, d in (("interp", idir), ("compiled", bdir)):
            env = common.base_env()
            env["PYTHONPATH"] = d
            rec = os.path.join(d, "rec.jsonl")
            try:
                p = subprocess.run([common.PY, "driver.py", rec], cwd=d, env=env, capture_output=True, text=True, timeout=120,
                                   stdin=subprocess.DEVNULL, start_new_session=True, errors="replace")
                rows = []
                if os.path.exists(rec):
                    with open(rec) as f:
                        rows = [json.loads(x) for x in f if x.strip()]
                runs[tag] = {"rc": p.returncode, "out": p.stdout[-4000:], "err": p.stderr[-1500:], "rows": rows}
            except subprocess.TimeoutExpired:
                runs[tag] = {"rc": None, "timeout": True, "rows": []}
        res["runs"] = runs
        return res
    finally:
        shutil.rmtree(outdir, ignore_errors=True)


def run_corpus(ctx: common.Ctx, pool: Any, wd: str, n: int, repo: str) -> None:
    from vlib.c05_flow import norm_msg
    tasks = [{"fn": "vlib.c05_corpus:run_case", "args": {"case": c, "outdir": os.path.join(wd, "corpus", str(i))}, "_case": c}
             for i, c in enumerate(cases(n))]
    for t, r in pool.imap(tasks, timeout=1500):
        c = t["_case"]
        if not r.get("ok"):
            ctx.inconc("corpus-task:" + ("timeout" if r.get("timeout") else "error"))
            continue
        res = r["res"]
        if res.get("skip"):
            ctx.inconc("corpus:" + res["skip"])
            continue
        ri, rc = res["runs"]["interp"], res["runs"]["compiled"]
        if ri.get("timeout") or rc.get("timeout"):
            ctx.inconc("corpus:watchdog")
            continue
        ctx.cell("corpus:cases-run-both-ways")
        suite = c["id"].split("::")[0]
        if res["own_driver"]:
            if ri["rc"] != 0:
                ctx.inconc("corpus:reference-run-fails(documented differences suspected)")
                continue
            ctx.count()
            ctx.nontriv("corpus", c["id"])
            if rc["rc"] != 0:
                sig = f"signal-{-rc['rc']}" if (rc["rc"] or 0) < 0 else "exit-status"
                ctx.violation(f"corpus:{sig}:{c['id']}", "run-test program with its own driver: interpreted run succeeds, compiled run fails",
                              {"case": c["id"], "files": c["files"], "interpreted": ri, "compiled": rc, "repo": repo})
            elif rc["out"] != ri["out"]:
                # these drivers print exception messages of deliberately ill-typed calls (boundary errors: documented
                # difference in wording), so their stdout is not decided here
                ctx.inconc("corpus:own-driver-stdout-differs(not decided)")
            continue
        comp = {row["test"]: row for row in rc["rows"]}
        if rc["rc"] is not None and rc["rc"] < 0:
            done = set(comp)
            pending = [row["test"] for row in ri["rows"] if row["test"] not in done]
            ctx.violation(f"corpus:crash:signal-{-rc['rc']}:{suite}", "compiled run-test program killed by a signal",
                          {"case": c["id"], "files": c["files"], "first_unfinished_test": pending[:1], "stderr": rc["err"], "repo": repo})
            continue
        for row in ri["rows"]:
            if row["oc"][0] != "ok":
                ctx.inconc("corpus:reference-test-raises(documented differences suspected)")
                continue
            g = comp.get(row["test"])
            if g is None:
                ctx.inconc("corpus:compiled-test-missing")
                continue
            ctx.count()
            ctx.nontriv("corpus", c["id"], row["test"])
            if g["oc"] != row["oc"]:
                ctx.violation(f"corpus:spurious-exception:{g['oc'][1]}:{norm_msg(g['oc'][2])}:{suite}",
                              f"{c['id']}::{row['test']} completes when interpreted, raises {g['oc'][1:]} when compiled",
                              {"case": c["id"], "test": row["test"], "files": c["files"], "interpreted": row, "compiled": g, "repo": repo})
            elif g["out"] != row["out"]:
                ctx.violation(f"corpus:stdout:{suite}", f"{c['id']}::{row['test']} prints different output when compiled",
                              {"case": c["id"], "test": row["test"], "files": c["files"], "interpreted": row, "compiled": g, "repo": repo})
