"""Structure-aware source mutators (C20, C14, C13 workloads). All choices come from the rng given."""

from __future__ import annotations

import ast
import io
import keyword
import random
import re
import tokenize
from typing import Callable


def _stmts(tree: ast.AST) -> list[tuple[ast.stmt, list[ast.stmt]]]:
    """(statement, sibling list) for every statement in every body."""
    out: list[tuple[ast.stmt, list[ast.stmt]]] = []
    for node in ast.walk(tree):
        for field in ("body", "orelse", "finalbody"):
            body = getattr(node, field, None)
            if isinstance(body, list) and body and isinstance(body[0], ast.stmt):
                for s in body:
                    out.append((s, body))
        if isinstance(node, ast.Try):
            for h in node.handlers:
                for s in h.body:
                    out.append((s, h.body))
        if isinstance(node, ast.Match):
            for c in node.cases:
                for s in c.body:
                    out.append((s, c.body))
    return out


def _span(s: ast.stmt) -> tuple[int, int]:
    start = s.lineno
    decs = getattr(s, "decorator_list", None)
    if decs:
        start = min(start, min(d.lineno for d in decs))
    return start - 1, (s.end_lineno or s.lineno)


def _parse(src: str) -> ast.AST | None:
    try:
        return ast.parse(src)
    except (SyntaxError, ValueError, RecursionError, MemoryError):
        return None


def _indent(line: str) -> str:
    return line[: len(line) - len(line.lstrip())]


def delete_stmt(src: str, rng: random.Random) -> str | None:
    tree = _parse(src)
    if tree is None:
        return None
    st = _stmts(tree)
    if not st:
        return None
    s, sib = rng.choice(st)
    lines = src.split("\n")
    a, b = _span(s)
    repl = [_indent(lines[a]) + "pass"] if len(sib) == 1 else []
    return "\n".join(lines[:a] + repl + lines[b:])


def dup_stmt(src: str, rng: random.Random) -> str | None:
    tree = _parse(src)
    if tree is None:
        return None
    st = _stmts(tree)
    if not st:
        return None
    s, _ = rng.choice(st)
    lines = src.split("\n")
    a, b = _span(s)
    return "\n".join(lines[:b] + lines[a:b] + lines[b:])


def swap_stmts(src: str, rng: random.Random) -> str | None:
    tree = _parse(src)
    if tree is None:
        return None
    st = [(s, sib) for s, sib in _stmts(tree) if len(sib) >= 2]
    if not st:
        return None
    s, sib = rng.choice(st)
    t = rng.choice([x for x in sib if x is not s])
    (a1, b1), (a2, b2) = sorted([_span(s), _span(t)])
    if b1 > a2:
        return None
    lines = src.split("\n")
    return "\n".join(lines[:a1] + lines[a2:b2] + lines[b1:a2] + lines[a1:b1] + lines[b2:])


def move_stmt(src: str, rng: random.Random) -> str | None:
    """Move a statement to another block (re-indented) - creates use-before-def, nested defs, etc."""
    tree = _parse(src)
    if tree is None:
        return None
    st = _stmts(tree)
    if len(st) < 2:
        return None
    s, _ = rng.choice(st)
    t, _ = rng.choice(st)
    if s is t:
        return None
    lines = src.split("\n")
    a, b = _span(s)
    ta, tb = _span(t)
    if not (tb <= a or b <= ta):
        return None
    block = lines[a:b]
    old = _indent(block[0])
    new = _indent(lines[ta])
    moved = [new + ln[len(old):] if ln.startswith(old) else ln for ln in block]
    if tb <= a:
        return "\n".join(lines[:ta] + moved + lines[ta:a] + lines[b:])
    return "\n".join(lines[:a] + lines[b:ta] + moved + lines[ta:])


def _tokens(src: str) -> list[tokenize.TokenInfo] | None:
    try:
        return list(tokenize.generate_tokens(io.StringIO(src).readline))
    except (tokenize.TokenError, SyntaxError, IndentationError, ValueError):
        return None


def _replace_tok(src: str, tok: tokenize.TokenInfo, new: str) -> str:
    lines = src.split("\n")
    (r1, c1), (r2, c2) = tok.start, tok.end
    if r1 != r2:
        return src
    ln = lines[r1 - 1]
    lines[r1 - 1] = ln[:c1] + new + ln[c2:]
    return "\n".join(lines)


def rename_ident(src: str, rng: random.Random) -> str | None:
    toks = _tokens(src)
    if toks is None:
        return None
    names = [t for t in toks if t.type == tokenize.NAME and not keyword.iskeyword(t.string)]
    uniq = sorted({t.string for t in names})
    if len(uniq) < 2:
        return None
    a, b = rng.sample(uniq, 2)
    if rng.random() < 0.5:
        return re.sub(rf"\b{re.escape(a)}\b", b, src)
    t = rng.choice([t for t in names if t.string == a])
    return _replace_tok(src, t, b)


def _annotations(tree: ast.AST) -> list[ast.expr]:
    out: list[ast.expr] = []
    for n in ast.walk(tree):
        if isinstance(n, ast.arg) and n.annotation is not None:
            out.append(n.annotation)
        elif isinstance(n, (ast.FunctionDef, ast.AsyncFunctionDef)) and n.returns is not None:
            out.append(n.returns)
        elif isinstance(n, ast.AnnAssign):
            out.append(n.annotation)
        elif isinstance(n, ast.ClassDef):
            out.extend(n.bases)
    more: list[ast.expr] = []
    for a in out:
        for sub in ast.walk(a):
            if isinstance(sub, ast.expr) and sub is not a and isinstance(sub, (ast.Name, ast.Subscript, ast.Attribute, ast.BinOp)):
                more.append(sub)
    return out + more


def replace_type(src: str, rng: random.Random) -> str | None:
    tree = _parse(src)
    if tree is None:
        return None
    anns = [a for a in _annotations(tree) if a.lineno == a.end_lineno]
    if len(anns) < 2:
        return None
    a, b = rng.sample(anns, 2)
    lines = src.split("\n")
    # ast column offsets are utf-8 byte offsets
    bline = lines[b.lineno - 1].encode("utf-8")
    text = bline[b.col_offset:b.end_col_offset].decode("utf-8", "replace")
    aline = lines[a.lineno - 1].encode("utf-8")
    lines[a.lineno - 1] = (aline[:a.col_offset] + text.encode("utf-8") + aline[a.end_col_offset:]).decode("utf-8", "replace")
    return "\n".join(lines)


def truncate(src: str, rng: random.Random) -> str | None:
    if len(src) < 4:
        return None
    if rng.random() < 0.6:
        lines = src.split("\n")
        k = rng.randrange(1, max(2, len(lines)))
        return "\n".join(lines[:k]) + "\n"
    return src[: rng.randrange(1, len(src))]


def splice(src: str, other: str, rng: random.Random) -> str | None:
    t1, t2 = _parse(src), _parse(other)
    if t1 is None or t2 is None:
        return None
    b1, b2 = getattr(t1, "body", []), getattr(t2, "body", [])
    if not b1 or not b2:
        return None
    l1, l2 = src.split("\n"), other.split("\n")
    k1 = rng.randrange(1, len(b1) + 1)
    k2 = rng.randrange(0, len(b2))
    end1 = _span(b1[k1 - 1])[1]
    start2 = _span(b2[k2])[0]
    return "\n".join(l1[:end1] + l2[start2:])


_CYCLIC_TEMPLATES = [
    "class {A}({B}): pass\nclass {B}({A}): pass\n",
    "from typing import List, Union\n{A} = List['{B}']\n{B} = Union[int, {A}]\n",
    "from typing import TypeVar, Generic\n{T} = TypeVar('{T}', bound='{A}')\nclass {A}(Generic[{T}]): x: '{A}[{A}]'\n",
    "from typing import NamedTuple\nclass {A}(NamedTuple):\n    x: '{B}'\n{B} = {A}\nclass {C}({B}): pass\n",
    "from typing import TypedDict\nclass {A}(TypedDict):\n    x: '{B}'\nclass {B}({A}):\n    y: {A}\n",
    "from typing import Protocol\nclass {A}(Protocol):\n    def f(self) -> '{B}': ...\nclass {B}({A}, Protocol):\n    def g(self) -> {A}: ...\n{C}: {A} = {B}()\n",
    "import enum\nclass {A}(enum.Enum):\n    X = 1\n    Y = X\n{B} = {A}.X\nclass {C}({B}): pass\n",
    "from typing import TypeVar\n{T} = TypeVar('{T}', '{A}', '{B}')\ndef {C}(x: {T}) -> {T}: return x\n{A} = {C}\n",
    "type {A} = list[{B}]\ntype {B} = dict[str, {A}] | {C}\n",
    "from dataclasses import dataclass\n@dataclass\nclass {A}:\n    x: '{B}' = {B}\n@dataclass\nclass {B}({A}):\n    y: {A} = {A}\n",
    "def {A}(x: '{B}' = {B}) -> '{A}': ...\n{B} = {A}()\n",
    "from typing import NewType\n{A} = NewType('{A}', '{B}')\n{B} = NewType('{B}', {A})\n",
    "class {A}:\n    {B} = {C}\n    class {C}({B}): pass\n",
    "from typing import Callable\n{A} = Callable[['{A}'], '{B}']\n{B} = Callable[[{A}], {A}]\nx: {A}\nx(x)\n",
]


def make_cyclic(src: str, rng: random.Random) -> str | None:
    toks = _tokens(src) or []
    names = sorted({t.string for t in toks if t.type == tokenize.NAME and not keyword.iskeyword(t.string)
                    and t.string not in ("self", "None", "True", "False")})
    pool = names + ["A", "B", "C", "T"]
    pick = {k: rng.choice(pool) for k in ("A", "B", "C", "T")}
    if rng.random() < 0.5:
        # keep them distinct half of the time
        ch = rng.sample(pool, 4) if len(set(pool)) >= 4 else ["A", "B", "C", "T"]
        pick = dict(zip(("A", "B", "C", "T"), ch))
    snippet = rng.choice(_CYCLIC_TEMPLATES).format(**pick)
    if rng.random() < 0.5:
        return src.rstrip("\n") + "\n" + snippet
    return snippet + src


_TOKEN_POOL = ["(", ")", "[", "]", ":", ",", ".", "=", "->", "*", "**", "@", "if", "else", "def", "class",
               "lambda", "await", "async", "yield", "not", "in", "is", ":=", "...", "match", "case", "type",
               "import", "from", "as", "\\", "'", '"', "f'{", "}", "{", ";", "#", "0", "1j", "0x", "\t", "\f"]


def corrupt_token(src: str, rng: random.Random) -> str | None:
    toks = _tokens(src)
    if not toks:
        return None
    cand = [t for t in toks if t.type in (tokenize.NAME, tokenize.OP, tokenize.NUMBER, tokenize.STRING)
            and t.start[0] == t.end[0]]
    if not cand:
        return None
    t = rng.choice(cand)
    r = rng.random()
    if r < 0.34:
        return _replace_tok(src, t, "")
    if r < 0.67:
        return _replace_tok(src, t, t.string + " " + t.string)
    return _replace_tok(src, t, rng.choice(_TOKEN_POOL))


_JUMPS = ["break", "continue", "return", "return 1", "yield", "yield 1", "await x", "raise", "raise E from None", "pass", "global g",
          "nonlocal n", "del x", "import m", "from m import *", "assert False", "x = yield", "return (yield)", "async def q(): pass", "match x:\n{i}    case _: break",
          # jumps in every clause position of compound statements (a jump in a loop's else clause belongs to the ENCLOSING loop)
          "while x:\n{i}    pass\n{i}else:\n{i}    break", "while x:\n{i}    pass\n{i}else:\n{i}    continue",
          "for q in x:\n{i}    pass\n{i}else:\n{i}    break", "for q in x:\n{i}    pass\n{i}else:\n{i}    continue",
          "try:\n{i}    pass\n{i}finally:\n{i}    break", "try:\n{i}    pass\n{i}finally:\n{i}    continue",
          "try:\n{i}    pass\n{i}except* E:\n{i}    return", "try:\n{i}    pass\n{i}except E:\n{i}    break\n{i}else:\n{i}    continue",
          "if x:\n{i}    break\n{i}else:\n{i}    continue", "with x:\n{i}    break", "class Q:\n{i}    break",
          "def q():\n{i}    while x:\n{i}        pass\n{i}    else:\n{i}        break",
          "while x:\n{i}    pass\n{i}else:\n{i}    if x:\n{i}        continue",
          "async for q in x:\n{i}    pass\n{i}else:\n{i}    continue"]


def insert_jump(src: str, rng: random.Random) -> str | None:
    """Insert a control-flow / scope statement at an arbitrary statement position, whether or not it is legal there
    (break in an else clause, return at module level, yield in a class body, nonlocal at top level...)."""
    tree = _parse(src)
    if tree is None:
        return None
    st = _stmts(tree)
    if not st:
        return None
    s, _ = rng.choice(st)
    lines = src.split("\n")
    a, b = _span(s)
    ind = _indent(lines[a])
    stmt = rng.choice(_JUMPS).replace("{i}", ind)
    pos = a if rng.random() < 0.5 else b
    return "\n".join(lines[:pos] + [ind + stmt] + lines[pos:])


def line_endings(src: str, rng: random.Random) -> str | None:
    """Re-encode the line terminators: CR only, CRLF, mixed, form feeds / vertical tabs inside lines."""
    kind = rng.choice(["cr", "crlf", "mixed", "formfeed", "vtab", "nel"])
    if kind == "cr":
        return src.replace("\n", "\r")
    if kind == "crlf":
        return src.replace("\n", "\r\n")
    if kind == "mixed":
        return "".join(ch if ch != "\n" else rng.choice(["\n", "\r", "\r\n"]) for ch in src)
    if kind == "formfeed":
        return src.replace("\n", "\n\x0c", 2)
    if kind == "vtab":
        return src.replace(" = ", " =\x0b ", 1)
    return src.replace("\n", "\n# \x85 \u2028 comment\n", 1)


STRUCTURAL: dict[str, Callable[[str, random.Random], str | None]] = {
    "insert_jump": insert_jump,
    "line_endings": line_endings,
    "delete_stmt": delete_stmt,
    "dup_stmt": dup_stmt,
    "swap_stmts": swap_stmts,
    "move_stmt": move_stmt,
    "rename_ident": rename_ident,
    "replace_type": replace_type,
    "truncate": truncate,
    "make_cyclic": make_cyclic,
}


def mutate(src: str, rng: random.Random, others: list[str] | None = None, n: int = 1,
           ops: list[str] | None = None) -> tuple[str, list[str]] | None:
    """Apply n structure-aware mutations; returns (text, operator names) or None."""
    names = ops or list(STRUCTURAL) + (["splice"] if others else [])
    cur = src
    applied: list[str] = []
    for _ in range(n):
        for _attempt in range(4):
            op = rng.choice(names)
            if op == "splice":
                new = splice(cur, rng.choice(others or [cur]), rng)
            elif op == "corrupt_token":
                new = corrupt_token(cur, rng)
            else:
                try:
                    new = STRUCTURAL[op](cur, rng)
                except (IndexError, ValueError):   # e.g. ast line numbers vs "\n"-split lines after a CR re-encoding
                    new = None
            if new is not None and new != cur:
                cur = new
                applied.append(op)
                break
    if not applied:
        return None
    return cur, applied
