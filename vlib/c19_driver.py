"""Run the real `mypy.stubgen` entry point with one observation hook.

stubgen stops at the first module whose stub generation raises, unless `--ignore-errors` is given,
in which case it prints only "Stub generation failed for <mod>". To observe *which* exception was
raised for *which* module without letting one module hide the others, the callers pass
`--ignore-errors` and this wrapper records the traceback before handing the exception back to the
original `generate_guarded` (attribute replacement; the original is always called; nothing is
altered). Usable in-process (`install()` + `failures`) and as `python -m vlib.c19_driver ARGS`,
which prints one line `@@C19FAIL@@<json>` on stderr after stubgen has finished."""

from __future__ import annotations

import contextlib
import json
import sys
import traceback
from typing import Any, Iterator

failures: dict[str, str] = {}
_installed = False


def install() -> None:
    global _installed
    if _installed:
        return
    _installed = True
    from mypy import stubgen

    orig = stubgen.generate_guarded

    @contextlib.contextmanager
    def generate_guarded(mod: str, target: str, ignore_errors: bool = True, verbose: bool = False) -> Iterator[None]:
        with orig(mod, target, ignore_errors, verbose):
            try:
                yield
            except Exception:
                failures[mod] = traceback.format_exc()[-5000:]
                raise

    stubgen.generate_guarded = generate_guarded  # type: ignore[assignment]


def main() -> None:
    install()
    from mypy import stubgen

    code: Any = 0
    try:
        stubgen.main(sys.argv[1:])
    except SystemExit as e:
        code = e.code
    finally:
        sys.stderr.write("\n@@C19FAIL@@" + json.dumps(failures) + "\n")
    sys.exit(code)


if __name__ == "__main__":
    main()
