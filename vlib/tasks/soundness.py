"""Pool task for C01: check a program with the real mypy (export_types), then execute an instrumented copy in a
forked child under sys.monitoring and decide E1 (TypeError/AttributeError raised by an operation of the program),
E2 (a statement executes that the checker never visited) and E3 (a value is not a member of its static type)."""

from __future__ import annotations

import ast
import builtins
import importlib
import io
import json
import os
import select
import signal
import sys
import time
import traceback
from typing import Any

from vlib import common, inproc
from vlib.tasks import basic

STRICT = ["--disallow-any-expr", "--disallow-any-explicit", "--disallow-any-generics", "--disallow-untyped-defs",
          "--disallow-incomplete-defs", "--disallow-any-unimported", "--disallow-any-decorated", "--disallow-subclassing-any",
          "--warn-return-any", "--no-implicit-reexport", "--local-partial-types", "--extra-checks"]
PROG = "<vp_prog>"

_visited: set[tuple[int, str]] | None = None
_accept_installed = False


def install_accept_probe() -> None:
    """Recording wrapper on TypeChecker.accept: which statements did the checker visit (in any pass)?"""
    global _accept_installed
    if _accept_installed:
        return
    _accept_installed = True
    from mypy.checker import TypeChecker

    orig = TypeChecker.accept

    def accept(self: Any, stmt: Any) -> None:
        if _visited is not None and self.tree.fullname == "__main__":
            _visited.add((stmt.line, type(stmt).__name__))
        return orig(self, stmt)

    TypeChecker.accept = accept  # type: ignore[method-assign]


# ------------------------------------------------------------------------------------------------------
# fragment membership (syntactic half; the other half is mypy accepting the program under STRICT)

def fragment_reject_reason(src: str, tree: ast.AST) -> str | None:
    if "type: ignore" in src or "# type:" in src:
        return "type-comment"
    for n in ast.walk(tree):
        if isinstance(n, ast.Name) and n.id in ("cast", "TypeGuard", "TypeIs", "Any", "reveal_type", "reveal_locals", "assert_type",
                                                 "exec", "eval", "setattr", "getattr", "delattr", "globals", "locals", "vars", "__import__",
                                                 "TYPE_CHECKING", "no_type_check", "overload", "input", "open", "exit", "quit", "Sentinel", "sentinel"):
            return "uses:" + n.id
        if isinstance(n, ast.Call) and any(k.arg == "default" for k in n.keywords) and \
                (getattr(n.func, "id", None) or getattr(n.func, "attr", None)) in ("TypeVar", "ParamSpec", "TypeVarTuple"):
            return "typing-feature-newer-than-host-python"   # TypeVar(default=...) raises TypeError on the host's typing module
        if isinstance(n, ast.Attribute) and n.attr in ("cast", "TypeGuard", "TypeIs", "Any", "__dict__", "__class__", "TYPE_CHECKING", "__bases__", "__setattr__", "no_type_check", "Sentinel"):
            return "uses:." + n.attr
        if isinstance(n, (ast.FunctionDef, ast.AsyncFunctionDef)):
            a = n.args
            allargs = a.posonlyargs + a.args + a.kwonlyargs + ([a.vararg] if a.vararg else []) + ([a.kwarg] if a.kwarg else [])
            for i, x in enumerate(allargs):
                if x.annotation is None and not (i == 0 and x.arg in ("self", "cls", "mcs")):
                    return "untyped-def"
            if n.returns is None:
                return "untyped-def"
        if isinstance(n, (ast.Global, ast.Nonlocal)):
            return "global/nonlocal"
        if isinstance(n, ast.Delete):
            return "del"
        if isinstance(n, (ast.Import, ast.ImportFrom)):
            mods = [n.module] if isinstance(n, ast.ImportFrom) else [a.name for a in n.names]
            for m in mods:
                if (m or "").split(".")[0] not in ("typing", "dataclasses", "enum", "abc", "collections", "math", "functools", "itertools",
                                                    "typing_extensions", "__future__", "operator", "string", "re"):
                    return "import:" + str(m)
    # narrowing of anything but plain names is outside the fragment
    def operands(t: ast.expr) -> list[ast.expr]:
        if isinstance(t, ast.BoolOp):
            return [x for v in t.values for x in operands(v)]
        if isinstance(t, ast.UnaryOp) and isinstance(t.op, ast.Not):
            return operands(t.operand)
        if isinstance(t, ast.NamedExpr):
            return operands(t.value)
        return [t]

    tests: list[ast.expr] = []
    for n in ast.walk(tree):
        if isinstance(n, (ast.If, ast.While, ast.IfExp)):
            tests.append(n.test)
        elif isinstance(n, ast.Assert):
            tests.append(n.test)
        elif isinstance(n, ast.BoolOp):
            tests.extend(n.values)
        elif isinstance(n, ast.comprehension):
            tests.extend(n.ifs)
        elif isinstance(n, ast.Match):
            if not isinstance(n.subject, ast.Name):
                return "match-on-non-name"
    for t in tests:
        for op in operands(t):
            subj: list[ast.expr] = []
            if isinstance(op, ast.Call) and isinstance(op.func, ast.Name) and op.func.id in ("isinstance", "issubclass", "callable", "hasattr"):
                subj = op.args[:1]
            elif isinstance(op, ast.Compare):
                narrowing_ops = any(isinstance(o, (ast.Is, ast.IsNot)) for o in op.ops)
                eq_ops = any(isinstance(o, (ast.Eq, ast.NotEq, ast.In, ast.NotIn)) for o in op.ops)
                sides = [op.left, *op.comparators]
                const_like = any(isinstance(x, ast.Constant) or (isinstance(x, ast.Attribute) and isinstance(x.value, ast.Name) and x.value.id[:1].isupper())
                                 for x in sides)
                if narrowing_ops or (eq_ops and const_like):
                    subj = [x for x in sides if not isinstance(x, ast.Constant)
                            and not (isinstance(x, ast.Attribute) and isinstance(x.value, ast.Name) and x.value.id[:1].isupper())]
                    # len(x) == n, type(x) is C narrow x
                    subj = [x.args[0] if isinstance(x, ast.Call) and isinstance(x.func, ast.Name) and x.func.id in ("len", "type") and x.args else x for x in subj]
            elif isinstance(op, (ast.Attribute, ast.Subscript)):
                subj = [op]
            for s in subj:
                if isinstance(s, ast.Subscript) and isinstance(s.slice, ast.Slice):
                    continue   # a slice creates a new object: nothing persistent is narrowed
                if isinstance(s, (ast.Attribute, ast.Subscript)):
                    return "narrowing-on-attribute-or-item:" + ast.unparse(op)[:80]
    return None


# ------------------------------------------------------------------------------------------------------
# instrumentation

class _Wrap(ast.NodeTransformer):
    def __init__(self, keys: set[tuple[int, int, int, int]]) -> None:
        self.keys = keys
        self.probes: dict[int, tuple[int, int, int, int]] = {}
        self.skip_depth = 0

    def _annot(self, node: ast.AST | None) -> None:
        return None

    def visit_FunctionDef(self, node: ast.FunctionDef) -> Any:
        node.body = [self.visit(s) for s in node.body]
        for d in node.args.defaults:
            pass
        node.args.defaults = [self.visit(d) for d in node.args.defaults]
        node.args.kw_defaults = [self.visit(d) if d is not None else None for d in node.args.kw_defaults]
        return node

    visit_AsyncFunctionDef = visit_FunctionDef  # type: ignore[assignment]

    def visit_ClassDef(self, node: ast.ClassDef) -> Any:
        node.body = [self.visit(s) for s in node.body]
        return node

    def visit_AnnAssign(self, node: ast.AnnAssign) -> Any:
        if node.value is not None:
            node.value = self.visit(node.value)
        return node

    def visit_JoinedStr(self, node: ast.JoinedStr) -> Any:
        return node

    def visit_Lambda(self, node: ast.Lambda) -> Any:
        node.body = self.visit(node.body)
        return node

    def visit_Match(self, node: ast.Match) -> Any:
        node.subject = self.visit(node.subject)
        for c in node.cases:
            if c.guard is not None:
                c.guard = self.visit(c.guard)
            c.body = [self.visit(s) for s in c.body]
        return node

    def visit_Call(self, node: ast.Call) -> Any:
        # keep zero-argument super() and the first argument of isinstance() untouched syntactically-sensitive forms
        if isinstance(node.func, ast.Name) and node.func.id == "super":
            return node
        if (isinstance(node.func, ast.Name) and node.func.id == "field") or (isinstance(node.func, ast.Attribute) and node.func.attr == "field"):
            # dataclasses.field() is typed as returning the field's type (a deliberate typeshed fiction)
            return node
        self.generic_visit(node)
        return self._maybe(node)

    def generic_visit(self, node: ast.AST) -> ast.AST:
        return super().generic_visit(node)

    def _maybe(self, node: ast.expr) -> ast.expr:
        k = (node.lineno, node.col_offset, node.end_lineno or 0, node.end_col_offset or 0)
        if k in self.keys:
            pid = len(self.probes)
            self.probes[pid] = k
            new = ast.Call(func=ast.Name(id="_vp_", ctx=ast.Load()), args=[ast.Constant(pid), node], keywords=[])
            return ast.copy_location(new, node)
        return node

    def visit(self, node: ast.AST) -> Any:
        if isinstance(node, ast.expr) and not isinstance(node, (ast.Call, ast.JoinedStr, ast.Lambda, ast.Starred, ast.Slice)):
            ctx = getattr(node, "ctx", None)
            if isinstance(ctx, (ast.Store, ast.Del)):
                # still descend into e.g. the value of a subscript target
                return super().visit(node) if isinstance(node, (ast.Subscript, ast.Attribute, ast.Tuple, ast.List)) else node
            node = super().visit(node)
            if isinstance(node, (ast.Yield, ast.YieldFrom, ast.Await, ast.NamedExpr, ast.GeneratorExp)):
                return node
            return self._maybe(node)  # type: ignore[arg-type]
        return super().visit(node)


# ------------------------------------------------------------------------------------------------------
# three-valued runtime membership oracle for mypy types

class Oracle:
    def __init__(self, ns: dict[str, Any]) -> None:
        self.ns = ns
        self.cls_cache: dict[str, Any] = {}

    def runtime_class(self, fullname: str) -> Any:
        if fullname in self.cls_cache:
            return self.cls_cache[fullname]
        res: Any = None
        mod, _, name = fullname.rpartition(".")
        try:
            if fullname.startswith("__main__."):
                obj: Any = self.ns
                cur: Any = None
                for part in fullname.split(".")[1:]:
                    cur = obj[part] if isinstance(obj, dict) else getattr(obj, part)
                    obj = cur
                res = cur
            elif mod == "builtins":
                res = getattr(builtins, name, None)
                if res is None and name == "function":
                    import types as _t
                    res = _t.FunctionType
            else:
                # the class may live in a parent module path (nested classes)
                parts = fullname.split(".")
                for i in range(len(parts) - 1, 0, -1):
                    try:
                        m = importlib.import_module(".".join(parts[:i]))
                    except Exception:
                        continue
                    cur = m
                    ok = True
                    for p in parts[i:]:
                        if not hasattr(cur, p):
                            ok = False
                            break
                        cur = getattr(cur, p)
                    if ok:
                        res = cur
                    break
        except Exception:
            res = None
        if res is not None and not isinstance(res, type):
            try:
                isinstance(0, res)   # typing aliases like typing.Sequence support isinstance
            except Exception:
                res = None
        self.cls_cache[fullname] = res
        return res

    def member(self, v: Any, t: Any, depth: int = 0) -> bool | None:
        from mypy import types as T
        t = T.get_proper_type(t)
        if depth > 6:
            return None
        if isinstance(t, T.AnyType):
            return None
        if isinstance(t, T.NoneType):
            return v is None
        if isinstance(t, T.UninhabitedType):
            return False
        if isinstance(t, T.UnionType):
            res: bool | None = False
            for it in t.items:
                r = self.member(v, it, depth + 1)
                if r is True:
                    return True
                if r is None:
                    res = None
            return res
        if isinstance(t, T.LiteralType):
            try:
                if t.fallback.type.is_enum:
                    return getattr(v, "name", None) == t.value and self.member(v, t.fallback, depth + 1) is not False
                return type(v) is type(t.value) and v == t.value
            except Exception:
                return None
        if isinstance(t, T.TupleType):
            fb = t.partial_fallback
            if fb.type.fullname != "builtins.tuple":
                r = self.member(v, fb, depth + 1)
                if r is not True:
                    return r
            if not isinstance(v, tuple):
                return False
            if any(isinstance(T.get_proper_type(i), T.UnpackType) if hasattr(T, "UnpackType") else False for i in t.items):
                return None
            if len(v) != len(t.items):
                return False
            out: bool | None = True
            for x, it in zip(v, t.items):
                r = self.member(x, it, depth + 1)
                if r is False:
                    return False
                if r is None:
                    out = None
            return out
        if isinstance(t, T.TypedDictType):
            if not isinstance(v, dict):
                return False
            for k in t.required_keys:
                if k not in v:
                    return False
            out = True
            for k, it in t.items.items():
                if k in v:
                    r = self.member(v[k], it, depth + 1)
                    if r is False:
                        return False
                    if r is None:
                        out = None
            return out
        if isinstance(t, T.TypeType):
            if getattr(t, "is_type_form", False):
                return None   # TypeForm[...] also admits strings, unions, aliases: not decidable here
            if not isinstance(v, type):
                return False
            it = T.get_proper_type(t.item)
            if isinstance(it, T.Instance):
                c = self.runtime_class(it.type.fullname)
                if c is None or not isinstance(c, type):
                    return None
                return issubclass(v, c)
            return None
        if isinstance(t, (T.CallableType, T.Overloaded)):
            if not callable(v):
                return False
            if isinstance(t, T.CallableType) and t.is_type_obj():
                if not isinstance(v, type):
                    return None
            return True
        if isinstance(t, T.TypeVarType):
            if t.values:
                rs = [self.member(v, x, depth + 1) for x in t.values]
                return True if any(r is True for r in rs) else (None if any(r is None for r in rs) else False)
            return self.member(v, t.upper_bound, depth + 1)
        if isinstance(t, T.Instance):
            info = t.type
            fn = info.fullname
            if fn == "builtins.object":
                return True
            if info.is_protocol:
                pc = self.runtime_class(fn)
                if pc is not None and isinstance(pc, type) and pc in type(v).__mro__:
                    return True    # explicit (nominal) subclass of the protocol class, e.g. `self` inside the protocol's own __init__
                for name in info.protocol_members:
                    if not hasattr(v, name):
                        return False
                return True
            if getattr(info, "is_newtype", False) and info.bases:
                return self.member(v, info.bases[0], depth + 1)
            c = self.runtime_class(fn)
            if c is None:
                return None
            try:
                ok = isinstance(v, c)
            except Exception:
                return None
            if not ok:
                # PEP 484 numeric promotions
                if c is float and isinstance(v, int):
                    return True
                if c is complex and isinstance(v, (int, float)):
                    return True
                if c is bytes and isinstance(v, (bytearray, memoryview)):
                    return None
                return False
            if c is int and isinstance(v, bool) and fn == "builtins.int":
                return True
            # element types of the common containers
            args = t.args
            try:
                if args and isinstance(v, (list, set, frozenset)) and len(args) == 1:
                    return self._all(list(v)[:200], args[0], depth)
                if args and isinstance(v, tuple) and fn == "builtins.tuple" and len(args) == 1:
                    return self._all(list(v)[:200], args[0], depth)
                if args and isinstance(v, dict) and len(args) == 2:
                    a = self._all(list(v.keys())[:200], args[0], depth)
                    if a is False:
                        return False
                    b = self._all(list(v.values())[:200], args[1], depth)
                    if b is False:
                        return False
                    return True if a and b else None
            except Exception:
                return None
            return True
        return None

    def _all(self, xs: list[Any], t: Any, depth: int) -> bool | None:
        out: bool | None = True
        for x in xs:
            r = self.member(x, t, depth + 1)
            if r is False:
                return False
            if r is None:
                out = None
        return out


# ------------------------------------------------------------------------------------------------------

def _execute(src_instr: Any, types_by_probe: dict[int, Any], type_strs: dict[int, str], stmt_lines: dict[int, bool],
             timeout: float) -> dict[str, Any]:
    """Fork; the child executes the instrumented program with the Type objects in memory and reports through a pipe."""
    r, w = os.pipe()
    pid = os.fork()
    if pid == 0:
        os.close(r)
        res: dict[str, Any] = {"e1": [], "e2": [], "e3": [], "probes": 0, "decided": 0, "unknown": 0, "nontrivial_probe": False}
        try:
            sys.stdout = io.StringIO()
            sys.stderr = io.StringIO()
            sys.setrecursionlimit(3000)
            ns: dict[str, Any] = {"__name__": "__main__", "__builtins__": builtins}
            oracle = Oracle(ns)
            import dis
            seen_exc: set[int] = set()
            executed: set[int] = set()

            def vp(pid_: int, value: Any) -> Any:
                res["probes"] += 1
                t = types_by_probe.get(pid_)
                if t is None:
                    return value
                try:
                    m = oracle.member(value, t)
                except Exception:
                    m = None
                if m is None:
                    res["unknown"] += 1
                else:
                    res["decided"] += 1
                    ts = type_strs[pid_]
                    if ts not in ("builtins.object", "builtins.int", "builtins.str", "builtins.bool", "None", "builtins.float"):
                        res["nontrivial_probe"] = True
                    if m is False and len(res["e3"]) < 5:
                        res["e3"].append({"probe": pid_, "static_type": ts, "runtime_type": type(value).__name__,
                                          "value": repr(value)[:80]})
                return value

            ns["_vp_"] = vp
            code = compile(src_instr, PROG, "exec")
            mon = sys.monitoring
            TOOL = 3
            mon.use_tool_id(TOOL, "verif-c01")

            def on_raise(code_: Any, off: int, exc: BaseException) -> None:
                if id(exc) in seen_exc:
                    return
                seen_exc.add(id(exc))
                if not isinstance(exc, (TypeError, AttributeError)):
                    return
                if code_.co_filename != PROG:
                    res.setdefault("library_raises", 0)
                    res["library_raises"] += 1
                    return
                op = dis.opname[code_.co_code[off]] if off < len(code_.co_code) else "?"
                if op in ("RAISE_VARARGS", "RERAISE"):
                    return
                line = None
                for start, end, ln in code_.co_lines():
                    if start <= off < end:
                        line = ln
                if len(res["e1"]) < 5:
                    res["e1"].append({"exc": type(exc).__name__, "msg": str(exc)[:160], "opcode": op, "line": line, "func": code_.co_name})

            def on_line(code_: Any, line: int) -> Any:
                if code_.co_filename == PROG:
                    executed.add(line)
                return mon.DISABLE

            mon.register_callback(TOOL, mon.events.RAISE, on_raise)
            mon.register_callback(TOOL, mon.events.LINE, on_line)
            mon.set_events(TOOL, mon.events.RAISE | mon.events.LINE)
            try:
                exec(code, ns)
                res["end"] = "normal"
            except BaseException as e:
                res["end"] = "exception:" + type(e).__name__
                res["end_msg"] = str(e)[:200]
            finally:
                mon.set_events(TOOL, 0)
            for ln in sorted(executed):
                if ln in stmt_lines and not stmt_lines[ln]:
                    res["e2"].append(ln)
            res["executed_lines"] = len(executed)
        except BaseException as e:
            res["child_error"] = f"{type(e).__name__}: {e}"
            res["tb"] = traceback.format_exc()[-1500:]
        try:
            os.write(w, json.dumps(res, default=repr).encode())
        finally:
            os._exit(0)
    os.close(w)
    buf = b""
    deadline = time.time() + timeout
    timed_out = False
    while True:
        left = deadline - time.time()
        if left <= 0:
            timed_out = True
            break
        rr, _, _ = select.select([r], [], [], min(left, 0.5))
        if rr:
            chunk = os.read(r, 1 << 16)
            if not chunk:
                break
            buf += chunk
    os.close(r)
    if timed_out:
        try:
            os.kill(pid, signal.SIGKILL)
        except OSError:
            pass
    try:
        _, status = os.waitpid(pid, 0)
    except ChildProcessError:
        status = 0
    if timed_out:
        return {"timeout": True}
    if not buf:
        return {"child_died": status}
    try:
        return json.loads(buf)
    except ValueError:
        return {"child_garbled": True}


def check_and_run(src: str, flags: list[str] | None = None, exec_timeout: float = 10.0) -> dict[str, Any]:
    """Returns {accepted, fragment, e1/e2/e3 ...}."""
    global _visited
    from mypy import build
    from mypy.errors import CompileError
    from mypy.main import process_options
    from mypy.modulefinder import BuildSource
    from mypy.nodes import Expression, Statement
    from mypy.traverser import TraverserVisitor

    out: dict[str, Any] = {}
    try:
        tree = ast.parse(src)
    except (SyntaxError, ValueError, RecursionError):
        return {"skipped": "syntax"}
    why = fragment_reject_reason(src, tree)
    if why:
        return {"skipped": "fragment:" + why}
    install_accept_probe()
    inproc.install_internal_hook()
    inproc._rebind_late()
    d = basic.fresh_dir("snd")
    old = os.getcwd()
    try:
        os.chdir(d)
        with open("prog.py", "w") as f:
            f.write(src)
        base = inproc.base_cache(basic._ROOT, STRICT + (flags or []))
        cache = os.path.join(basic._WDIR, "c01cache-" + os.path.basename(base))
        if not os.path.isdir(cache):
            import shutil
            shutil.copytree(base, cache)
        _, options = process_options([*STRICT, *(flags or []), "--cache-dir", cache, "--no-error-summary", "prog.py"])
        options.export_types = True
        options.preserve_asts = True
        options.show_traceback = True
        _visited = set()
        try:
            res = build.build([BuildSource("prog.py", "__main__", None)], options)
        except CompileError as e:
            return {"accepted": False, "errors": e.messages[:5], "blocker": True}
        except SystemExit:
            return {"skipped": "internal-error (owner: C20)"}
        finally:
            visited, _visited = _visited, None
        errs = [m for m in res.errors if ": error:" in m]
        if errs:
            return {"accepted": False, "errors": errs[:5]}
        st = res.graph.get("__main__")
        if st is None or st.tree is None:
            return {"skipped": "no tree"}
        mtree = st.tree

        class Collect(TraverserVisitor):
            def __init__(self) -> None:
                self.stmts: list[Any] = []

            def visit_block(self, b: Any) -> None:
                for s in b.body:
                    self.stmts.append(s)
                super().visit_block(b)

        col = Collect()
        for s in mtree.defs:
            col.stmts.append(s)
        mtree.accept(col)
        vis_lines = {ln for ln, _ in visited}
        # E2 is only asserted for statement kinds that accept() always visits when reachable
        judged = ("ExpressionStmt", "AssignmentStmt", "ReturnStmt", "IfStmt", "WhileStmt", "ForStmt", "RaiseStmt", "AssertStmt",
                  "OperatorAssignmentStmt", "TryStmt", "WithStmt", "MatchStmt", "BreakStmt", "ContinueStmt", "PassStmt")
        stmt_lines: dict[int, bool] = {}
        for s in col.stmts:
            nm = type(s).__name__
            if nm not in judged:
                continue
            v = (s.line, nm) in visited
            stmt_lines[s.line] = stmt_lines.get(s.line, False) or v
        # a line that also starts a visited statement of any kind is fine
        for ln in list(stmt_lines):
            if ln in vis_lines:
                stmt_lines[ln] = True
        out["n_statements"] = len(stmt_lines)
        out["n_unvisited"] = sum(1 for v in stmt_lines.values() if not v)
        # type map of the program's own expressions, keyed by span
        by_span: dict[tuple[int, int, int, int], list[Any]] = {}
        for node, typ in res.types.items():
            if not isinstance(node, Expression):
                continue
            if getattr(node, "end_line", None) is None or node.line < 0:
                continue
            k = (node.line, node.column, node.end_line, node.end_column)
            by_span.setdefault(k, []).append(typ)
        keys = {k for k, ts in by_span.items() if len({str(t) for t in ts}) == 1}
        wr = _Wrap(keys)
        new_tree = wr.visit(ast.parse(src))
        ast.fix_missing_locations(new_tree)
        types_by_probe = {pid: by_span[k][0] for pid, k in wr.probes.items()}
        type_strs = {pid: str(t) for pid, t in types_by_probe.items()}
        out["n_probes_static"] = len(types_by_probe)
        # compile from the AST (preserves original line numbers for E2 and E1 reporting)
        try:
            compile(new_tree, PROG, "exec")
        except Exception as e:
            return {"skipped": f"instrumented program does not compile: {e}"}
        run = _execute(new_tree, types_by_probe, type_strs, stmt_lines, exec_timeout)
        out["accepted"] = True
        out.update(run)
        if run.get("e3"):
            for e in run["e3"]:
                k = wr.probes.get(e["probe"])
                e["span"] = k
                if k:
                    lines = src.split("\n")
                    e["source"] = lines[k[0] - 1][k[1]:k[3]] if k[0] == k[2] else lines[k[0] - 1][k[1]:]
        return out
    finally:
        os.chdir(old)
        import shutil
        shutil.rmtree(d, ignore_errors=True)
        inproc.cleanup()


def case(src: str, n_mutants: int, key: list[Any], origin: str = "generated") -> dict[str, Any]:
    """The program itself and, if it is accepted and runs, n single-edit perturbations of it."""
    import random

    from vlib import typedgen
    base = check_and_run(src)
    out: dict[str, Any] = {"base": base, "mutants": []}
    if not base.get("accepted"):
        return out
    rng = random.Random(common.fingerprint(*key))
    seen = {src}
    for _ in range(n_mutants):
        m = typedgen.perturb(src, rng)
        if m is None or m[0] in seen:
            continue
        seen.add(m[0])
        r = check_and_run(m[0])
        r["op"] = m[1]
        if r.get("accepted") and (r.get("e1") or r.get("e2") or r.get("e3")):
            r["src"] = m[0]
        out["mutants"].append(r)
    return out
