"""Pool task: warm-cache runs vs cold runs over an edit history (C02, C09 share it)."""

from __future__ import annotations

import os
import shutil
from typing import Any

from vlib import common, diag, inproc
from vlib.tasks import basic
from vlib.tasks.daemon import sync_files

CONFIGS = {
    "sqlite-bin": ["--sqlite-cache", "--fixed-format-cache"],
    "sqlite-json": ["--sqlite-cache", "--no-fixed-format-cache"],
    "fs-bin": ["--no-sqlite-cache", "--fixed-format-cache"],
    "fs-json": ["--no-sqlite-cache", "--no-fixed-format-cache"],
}

_probe: dict[str, Any] = {}
_installed = False


def install_probe() -> None:
    """Recording wrappers on mypy.build.find_stale_sccs / process_graph (results unchanged)."""
    global _installed
    if _installed:
        return
    _installed = True
    from mypy import build as B

    orig_find = B.find_stale_sccs
    orig_pg = B.process_graph

    def is_user(st: Any) -> bool:
        p = st.path or ""
        return "typeshed" not in p and "site-packages" not in p

    def find_stale_sccs(sccs: Any, graph: Any, manager: Any) -> Any:
        stale, fresh = orig_find(sccs, graph, manager)
        try:
            for ascc in fresh:
                for mid in ascc.mod_ids:
                    if is_user(graph[mid]):
                        _probe.setdefault("fresh", []).append(mid)
            for ascc in stale:
                ids = [m for m in ascc.mod_ids if is_user(graph[m])]
                if not ids:
                    continue
                inherent = [m for m in ascc.mod_ids if not graph[m].is_fresh()]
                stale_deps = [d for m in ascc.mod_ids for d in graph[m].dep_hashes
                              if d in graph and graph[d].interface_hash != graph[m].dep_hashes[d]]
                reason = ("inherent" if inherent else "") + ("+deps" if stale_deps else "")
                if not reason:
                    reason = "indirect"
                for m in ids:
                    _probe.setdefault("stale", {})[m] = reason
        except Exception as e:  # the probe must never disturb the build
            _probe["probe_error"] = repr(e)
        return stale, fresh

    def process_graph(graph: Any, manager: Any) -> Any:
        try:
            return orig_pg(graph, manager)
        finally:
            try:
                _probe["hashes"] = {mid: (st.interface_hash.hex() if isinstance(st.interface_hash, bytes) else str(st.interface_hash))
                                    for mid, st in graph.items() if is_user(st)}
                _probe["errs"] = {mid: len(st.error_lines or []) for mid, st in graph.items() if is_user(st)}
            except Exception as e:
                _probe["probe_error"] = repr(e)

    B.find_stale_sccs = find_stale_sccs  # type: ignore[assignment]
    B.process_graph = process_graph  # type: ignore[assignment]


def _run(d: str, cache: str, flags: list[str], targets: list[str], capture: bool = True) -> dict[str, Any]:
    install_probe()
    _probe.clear()
    r = inproc.run_mypy(["--no-error-summary", "--cache-dir", cache, *flags, *targets], cwd=d, capture=capture)
    r["probe"] = {k: (dict(v) if isinstance(v, dict) else list(v) if isinstance(v, list) else v) for k, v in _probe.items()}
    r["once"] = sorted({i["message"] for i in r.get("infos") or [] if i["only_once"]})
    r.pop("infos", None)
    return r


def cold_run(d: str, flags: list[str], targets: list[str], true_cold: bool = False) -> dict[str, Any]:
    cache = os.path.join(d, ".oracle_cache")
    shutil.rmtree(cache, ignore_errors=True)
    if not true_cold:
        base = inproc.base_cache(basic._ROOT, flags)
        shutil.copytree(base, cache)
    try:
        return _run(d, cache, flags, targets)
    finally:
        shutil.rmtree(cache, ignore_errors=True)


def run_history(versions: list[dict[str, str]], flags: list[str], targets: list[str], config: str = "sqlite-bin",
                skip_runs: list[int] | None = None, true_cold_steps: list[int] | None = None,
                flags_per_step: list[list[str]] | None = None, mtime_back: list[bool] | None = None) -> dict[str, Any]:
    """Warm run after every step (except skip_runs) on one persistent cache dir; cold oracle at each run."""
    cfg = CONFIGS[config]
    d = basic.fresh_dir("inc")
    steps: list[dict[str, Any]] = []
    try:
        cache = os.path.join(d, ".warm_cache")
        prev: dict[str, str] = {}
        for i, files in enumerate(versions):
            changed = sync_files(d, prev, files, i, backwards=bool(mtime_back and i < len(mtime_back) and mtime_back[i]))
            prev = files
            if skip_runs and i in skip_runs:
                continue
            fl = [*cfg, *((flags_per_step[i] if flags_per_step else flags))]
            if i == 0 or not os.path.isdir(cache):
                base = inproc.base_cache(basic._ROOT, fl)
                if not os.path.isdir(cache):
                    shutil.copytree(base, cache)
            w = _run(d, cache, fl, targets)
            c = cold_run(d, fl, targets, true_cold=bool(true_cold_steps and i in true_cold_steps))
            st: dict[str, Any] = {"i": i, "changed": changed, "flags": fl,
                                  "warm": {"out": w["out"] + w["err"], "status": w["status"]},
                                  "cold": {"out": c["out"] + c["err"], "status": c["status"]},
                                  "fresh": sorted(set(w["probe"].get("fresh", []))),
                                  "stale": w["probe"].get("stale", {})}
            for side, r in (("warm", w), ("cold", c)):
                if r.get("crash") or r.get("internal"):
                    st[side + "_failed"] = (r.get("crash") or {}).get("key") or str(r.get("internal"))[:200]
            cmp = diag.compare(st["warm"]["out"], st["cold"]["out"], w["status"], c["status"])
            st["equal"] = cmp["equal"]
            st["order_only"] = cmp["order_only"]
            if not cmp["equal"]:
                st["diffs"] = cmp["diffs"]
                st["status_equal"] = cmp["status_equal"]
                once = set(w["once"]) | set(c["once"])
                st["equal_mod_once"] = diag.compare(st["warm"]["out"], st["cold"]["out"], w["status"], c["status"],
                                                    drop_msgs=once)["equal"] if once else False
            # M2 freshness soundness: a module the warm run trusted must carry the interface hash the cold run computes
            wh, ch = w["probe"].get("hashes", {}), c["probe"].get("hashes", {})
            bad = [m for m in st["fresh"] if m in wh and m in ch and wh[m] != ch[m]]
            st["m2_checked"] = len([m for m in st["fresh"] if m in wh and m in ch])
            if bad:
                st["m2_bad"] = bad
            steps.append(st)
    finally:
        shutil.rmtree(d, ignore_errors=True)
    return {"steps": steps, "config": config}
