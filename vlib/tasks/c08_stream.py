"""C08 secondary stream: the argument types that mypy ITSELF passes to join_types / meet_types /
make_simplified_union while it checks corpus programs are recorded by external wrappers (originals always called,
results returned unchanged, nothing evaluated during the run), and after the build the same laws are evaluated on them
in isolation.  This stream never produces a verdict: it reports which mechanism keys real programs reach.
"""

from __future__ import annotations

import sys
from typing import Any

from vlib.tasks import basic
from vlib.tasks import c08_lattice as L

_REC: list[tuple[str, tuple[Any, ...]]] | None = None
_DEPTH = 0
_installed = False
_pairs_seen: set[tuple[str, str, str]] = set()
MAX_PER_RUN = 400


def _install() -> None:
    global _installed
    if _installed:
        return
    _installed = True
    from mypy import join, meet, typeops

    def wrap(mod: Any, name: str, tag: str) -> None:
        orig = getattr(mod, name)

        def wrapper(*a: Any, **kw: Any) -> Any:
            global _DEPTH
            if _REC is not None and _DEPTH == 0 and len(_REC) < MAX_PER_RUN and not kw:
                try:
                    args = tuple(a[0]) if tag == "union" else (a[0], a[1])
                    if 2 <= len(args) <= 3:
                        _REC.append((tag, args))
                except Exception:
                    pass
            _DEPTH += 1
            try:
                return orig(*a, **kw)
            finally:
                _DEPTH -= 1
        wrapper.__wrapped__ = orig  # type: ignore[attr-defined]
        setattr(mod, name, wrapper)
        for mname, m in list(sys.modules.items()):   # importers that bound the name before the patch
            if mname.startswith("mypy.") and getattr(m, name, None) is orig:
                setattr(m, name, wrapper)

    # make sure the usual importers are loaded before rebinding
    import mypy.binder  # noqa: F401
    import mypy.checker  # noqa: F401
    import mypy.checkexpr  # noqa: F401
    import mypy.constraints  # noqa: F401
    import mypy.solve  # noqa: F401
    wrap(join, "join_types", "join")
    wrap(meet, "meet_types", "meet")
    wrap(typeops, "make_simplified_union", "union")


_BADQ: Any = None


def _clean(t: Any) -> bool:
    """Fully analysed, Any-free, type-variable-free, non-partial."""
    global _BADQ
    if _BADQ is None:
        from mypy.type_visitor import ANY_STRATEGY, BoolTypeQuery

        class Q(BoolTypeQuery):
            def __init__(self) -> None:
                super().__init__(ANY_STRATEGY)

            def visit_type_var(self, t: Any) -> bool:
                return True

            def visit_param_spec(self, t: Any) -> bool:
                return True

            def visit_type_var_tuple(self, t: Any) -> bool:
                return True

            def visit_unbound_type(self, t: Any) -> bool:
                return True

            def visit_erased_type(self, t: Any) -> bool:
                return True

            def visit_deleted_type(self, t: Any) -> bool:
                return True

            def visit_partial_type(self, t: Any) -> bool:
                return True

            def visit_callable_type(self, t: Any) -> bool:
                return bool(t.variables) or super().visit_callable_type(t)
        _BADQ = Q
    try:
        return not L.contains_any(t) and not t.accept(_BADQ())
    except Exception:
        return False


def corpus_laws(files: dict[str, str], flags: list[str]) -> dict[str, Any]:
    """Check one corpus program with the recorders on, then evaluate the laws on the recorded argument types."""
    global _REC
    L._bind()
    _install()
    _REC = []
    try:
        r = basic.check_typeshed(files, flags, ["main.py"])
    finally:
        rec, _REC = _REC, None
    if r.get("crash") or r.get("status") not in (0, 1):
        return {"skipped": "build-failed", "recorded": len(rec or [])}
    findings: dict[str, dict[str, Any]] = {}
    n_eval = 0
    n_clean = 0
    for tag, args in rec or []:
        if not all(_clean(a) for a in args):
            continue
        sig = (tag, *sorted(str(a) for a in args))
        if sig in _pairs_seen:  # type: ignore[comparison-overlap]
            continue
        _pairs_seen.add(sig)  # type: ignore[arg-type]
        n_clean += 1
        laws = L.FAMILIES[{"join": "join-ub", "meet": "meet-lb", "union": "union-equiv"}[tag]]
        for law in laws:
            n_eval += 1
            try:
                w = L._check_law(law, list(args))
            except Exception as e:
                w = None
                findings.setdefault(f"exception:{type(e).__name__}", {"n": 0, "examples": []})["n"] += 1
            if w is None:
                continue
            e = L.explain_types(law, list(args))
            key = e.get("key", "?")
            d = findings.setdefault(key, {"n": 0, "examples": []})
            d["n"] += 1
            if len(d["examples"]) < 2:
                d["examples"].append({k: e.get(k) for k in ("law", "types", "observed", "min_types", "min_observed")})
    L._M.type_state.reset_all_subtype_caches()
    return {"recorded": len(rec or []), "clean_distinct": n_clean, "law_evaluations": n_eval, "findings": findings}
