"""Pool task for C04: enumerate kill points and failed store writes of a run that follows an edit; every
follow-up run must still equal a cold run. All runs under test are fresh `python -m mypy` processes with the shim."""

from __future__ import annotations

import json
import os
import shutil
import signal
import sqlite3
import subprocess
import time
from typing import Any

from vlib import common, diag, inproc
from vlib.tasks import basic, incr
from vlib.tasks.daemon import sync_files

FLAGS = ["--no-error-summary", "--show-traceback"]


def _records(cache: str, stems: list[str]) -> dict[str, bytes | None]:
    """{record path: bytes} of the user modules' records (data/meta/meta_ex) in either store."""
    out: dict[str, bytes | None] = {}
    want = set(stems)

    def stem_of(rel: str) -> str:
        return rel.split(".data.")[0].split(".meta_ex.")[0].split(".meta.")[0]

    for root, _d, files in os.walk(cache):
        for fn in files:
            p = os.path.join(root, fn)
            if fn.endswith(".db"):
                try:
                    con = sqlite3.connect(f"file:{p}?mode=ro", uri=True, timeout=5)
                    for path, data in con.execute("SELECT path, data FROM files2"):
                        if stem_of(path) in want:
                            out[path] = bytes(data)
                    con.close()
                except sqlite3.Error:
                    pass
            elif ".data." in fn or ".meta." in fn or ".meta_ex." in fn:
                rel = os.path.relpath(p, cache)
                rel = rel.split(os.sep, 1)[1] if os.sep in rel else rel   # drop the "<pyversion>/" level
                if stem_of(rel) in want and not fn.count(".") > 3:
                    try:
                        with open(p, "rb") as f:
                            out[rel] = f.read()
                    except OSError:
                        out[rel] = None
    return out


def _kind(name: str) -> str:
    return "meta_ex" if ".meta_ex." in name else "meta" if ".meta." in name else "data"


def _run(d: str, cache: str, targets: list[str], extra: list[str], env: dict[str, str], timeout: float = 300) -> dict[str, Any]:
    """Fresh process in its own session; returns only after the whole process group is gone."""
    t0 = time.time()
    p = subprocess.Popen([common.PY, "-m", "mypy", *FLAGS, *extra, "--cache-dir", cache, *targets], cwd=d, env=env,
                         stdout=subprocess.PIPE, stderr=subprocess.PIPE, stdin=subprocess.DEVNULL, text=True, start_new_session=True)
    try:
        out, err = p.communicate(timeout=timeout)
        status: int | None = p.returncode
    except subprocess.TimeoutExpired:
        status = None
        out, err = "", "TIMEOUT"
    # workers may outlive a killed coordinator: wait for the group, then make sure
    deadline = time.time() + 30
    while time.time() < deadline:
        try:
            os.killpg(p.pid, 0)
        except (ProcessLookupError, PermissionError):
            break
        time.sleep(0.05)
    else:
        try:
            os.killpg(p.pid, signal.SIGKILL)
        except OSError:
            pass
        time.sleep(0.2)
    if status is None:
        try:
            os.killpg(p.pid, signal.SIGKILL)
        except OSError:
            pass
    return {"out": out, "err": err, "status": status, "wall": time.time() - t0}


def scenario(versions: list[dict[str, str]], store_flags: list[str], n_workers: int, targets: list[str],
             max_points: int = 1000, fail_mode: str = "singles", key: list[Any] | None = None) -> dict[str, Any]:
    import random
    rng = random.Random(common.fingerprint(*(key or ["c04"])))
    S0, S1, S2 = versions[0], versions[1], versions[2]
    d = basic.fresh_dir("crash")
    res: dict[str, Any] = {"cases": [], "store": store_flags, "n_workers": n_workers}
    par = ["-n", str(n_workers), "--native-parser"] if n_workers else []
    par_seq = ["--native-parser"] if n_workers else []
    sflags = [*store_flags, *par_seq]
    try:
        base = inproc.base_cache(basic._ROOT, sflags)
        pre = os.path.join(d, ".pre")
        work = os.path.join(d, ".work")
        shim_env = lambda **kw: common.base_env(shim=True, VERIF_WORKER_START_TIMEOUT="120", **kw)
        # --- pre-state: S0 checked at logical time 0 ------------------------------------------------
        sync_files(d, {}, S0, 0)
        shutil.copytree(base, pre)
        r0 = _run(d, pre, targets, sflags, shim_env(VERIF_CLOCK="0"))
        if r0["status"] not in (0, 1):
            res["skipped"] = f"pre-state run status {r0['status']}"
            return res
        # --- oracles ---------------------------------------------------------------------------------
        sync_files(d, S0, S1, 1)
        cold1 = incr.cold_run(d, sflags, targets)
        sync_files(d, S1, S2, 2)
        cold2 = incr.cold_run(d, sflags, targets)
        sync_files(d, S2, S1, 3)   # back to S1 (mtimes advance; contents S1)
        if cold1.get("crash") or cold1.get("internal") or cold2.get("crash") or cold2.get("internal"):
            res["skipped"] = "oracle failed internally"
            return res
        c1 = {"out": cold1["out"] + cold1["err"], "status": cold1["status"]}
        c2 = {"out": cold2["out"] + cold2["err"], "status": cold2["status"]}
        res["cold1"], res["cold2"] = c1, c2
        user_mods = sorted({os.path.splitext(p)[0] for p in set(S0) | set(S1) | set(S2)})
        mt1 = {p: os.stat(os.path.join(d, p)).st_mtime for p in S1}
        # --- recording run (no fault) ----------------------------------------------------------------
        shutil.copytree(pre, work)
        ev = os.path.join(d, "rec.jsonl")
        rr = _run(d, work, targets, [*sflags, *par], shim_env(VERIF_CLOCK="1", VERIF_EVENTS=ev))
        rec_ok = diag.compare(rr["out"] + rr["err"], c1["out"], rr["status"], c1["status"])["equal"]
        res["recording_equal_cold"] = rec_ok
        if "connection with worker" in rr["out"] + rr["err"] or "Cannot connect to build worker" in rr["out"] + rr["err"] or rr["status"] is None:
            res["skipped"] = "worker start-up/watchdog (machine load)"
            return res
        ops = [e for e in (json.loads(l) for l in open(ev)) if e["ev"] == "store"]
        by_role: dict[str, list[dict[str, Any]]] = {}
        for e in ops:
            by_role.setdefault(e["role"], []).append(e)
        res["ops"] = {r: len(v) for r, v in by_role.items()}
        pre_recs = _records(pre, user_mods)
        full_recs = _records(work, user_mods)
        rewritten = sorted(k for k in full_recs if full_recs.get(k) != pre_recs.get(k))
        res["records_rewritten_by_full_run"] = rewritten
        shutil.rmtree(work, ignore_errors=True)
        # --- fault plans --------------------------------------------------------------------------------
        plans: list[dict[str, Any]] = []
        for role, lst in sorted(by_role.items()):
            plans.append({"kind": "kill", "role": role, "n": 1, "when": "before"})
            for e in lst:
                plans.append({"kind": "kill", "role": role, "n": e["n"], "when": "after", "op": e["op"], "rec": e["rec"]})
                if e["op"] == "write" and e["store"] == "FilesystemMetadataStore":
                    plans.append({"kind": "kill", "role": role, "n": e["n"], "when": "replace", "op": e["op"], "rec": e["rec"]})
            writes = [e["n"] for e in lst if e["op"] == "write"]
            for w in writes:
                plans.append({"kind": "fail", "role": role, "set": [w]})
            if fail_mode != "singles":
                import itertools
                if len(writes) <= 8 and fail_mode == "all":
                    subsets = [list(c) for k in range(2, len(writes) + 1) for c in itertools.combinations(writes, k)]
                else:
                    subsets = [list(c) for c in itertools.combinations(writes, 2)]
                    subsets += [sorted(rng.sample(writes, rng.randint(3, len(writes)))) for _ in range(10) if len(writes) >= 3]
                rng.shuffle(subsets)
                for sset in subsets[:60]:
                    plans.append({"kind": "fail", "role": role, "set": sset})
        if len(plans) > max_points:
            # stratified: first and last instance of every (role, kind, op, record kind, when) class, then random fill
            def cls(p: dict[str, Any]) -> tuple[Any, ...]:
                return (p["role"], p["kind"], p.get("op"), p.get("rec"), p.get("when"), p.get("pair"), len(p.get("set", [])))
            by_cls: dict[tuple[Any, ...], list[dict[str, Any]]] = {}
            for p_ in plans:
                by_cls.setdefault(cls(p_), []).append(p_)
            chosen: list[dict[str, Any]] = []
            for k_ in sorted(by_cls, key=str):
                lst2 = by_cls[k_]
                chosen.append(lst2[0])
                if len(lst2) > 1:
                    chosen.append(lst2[-1])
            rest = [p_ for p_ in plans if p_ not in chosen]
            rng.shuffle(rest)
            plans = (chosen + rest)[:max(max_points, len(chosen))] if len(chosen) <= max_points * 2 else chosen[: max_points * 2]
        pair_plans: list[dict[str, Any]] = []
        if fail_mode == "singles":
            # the cheapest multi-fault class that single faults cannot reach: one data write plus one meta/meta_ex
            # write of ANOTHER record failing in the same run (new meta next to an old data file, and vice versa)
            for role, lst in sorted(by_role.items()):
                datas = [e for e in lst if e["op"] == "write" and e["rec"] == "data"]
                metas = [e for e in lst if e["op"] == "write" and e["rec"] in ("meta", "meta_ex")]
                pairs = [(a, b) for a in datas for b in metas if (a["name"] or "").split(".")[0] != (b["name"] or "").split(".")[0]]
                rng.shuffle(pairs)
                for a, b in pairs[:24]:
                    pair_plans.append({"kind": "fail", "role": role, "set": sorted([a["n"], b["n"]]), "pair": "data+" + b["rec"]})
        plans = plans + pair_plans
        res["n_plans"] = len(plans)
        # --- execute ------------------------------------------------------------------------------------
        for plan in plans:
            shutil.rmtree(work, ignore_errors=True)
            shutil.copytree(pre, work)
            if plan["kind"] == "kill":
                fenv = shim_env(VERIF_CLOCK="1", VERIF_KILL=f"{plan['role']}:{plan['n']}:{plan['when']}")
            else:
                fenv = shim_env(VERIF_CLOCK="1", VERIF_FAIL=f"{plan['role']}:{','.join(map(str, plan['set']))}")
            victim = _run(d, work, targets, [*sflags, *par], fenv)
            case: dict[str, Any] = {"plan": plan, "victim_status": victim["status"]}
            vtxt = victim["out"] + victim["err"]
            if plan["kind"] == "fail":
                # a run whose writes fail must itself still report correctly
                vc = diag.compare(vtxt, c1["out"], victim["status"], c1["status"])
                case["victim_equal_cold"] = vc["equal"]
                if not vc["equal"]:
                    case["victim_out"] = vtxt
                    case["victim_diffs"] = vc["diffs"]
            after = _records(work, user_mods)
            cls = {}
            for k in sorted(set(pre_recs) | set(after) | set(full_recs)):
                st = "missing" if after.get(k) is None else "old" if after.get(k) == pre_recs.get(k) else "new"
                cls[k] = st
            changed = [k for k, v in cls.items() if v != "old" and k in rewritten or (v == "missing" and pre_recs.get(k) is not None)]
            untouched = [k for k in rewritten if cls.get(k) == "old"]
            case["mixed_state"] = bool(changed and untouched)
            per_mod: dict[str, list[str]] = {}
            for k, v in cls.items():
                per_mod.setdefault(k.split(".data.")[0].split(".meta_ex.")[0].split(".meta.")[0], []).append(f"{_kind(k)}={v}")
            case["state_classes"] = sorted({",".join(sorted(v)) for m, v in per_mod.items() if any(x for x in v if not x.endswith("=old"))})
            # follow-up (i): warm run on S1
            f1 = _run(d, work, targets, sflags, shim_env(VERIF_CLOCK="2"))
            k1 = diag.compare(f1["out"] + f1["err"], c1["out"], f1["status"], c1["status"])
            case["follow1_equal"] = k1["equal"]
            if not k1["equal"]:
                case["follow1_out"] = f1["out"] + f1["err"]
                case["follow1_diffs"] = k1["diffs"]
            else:
                # (ii) second warm run: the repaired cache is itself valid
                f2 = _run(d, work, targets, sflags, shim_env(VERIF_CLOCK="3"))
                k2 = diag.compare(f2["out"] + f2["err"], c1["out"], f2["status"], c1["status"])
                case["follow2_equal"] = k2["equal"]
                if not k2["equal"]:
                    case["follow2_out"] = f2["out"] + f2["err"]
                    case["follow2_diffs"] = k2["diffs"]
                # (iii) edit S1->S2 and compare: a half-written cache must not poison later steps
                sync_files(d, S1, S2, 10)
                f3 = _run(d, work, targets, sflags, shim_env(VERIF_CLOCK="4"))
                k3 = diag.compare(f3["out"] + f3["err"], c2["out"], f3["status"], c2["status"])
                case["follow3_equal"] = k3["equal"]
                if not k3["equal"]:
                    case["follow3_out"] = f3["out"] + f3["err"]
                    case["follow3_diffs"] = k3["diffs"]
                sync_files(d, S2, S1, 3)
                for p_, t in mt1.items():   # exactly the S1 mtimes the recording run saw, for every plan
                    os.utime(os.path.join(d, p_), (t, t))
            res["cases"].append(case)
        return res
    finally:
        shutil.rmtree(d, ignore_errors=True)
