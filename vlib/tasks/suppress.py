"""Pool task for C13: metamorphic predictor for `# type: ignore` comments and --disable/--enable-error-code."""

from __future__ import annotations

import ast
import io
import random
import re
import tokenize
from typing import Any

from vlib import common, diag
from vlib.tasks import basic

BASE = ["--show-traceback", "--warn-unused-ignores", "--hide-error-context", "--no-pretty"]


_CODE_SUFFIX = re.compile(r"  \[[a-z0-9-]+\]$")


def _entries(out: str) -> list[tuple[str | None, int | None, str, str]]:
    """(file, line, severity, message WITHOUT the trailing `  [code]`) - the form ErrorInfo.message has."""
    return [(e["file"], e["line"], e["sev"], _CODE_SUFFIX.sub("", e["msg"])) for e in diag.parse(out) if e["sev"] in ("error", "note", "warning")]


def insert_ignore(src: str, line: int, comment: str) -> str | None:
    """Append `comment` to physical line `line` if a trailing comment is legal there and the AST is unchanged."""
    lines = src.split("\n")
    if not (1 <= line <= len(lines)):
        return None
    if "#" in lines[line - 1]:
        return None
    try:
        toks = list(tokenize.generate_tokens(io.StringIO(src).readline))
        before = ast.dump(ast.parse(src))
    except Exception:
        return None
    # the line must end outside any multi-line string token and must hold at least one real token
    ok = False
    for t in toks:
        if t.type == tokenize.STRING and t.start[0] <= line < t.end[0]:
            return None
        if t.type == tokenize.FSTRING_START if hasattr(tokenize, "FSTRING_START") else False:
            pass
        if t.start[0] <= line <= t.end[0] and t.type not in (tokenize.NL, tokenize.NEWLINE, tokenize.COMMENT, tokenize.INDENT,
                                                              tokenize.DEDENT, tokenize.ENDMARKER):
            ok = True
    if not ok or lines[line - 1].rstrip().endswith("\\"):
        return None
    first_stmt = None
    try:
        tree = ast.parse(src)
        if tree.body:
            first_stmt = tree.body[0].lineno
    except Exception:
        return None
    if first_stmt is None or line < first_stmt:
        return None  # a leading `# type: ignore` means "ignore the whole file"
    lines[line - 1] = lines[line - 1].rstrip() + "  " + comment
    new = "\n".join(lines)
    try:
        if ast.dump(ast.parse(new)) != before:
            return None
    except Exception:
        return None
    return new


def _match(code: str | None, sub_of: str | None, wanted: list[str] | None) -> bool:
    if wanted is None:
        return True
    return code is not None and (code in wanted or (sub_of is not None and sub_of in wanted))


def suppress(files: dict[str, str], flags: list[str], target: str, key: list[Any], n_transforms: int = 4,
             all_span_lines: bool = False) -> dict[str, Any]:
    rng = random.Random(common.fingerprint(*key))
    base = basic.check_typeshed(files, [*BASE, *flags], ["main.py"], capture=True)
    out0 = base["out"] + base["err"]
    res: dict[str, Any] = {"status0": base["status"], "out0": out0, "cases": []}
    if base.get("crash") or base.get("internal") or base["status"] not in (0, 1):
        res["skipped"] = "baseline blocked or failed"
        res["failed"] = (base.get("crash") or {}).get("key") or (str(base["internal"])[:200] if base.get("internal") else None)
        return res
    kept = [i for i in base.get("infos") or [] if i["stage"] == "kept" and not i["hidden"]]
    mine = [i for i in kept if i["file"] in (target, "./" + target)]
    if not mine:
        res["skipped"] = "no diagnostics in target file"
        return res
    src = files[target]
    by_id = {i["id"]: i for i in kept}
    D = _entries(out0)
    codes_present = sorted({i["code"] for i in mine if i["code"] and i["severity"] == "error"})
    err_lines = sorted({i["line"] for i in mine if i["severity"] == "error"})
    span_lines = sorted({ln for i in mine for ln in i["span"]} - set(err_lines))
    nlines = src.count("\n") + 1
    plans: list[tuple[str, int, list[str] | None]] = []
    for _ in range(n_transforms * 3):
        r = rng.random()
        if r < 0.45 and err_lines:
            L = rng.choice(err_lines)
        elif r < 0.65 and span_lines:
            L = rng.choice(span_lines)
        else:
            L = rng.randint(1, nlines)
        here = sorted({i["code"] for i in mine if L in i["span"] and i["code"]})
        m = rng.random()
        if m < 0.4:
            want: list[str] | None = None
        elif m < 0.7 and here:
            want = [rng.choice(here)]
        elif m < 0.85:
            want = [rng.choice(["misc", "arg-type", "assignment", "attr-defined", "name-defined", "return-value", "override"])]
        else:
            want = sorted(set(rng.sample(here, min(len(here), 1)) + [rng.choice(["misc", "call-arg", "index"])])) if here else ["misc", "index"]
        plans.append(("ignore", L, want))
        if len(plans) >= n_transforms:
            break
    if all_span_lines:
        # every line of every origin span, bare and with the matching code (multi-line statements: the ignore may sit
        # on any physical line of the span)
        plans = []
        for L in sorted(set(err_lines) | set(span_lines)):
            here = sorted({i["code"] for i in mine if L in i["span"] and i["code"]})
            plans.append(("ignore", L, None))
            for c in here[:2]:
                plans.append(("ignore", L, [c]))
    for c in rng.sample(codes_present, min(2, len(codes_present))):
        plans.append(("disable", 0, [c]))
    # exit status must not depend on the output format
    rj = basic.check_typeshed(files, [*BASE, *flags, "--output", "json"], ["main.py"], capture=False)
    if rj["status"] in (0, 1, 2) and not rj.get("crash") and not rj.get("internal") and rj["status"] != base["status"]:
        res["json_status_mismatch"] = {"text": base["status"], "json": rj["status"], "out": rj["out"][:400]}
    for kind, L, want in plans:
        case: dict[str, Any] = {"kind": kind, "line": L, "codes": want}
        if kind == "ignore":
            comment = "# type: ignore" + (f"[{', '.join(want)}]" if want else "")
            new = insert_ignore(src, L, comment)
            if new is None:
                case["skipped"] = "comment not insertable"
                res["cases"].append(case)
                continue
            files2 = dict(files)
            files2[target] = new
            r2 = basic.check_typeshed(files2, [*BASE, *flags], ["main.py"], capture=False)
        else:
            if re.search(r"#\s*type:\s*ignore", "".join(files.values())):
                case["skipped"] = "program has ignore comments (unused-ignore would interfere)"
                res["cases"].append(case)
                continue
            if re.search(r"#\s*mypy:.*(able[-_]error[-_]code|ignore[-_]errors)", "".join(files.values())) or any(
                    p.endswith((".ini", ".toml", ".cfg")) for p in files):
                # inline / per-module settings of the enabled-code set take precedence over the command line by design
                case["skipped"] = "program configures error codes itself"
                res["cases"].append(case)
                continue
            r2 = basic.check_typeshed(files, [*BASE, *flags, "--disable-error-code", want[0]], ["main.py"], capture=False)  # type: ignore[index]
        out2 = r2["out"] + r2["err"]
        case["status2"] = r2["status"]
        if r2.get("crash") or r2.get("internal"):
            case["failed"] = True
            res["cases"].append(case)
            continue
        D2 = _entries(out2)
        # --- classify every run-1 diagnostic -------------------------------------------------------
        must_vanish: list[tuple[Any, ...]] = []
        must_stay: list[tuple[Any, ...]] = []
        either: list[tuple[Any, ...]] = []

        def vanishes(i: dict[str, Any]) -> bool | None:
            if i["blocker"]:
                return False
            if kind == "disable":
                return _match(i["code"], i["sub_code_of"], want)
            if i["file"] not in (target, "./" + target) or L not in i["span"]:
                return False
            return _match(i["code"], i["sub_code_of"], want)

        for i in kept:
            e = (i["file"], i["line"], i["severity"], i["message"])
            if i["only_once"]:
                either.append(e)
                continue
            v = vanishes(i)
            if i["severity"] == "note":
                par = by_id.get(i["parent"]) if i["parent"] else None
                if par is not None:
                    v = vanishes(par)
                elif v:
                    pass
                elif kind == "ignore" and i["file"] in (target, "./" + target) and L in i["span"]:
                    either.append(e)   # parentless note on the ignored line whose own code does not match
                    continue
                elif kind == "disable":
                    # a parentless note: it vanishes with "its" error only if it carries the code itself
                    either.append(e) if any(vanishes(j) and j["line"] == i["line"] and j["file"] == i["file"] for j in kept if j["severity"] == "error") else must_stay.append(e)
                    continue
            (must_vanish if v else must_stay).append(e)
        norm = lambda f: f[2:] if isinstance(f, str) and f.startswith("./") else f
        D2n = [(norm(a), b, c, d) for a, b, c, d in D2]
        bad: list[str] = []
        for e in must_stay:
            e2 = (norm(e[0]), e[1], e[2], e[3])
            if D2n.count(e2) < [(norm(a), b, c, d) for a, b, c, d in D].count(e2) and e2 not in [(norm(a), b, c, d) for a, b, c, d in must_vanish]:
                bad.append(f"unrelated diagnostic disappeared: {e2}")
        for e in must_vanish:
            e2 = (norm(e[0]), e[1], e[2], e[3])
            stay_n = [(norm(a), b, c, d) for a, b, c, d in must_stay + either].count(e2)
            if D2n.count(e2) > stay_n:
                bad.append(f"matching diagnostic survived: {e2}")
        allowed_new: list[tuple[Any, ...]] = []
        D1n = [(norm(a), b, c, d) for a, b, c, d in D]
        for e2 in D2n:
            if D2n.count(e2) <= D1n.count(e2):
                continue
            f, ln, sev, msg = e2
            if kind == "ignore" and f == target and ln == L and (
                    msg.startswith('Unused "type: ignore') or "not covered by \"type: ignore" in msg
                    or msg.startswith('"type: ignore" comment without error code') or "may be out of date" in msg):
                allowed_new.append(e2)
                continue
            if any(x[3] == msg for x in either):
                continue   # an only_once note that re-attached elsewhere
            bad.append(f"new diagnostic appeared: {e2}")
        # notes attached to a suppressed error go with it.  "Attached" is read off run 1's OUTPUT, not off mypy's own
        # origin bookkeeping: the contiguous notes that directly follow an error on the same file:line and carry the
        # error's code.  (The per-diagnostic prediction above follows ErrorInfo.origin_span, so a note that lost its
        # origin would be predicted to stay - and would stay.)
        info_of: dict[tuple[Any, ...], dict[str, Any]] = {}
        for i in kept:
            info_of.setdefault((norm(i["file"]), i["line"], i["severity"], i["message"]), i)
        mv = [(norm(a), b, c, d) for a, b, c, d in must_vanish]
        either_n = [(norm(a), b, c, d) for a, b, c, d in either]
        cur: tuple[Any, ...] | None = None
        gone_with: dict[tuple[Any, ...], int] = {}
        for e1 in D1n:
            if e1[2] == "error":
                cur = e1 if (e1 in mv and D2n.count(e1) < D1n.count(e1)) else None
                continue
            if e1[2] != "note" or cur is None or (e1[0], e1[1]) != (cur[0], cur[1]):
                cur = None
                continue
            ni, ei = info_of.get(e1), info_of.get(cur)
            if ni is None or ei is None or ni["only_once"] or ni["code"] != ei["code"] or e1 in either_n:
                continue
            gone_with[e1] = gone_with.get(e1, 0) + 1
        for e1, n_gone in gone_with.items():
            if D2n.count(e1) > max(0, D1n.count(e1) - n_gone):
                bad.append(f"note attached to a suppressed error survived: {e1}")
        if kind == "ignore":
            unused = [e2 for e2 in D2n if e2[0] == target and e2[1] == L and e2[3].startswith('Unused "type: ignore')]
            on_line_either = any(x[1] == L for x in either)
            if must_vanish and unused and not (want and len(want) > 1):
                bad.append("ignore reported unused although it suppressed something")
            has_syntax = any(i["code"] == "syntax" for i in kept)   # e.g. a rejected file-level ignore: unused-ignore reporting is off
            if not must_vanish and not unused and not on_line_either and r2["status"] != 2 and not has_syntax:
                # something may still have been suppressed that run 1 never rendered (duplicates, hidden): only count
                # it when run 1 had no incoming diagnostics at all on that line
                incoming = [i for i in base.get("infos") or [] if i["stage"] == "in" and i["file"] in (target, "./" + target) and L in i["span"]]
                if not incoming:
                    bad.append("ignore suppressed nothing but was not reported unused")
        # order of survivors
        surv1 = [e for e in D1n if e in D2n]
        surv2 = [e for e in D2n if e in D1n]
        if not bad and [e for e in surv1 if e[0] == target] != [e for e in surv2 if e[0] == target] and sorted(surv1) == sorted(surv2):
            bad.append("order of surviving diagnostics changed")
        # exit status truthfulness on the transformed run
        n_err2 = sum(1 for e in D2n if e[2] == "error")
        exp = 0 if n_err2 == 0 else 1
        if r2["status"] in (0, 1) and r2["status"] != exp:
            bad.append(f"exit status {r2['status']} but {n_err2} error lines")
        case.update(n_vanish=len(must_vanish), n_stay=len(must_stay), n_either=len(either), bad=bad,
                    vanish_codes=sorted({i["code"] or "none" for i in kept if (i["file"], i["line"], i["severity"], i["message"]) in must_vanish}))
        if bad:
            case["out2"] = out2
        res["cases"].append(case)
    n_err = sum(1 for e in D if e[2] == "error")
    res["status_ok"] = base["status"] == (1 if n_err else 0)
    return res
