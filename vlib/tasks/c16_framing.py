"""C16 pool tasks, part (b): the repository's real `IPCBase.read_bytes / frame_from_buffer /
write_bytes` (and the JSON layer `dmypy_util.send/receive`) driven over (1) a scripted connection
whose recv() returns the chunks of an enumerated segmentation and (2) a real socket.socketpair.
Every message carries (sender id, counter), so loss, duplication, reordering and corruption are all
decided by one pass: the received list must equal the sent list, followed by end-of-stream."""

from __future__ import annotations

import itertools
import json
import socket
import threading
from typing import Any, Iterator

from vlib import common


class Scripted:
    """Fake connection: recv(size) hands out the next scripted chunk (never more than `size`)."""

    def __init__(self, chunks: list[bytes]) -> None:
        self.chunks = [c for c in chunks if c]
        self.i = 0
        self.rest = b""
        self.calls = 0

    def recv(self, size: int) -> bytes:
        self.calls += 1
        if not self.rest:
            if self.i >= len(self.chunks):
                return b""
            self.rest = self.chunks[self.i]
            self.i += 1
        out, self.rest = self.rest[:size], self.rest[size:]
        return out

    def close(self) -> None:
        pass


class _Rec:
    def __init__(self) -> None:
        self.data = bytearray()

    def sendall(self, b: bytes) -> None:
        self.data += b


def _base(conn: Any) -> Any:
    from mypy.ipc import IPCBase
    b = IPCBase("c16", None)
    b.connection = conn
    return b


def encode(msgs: list[bytes]) -> tuple[bytes, list[int]]:
    """Stream produced by the real write_bytes, and the frame boundaries (end offsets)."""
    w = _base(_Rec())
    ends = []
    for m in msgs:
        w.write_bytes(m)
        ends.append(len(w.connection.data))
    return bytes(w.connection.data), ends


def payload(sender: int, counter: int, size: int) -> bytes:
    head = b"%d:%d:" % (sender, counter)
    if size <= len(head):
        # tiny messages: still distinguishable by position through a rolling byte
        return bytes(((sender * 131 + counter * 17 + j) % 251) + 1 for j in range(size))
    fill = bytes((counter * 7 + j) % 256 for j in range(min(size - len(head), 4096)))
    body = (fill * ((size - len(head)) // max(1, len(fill)) + 1))[: size - len(head)]
    return head + body


def read_all(r: Any, limit: int) -> list[bytes]:
    got = []
    for _ in range(limit):
        m = r.read_bytes()
        if not m:
            break
        got.append(m)
    return got


def judge(sent: list[bytes], got: list[bytes], r: Any) -> str | None:
    """None if intact, else a mechanism class."""
    if got == sent:
        if len(r.buffer) != 0 or r.message_size is not None:
            return "residue-after-complete-stream"
        return None
    if len(got) < len(sent) and got == sent[: len(got)]:
        return "frames-lost-at-end"
    if len(got) > len(sent) and got[: len(sent)] == sent:
        return "extra-frames"
    if sorted(got) == sorted(sent):
        return "reordered"
    for a, b in zip(got, sent):
        if a != b:
            if len(a) < len(b) and b.startswith(a):
                return "frame-truncated"
            if len(a) > len(b) and a.startswith(b):
                return "frame-overlong"
            if len(a) == len(b):
                return "frame-corrupted"
            return "frame-misframed"
    return "stream-differs"


def seg_class(cuts: tuple[int, ...], ends: list[int], hs: int) -> str:
    """Where the cuts fall relative to frames: used for coverage cells and the non-triviality rule."""
    starts = [0] + ends[:-1]
    in_header = in_body = at_boundary = False
    for c in cuts:
        if c in ends:
            at_boundary = True
            continue
        for s, e in zip(starts, ends):
            if s < c < e:
                if c - s < hs:
                    in_header = True
                else:
                    in_body = True
    chunks = [0, *cuts, ends[-1]]
    coalesced = any(sum(1 for e in ends if a < e <= b) >= 2 for a, b in zip(chunks, chunks[1:]))
    parts = [n for n, f in (("hdr-split", in_header), ("body-split", in_body), ("coalesced", coalesced),
                            ("at-boundary", at_boundary)) if f]
    return "+".join(parts) or "whole"


def chunks_of(stream: bytes, cuts: tuple[int, ...]) -> list[bytes]:
    idx = [0, *cuts, len(stream)]
    return [stream[a:b] for a, b in zip(idx, idx[1:])]


def run_scripted(msgs: list[bytes], stream: bytes, cuts: tuple[int, ...], recv_size: int | None = None) -> tuple[str | None, list[bytes]]:
    r = _base(Scripted(chunks_of(stream, cuts)))
    if recv_size is None:
        got = read_all(r, len(msgs) + 3)
    else:
        got = []
        for _ in range(len(msgs) + 3):
            m = r.read_bytes(recv_size)
            if not m:
                break
            got.append(m)
    return judge(msgs, got, r), got


def exhaustive(sizes: list[int]) -> dict[str, Any]:
    """ALL segmentations (every subset of cut positions) of the stream carrying messages of these sizes."""
    from mypy.ipc import HEADER_SIZE
    msgs = [payload(1, i, s) for i, s in enumerate(sizes)]
    stream, ends = encode(msgs)
    n = len(stream)
    cells: dict[str, int] = {}
    bad: list[dict[str, Any]] = []
    evals = 0
    nontriv = 0
    for mask in range(1 << (n - 1)):
        cuts = tuple(i + 1 for i in range(n - 1) if mask >> i & 1)
        verdict, got = run_scripted(msgs, stream, cuts)
        evals += 1
        cls = seg_class(cuts, ends, HEADER_SIZE)
        cells[cls] = cells.get(cls, 0) + 1
        if cls not in ("whole", "at-boundary"):
            nontriv += 1
        if verdict and len(bad) < 5:
            bad.append({"verdict": verdict, "sizes": sizes, "cuts": list(cuts), "seg_class": cls,
                        "sent": [m.hex() for m in msgs], "got": [g.hex() for g in got], "stream": stream.hex()})
        elif verdict:
            bad.append({"verdict": verdict, "seg_class": cls})
    return {"evals": evals, "nontriv": nontriv, "cells": cells, "bad": bad[:40], "n_bad": len(bad), "stream_len": n, "sizes": sizes}


def _adversarial_cuts(r: Any, n: int, ends: list[int], hs: int, style: str) -> tuple[int, ...]:
    starts = [0] + ends[:-1]
    if style == "bytewise":
        return tuple(range(1, n))
    if style == "frame-exact":
        return tuple(ends[:-1])
    if style in ("hdr1+3", "hdr2+2", "hdr3+1"):
        k = int(style[3])
        return tuple(sorted({s + k for s in starts if 0 < s + k < n}))
    if style == "boundary-1":
        return tuple(sorted({e - 1 for e in ends if 0 < e - 1 < n}))
    if style == "boundary+1":
        return tuple(sorted({e + 1 for e in ends[:-1] if e + 1 < n}))
    if style == "two-frames-per-chunk":
        return tuple(ends[1:-1:2])
    if style == "frame+partial-next":
        return tuple(sorted({min(n - 1, e + r.randint(1, hs + 2)) for e in ends[:-1]} - {0, n}))
    if style == "header-then-body":
        return tuple(sorted({s + hs for s in starts if 0 < s + hs < n} | set(ends[:-1])))
    if style == "random-small":
        cuts, p = [], 0
        while True:
            p += r.randint(1, 9)
            if p >= n:
                return tuple(cuts)
            cuts.append(p)
    if style == "random-large":
        cuts, p = [], 0
        while True:
            p += r.randint(1, 70000)
            if p >= n:
                return tuple(cuts)
            cuts.append(p)
    cuts2 = sorted(r.sample(range(1, n), min(n - 1, r.randint(1, 12)))) if n > 1 else []
    return tuple(cuts2)


STYLES = ["bytewise", "frame-exact", "hdr1+3", "hdr2+2", "hdr3+1", "boundary-1", "boundary+1", "two-frames-per-chunk",
          "frame+partial-next", "header-then-body", "random-small", "random-large", "random-few"]
SIZE_CLASSES = {"tiny": (1, 8), "small": (9, 300), "medium": (301, 70000), "around-max-read": (212992 - 6, 212992 + 6),
                "large": (212993, 1 << 20)}


def sampled(seed_parts: list[Any], n_streams: int) -> dict[str, Any]:
    """Random frame sequences x adversarial / random segmentations (scripted connection), including
    messages larger than MAX_READ and a small recv size; plus the JSON layer (dmypy_util.send/receive)."""
    from mypy import dmypy_util
    from mypy.ipc import HEADER_SIZE

    cells: dict[str, int] = {}
    bad: list[dict[str, Any]] = []
    evals = nontriv = 0
    fps: list[str] = []
    for k in range(n_streams):
        r = common.rng_for("C16", "framing", *seed_parts, k)
        style = STYLES[k % len(STYLES)]
        nmsg = r.randint(1, 6)
        szc = []
        sizes = []
        for _ in range(nmsg):
            c = r.choice(["tiny", "small", "small", "medium", "around-max-read", "large"] if style != "bytewise"
                         else ["tiny", "small", "small", "medium"])
            if c == "large" and sum(sizes) > (1 << 20):
                c = "small"
            szc.append(c)
            sizes.append(r.randint(*SIZE_CLASSES[c]))
        json_layer = k % 5 == 4
        if json_layer:
            objs = [{"id": [2, i], "command": "x" * r.randint(0, 40), "text": "é中\U0001f600" * r.randint(0, min(s, 2000) // 9),
                     "n": r.randint(-10 ** 9, 10 ** 9)} for i, s in enumerate(sizes)]
            w = _base(_Rec())
            for o in objs:
                dmypy_util.send(w, o)
            stream = bytes(w.connection.data)
            ends = []
            p = 0
            while p < len(stream):
                ln = int.from_bytes(stream[p:p + HEADER_SIZE], "big")
                p += HEADER_SIZE + ln
                ends.append(p)
            msgs = []
        else:
            msgs = [payload(2, i, s) for i, s in enumerate(sizes)]
            stream, ends = encode(msgs)
        cuts = _adversarial_cuts(r, len(stream), ends, HEADER_SIZE, style)
        recv_size = r.choice([None, None, None, 1, 3, 4, 5, 64, 4096]) if len(stream) < 200000 else r.choice([None, 4096, 65536])
        cls = seg_class(cuts, ends, HEADER_SIZE)
        evals += 1
        if json_layer:
            rd = _base(Scripted(chunks_of(stream, cuts)))
            got_objs = []
            verdict = None
            try:
                for _ in objs:
                    got_objs.append(dmypy_util.receive(rd))
                if got_objs != objs:
                    verdict = "json-layer:objects-differ"
                else:
                    try:
                        dmypy_util.receive(rd)
                        verdict = "json-layer:extra-frame"
                    except OSError:
                        pass
            except Exception as e:
                verdict = f"json-layer:{type(e).__name__}"
            got: list[bytes] = []
        else:
            verdict, got = run_scripted(msgs, stream, cuts, recv_size)
        cell = f"{style}|{'json' if json_layer else 'bytes'}"
        cells[cell] = cells.get(cell, 0) + 1
        for c in set(szc):
            cells["msgsize:" + c] = cells.get("msgsize:" + c, 0) + 1
        if recv_size is not None:
            cells[f"recv-size:{recv_size}"] = cells.get(f"recv-size:{recv_size}", 0) + 1
        cells["segclass:" + cls] = cells.get("segclass:" + cls, 0) + 1
        if cls not in ("whole", "at-boundary"):
            nontriv += 1
            fps.append(common.fingerprint(style, sizes, cuts[:50], len(cuts), recv_size, json_layer))
        if verdict:
            bad.append({"verdict": verdict, "style": style, "sizes": sizes, "n_cuts": len(cuts), "cuts_head": list(cuts[:40]),
                        "recv_size": recv_size, "seg_class": cls, "json_layer": json_layer, "seed_parts": [*seed_parts, k],
                        "got_sizes": [len(g) for g in got], "first_diff": _first_diff(msgs, got)})
    return {"evals": evals, "nontriv": nontriv, "cells": cells, "bad": bad[:40], "n_bad": len(bad), "fps": fps}


def _first_diff(sent: list[bytes], got: list[bytes]) -> dict[str, Any] | None:
    for i, (a, b) in enumerate(itertools.zip_longest(sent, got)):
        if a != b:
            return {"index": i, "sent_len": None if a is None else len(a), "got_len": None if b is None else len(b),
                    "sent_head": None if a is None else a[:24].hex(), "got_head": None if b is None else b[:24].hex()}
    return None


def socketpair(seed_parts: list[Any], n_streams: int) -> dict[str, Any]:
    """The same monitor over a real AF_UNIX socket pair: the real write_bytes on one side (or a raw
    chunked writer), the real read_bytes on the other; both directions at once."""
    from mypy.ipc import HEADER_SIZE, MAX_READ, ready_to_read

    cells: dict[str, int] = {}
    bad: list[dict[str, Any]] = []
    evals = nontriv = 0
    fps: list[str] = []
    for k in range(n_streams):
        r = common.rng_for("C16", "socketpair", *seed_parts, k)
        a_sock, b_sock = socket.socketpair(socket.AF_UNIX, socket.SOCK_STREAM)
        a_sock.settimeout(60)
        b_sock.settimeout(60)
        a, b = _base(a_sock), _base(b_sock)
        mode = ["write_bytes", "raw-chunked", "raw-bytewise"][k % 3]
        sizes_ab = [r.randint(*SIZE_CLASSES[r.choice(["tiny", "small", "medium", "around-max-read", "large"] if mode != "raw-bytewise"
                                                      else ["tiny", "small"])]) for _ in range(r.randint(1, 5))]
        sizes_ba = [r.randint(*SIZE_CLASSES[r.choice(["tiny", "small", "medium"])]) for _ in range(r.randint(1, 4))]
        m_ab = [payload(3, i, s) for i, s in enumerate(sizes_ab)]
        m_ba = [payload(4, i, s) for i, s in enumerate(sizes_ba)]
        got_ab: list[bytes] = []
        got_ba: list[bytes] = []
        errs: list[str] = []

        def writer(conn: Any, sock: socket.socket, msgs: list[bytes], how: str, rr: Any) -> None:
            try:
                if how == "write_bytes":
                    for m in msgs:
                        conn.write_bytes(m)
                else:
                    stream, ends = encode(msgs)
                    cuts = _adversarial_cuts(rr, len(stream), ends, HEADER_SIZE, "bytewise" if how == "raw-bytewise" else
                                             rr.choice(["hdr1+3", "hdr2+2", "hdr3+1", "boundary-1", "frame+partial-next", "random-small", "random-large"]))
                    for c in chunks_of(stream, cuts):
                        sock.sendall(c)
                sock.shutdown(socket.SHUT_WR)
            except Exception as e:  # reported, never swallowed
                errs.append(f"writer:{type(e).__name__}:{e}")

        def reader(conn: Any, n: int, into: list[bytes]) -> None:
            try:
                for _ in range(n + 3):
                    m = conn.read_bytes()
                    if not m:
                        break
                    into.append(m)
            except Exception as e:
                errs.append(f"reader:{type(e).__name__}:{e}")

        ths = [threading.Thread(target=writer, args=(a, a_sock, m_ab, mode, r)),
               threading.Thread(target=writer, args=(b, b_sock, m_ba, "write_bytes", r)),
               threading.Thread(target=reader, args=(b, len(m_ab), got_ab)),
               threading.Thread(target=reader, args=(a, len(m_ba), got_ba))]
        for t in ths:
            t.start()
        hung = False
        for t in ths:
            t.join(120)
            hung = hung or t.is_alive()
        evals += 1
        v1 = judge(m_ab, got_ab, b) if not hung and not errs else None
        v2 = judge(m_ba, got_ba, a) if not hung and not errs else None
        for s in (a_sock, b_sock):
            try:
                s.close()
            except OSError:
                pass
        cell = f"socketpair|{mode}|{'large' if max(sizes_ab) > MAX_READ else 'le-max-read'}"
        cells[cell] = cells.get(cell, 0) + 1
        if hung or errs:
            cells["socketpair|watchdog-or-io-error"] = cells.get("socketpair|watchdog-or-io-error", 0) + 1
            bad.append({"verdict": "inconclusive", "hung": hung, "errs": errs[:3]})
            continue
        if len(m_ab) > 1 or max(sizes_ab) > 4096:
            nontriv += 1
            fps.append(common.fingerprint("sp", mode, sizes_ab, sizes_ba))
        for v, d in ((v1, "a->b"), (v2, "b->a")):
            if v:
                bad.append({"verdict": v, "direction": d, "mode": mode, "sizes_ab": sizes_ab, "sizes_ba": sizes_ba,
                            "seed_parts": [*seed_parts, k], "first_diff": _first_diff(m_ab if d == "a->b" else m_ba,
                                                                                      got_ab if d == "a->b" else got_ba)})
    # a frame left in the buffer must be reported readable although the socket itself is drained
    a_sock, b_sock = socket.socketpair(socket.AF_UNIX, socket.SOCK_STREAM)
    try:
        a, b = _base(a_sock), _base(b_sock)
        m1, m2 = payload(5, 0, 10), payload(5, 1, 20)
        stream, _ = encode([m1, m2])
        a_sock.sendall(stream)
        first = b.read_bytes()
        ready = ready_to_read([b], 0.0)
        second = b.read_bytes() if ready else b""
        evals += 1
        if first != m1 or ready != [0] or second != m2:
            bad.append({"verdict": "buffered-frame-not-delivered", "first_ok": first == m1, "ready": ready, "second_ok": second == m2})
        cells["socketpair|coalesced-then-ready_to_read"] = 1
    finally:
        a_sock.close()
        b_sock.close()
    return {"evals": evals, "nontriv": nontriv, "cells": cells, "bad": bad[:40], "n_bad": len([x for x in bad if x["verdict"] != "inconclusive"]),
            "n_inconclusive": len([x for x in bad if x["verdict"] == "inconclusive"]), "fps": fps}


def size_tuples(max_stream: int, header: int = 4) -> Iterator[list[int]]:
    """All message-size tuples (sizes >= 1) whose framed stream is at most max_stream bytes."""
    def rec(prefix: list[int], left: int) -> Iterator[list[int]]:
        if prefix:
            yield list(prefix)
        for s in range(1, left - header + 1):
            yield from rec(prefix + [s], left - header - s)
    yield from rec([], max_stream)
