"""C16 pool tasks, part (a) and (c): a REAL dmypy daemon (`python -m mypy.dmypy start`, private
directory, private TMPDIR for its socket), a hostile raw client built on the repository's own
`IPCClient` and framing (`IPCBase.write_bytes`, `dmypy_util.send`), and probes made with the
repository's own client code (`mypy.dmypy.client.main`, in-process, plus the CLI as a fresh
process). Nothing here decides by wall clock; the waits are watchdogs.

The worker marks itself a child sub-reaper so that the daemonised grandchild is re-parented to it:
the harness can then observe the daemon's exit (waitpid) exactly, and a dead daemon does not linger
as a zombie of this sandbox's non-reaping pid 1 (for which `os.kill(pid, 0)` still succeeds and the
repository's `alive()` answers True)."""

from __future__ import annotations

import ctypes
import io
import json
import os
import shutil
import signal
import struct
import time
from contextlib import redirect_stderr, redirect_stdout
from typing import Any

from vlib import c16_faults as F
from vlib import common
from vlib.tasks import basic

_libc = ctypes.CDLL(None, use_errno=True)
SUBREAPER = _libc.prctl(36, 1, 0, 0, 0) == 0  # PR_SET_CHILD_SUBREAPER

BASE_MTIME = 1_600_000_000
IO_TIMEOUT = 20.0
BARRIER_TIMEOUT = 30


# ---------------------------------------------------------------------------------------------
class Daemon:
    def __init__(self, root: str, cache_mode: str, verbose: bool, base_cache: str | None,
                 extra_start: list[str] | None = None) -> None:
        self.root = root
        self.cache_mode = cache_mode
        self.verbose = verbose
        self.base_cache = base_cache
        self.extra_start = extra_start or []
        self.status_file = os.path.join(root, "dmypy-status.json")
        self.n_started = 0
        self.pid: int | None = None
        self.conn_name: str | None = None
        self.waitstatus: int | None = None
        self.gone = True
        self.log = ""
        self.env = common.base_env(TMPDIR=os.path.join(root, "t"))
        os.makedirs(os.path.join(root, "t"), exist_ok=True)

    # -- lifecycle ---------------------------------------------------------------------------
    def start(self) -> dict[str, Any]:
        self.n_started += 1
        self.log = os.path.join(self.root, f"daemon{self.n_started}.log")
        flags = ["--no-error-summary"]
        if self.verbose:
            flags.append("-v")
        if self.cache_mode == "fgcache":
            assert self.base_cache
            cache = os.path.join(self.root, f"fgcache{self.n_started}")
            shutil.copytree(self.base_cache, cache)
            flags += ["--use-fine-grained-cache", "--cache-dir", cache]
        # safety net: a daemon orphaned by a killed harness ends itself after 15 idle minutes
        idle = [] if "--timeout" in self.extra_start else ["--timeout", "900"]
        r = common.run_cli(["--status-file", self.status_file, "start", "--log-file", self.log, *idle, *self.extra_start,
                            "--", *flags], cwd=self.root, env=self.env, timeout=120, module="mypy.dmypy")
        if r["status"] != 0 and "Timed out waiting for daemon to start" in (r["err"] or ""):
            # the client gives the daemon 5 s to write its status file; on an overloaded machine the daemon is
            # merely late (and would otherwise stay behind unobserved): wait for it with a generous watchdog
            end = time.monotonic() + 90
            while time.monotonic() < end and not os.path.isfile(self.status_file):
                time.sleep(0.1)
            if os.path.isfile(self.status_file):
                time.sleep(0.2)
                r = dict(r, status=0, late=True)
        if r["status"] != 0:
            return {"ok": False, "start": r}
        try:
            with open(self.status_file) as f:
                info = json.load(f)
            self.pid = int(info["pid"])
            self.conn_name = str(info["connection_name"])
        except Exception as e:
            return {"ok": False, "start": r, "status_file_error": repr(e)}
        self.gone = False
        self.waitstatus = None
        return {"ok": True, "pid": self.pid}

    def exited(self) -> bool:
        """Has the daemon process terminated? (reaps it if it is our child; zombie counts as exited)"""
        if self.gone or self.pid is None:
            return True
        try:
            pid, ws = os.waitpid(self.pid, os.WNOHANG)
            if pid == self.pid:
                self.gone = True
                self.waitstatus = ws
                return True
            return False
        except ChildProcessError:
            pass
        try:
            with open(f"/proc/{self.pid}/stat") as f:
                state = f.read().rsplit(")", 1)[1].split()[0]
        except OSError:
            self.gone = True
            return True
        if state in ("Z", "X"):
            self.gone = True
            return True
        return False

    def wait_exit(self, limit: float) -> bool:
        end = time.monotonic() + limit
        while time.monotonic() < end:
            if self.exited():
                return True
            time.sleep(0.02)
        return self.exited()

    def kill(self) -> None:
        if self.pid is None or self.gone:
            return
        try:
            ours = os.readlink(f"/proc/{self.pid}/cwd").startswith(self.root)
        except OSError:
            ours = SUBREAPER
        if ours:
            try:
                os.kill(self.pid, signal.SIGKILL)
            except OSError:
                pass
        self.wait_exit(10)

    def log_text(self) -> str:
        try:
            with open(self.log, errors="replace") as f:
                return f.read()[-6000:]
        except OSError:
            return ""

    def status_file_state(self) -> dict[str, Any]:
        try:
            with open(self.status_file) as f:
                raw = f.read()
        except OSError:
            return {"exists": False}
        try:
            pid = json.loads(raw).get("pid")
        except Exception:
            pid = None
        return {"exists": True, "pid": pid, "raw": raw[:200]}


# ---------------------------------------------------------------------------------------------
# the repository's own client, in-process
_recorded: dict[str, dict[str, Any]] = {}
_rec_installed = False


def _install_recorder() -> None:
    """Recording proxy on the client's `send` (the original is always called, nothing is altered):
    keeps the last request dictionary the real client built per command, so hostile variants are
    derived from what the real client really sends."""
    global _rec_installed
    if _rec_installed:
        return
    _rec_installed = True
    from mypy.dmypy import client

    orig = client.send

    def send(conn: Any, data: Any) -> None:
        if isinstance(data, dict) and isinstance(data.get("command"), str):
            _recorded[data["command"]] = json.loads(json.dumps(data))
        orig(conn, data)

    client.send = send  # type: ignore[assignment]


def client_main(argv: list[str]) -> dict[str, Any]:
    from mypy.dmypy import client

    _install_recorder()
    out, err = io.StringIO(), io.StringIO()
    rc: Any = 0
    try:
        with redirect_stdout(out), redirect_stderr(err):
            client.main(argv)
    except SystemExit as e:
        rc = e.code if isinstance(e.code, int) else (0 if e.code is None else 2)
        if e.code is not None and not isinstance(e.code, int):
            err.write(str(e.code))
    return {"rc": rc, "out": out.getvalue(), "err": err.getvalue()}


def barrier(status_file: str, timeout: int = 0) -> dict[str, Any]:
    """One well-formed `status` request through the repository's client.request with a long timeout."""
    from mypy.dmypy import client
    from mypy.ipc import BadStatus

    _install_recorder()
    try:
        with redirect_stdout(io.StringIO()), redirect_stderr(io.StringIO()):
            r = client.request(status_file, "status", timeout=timeout or BARRIER_TIMEOUT, fswatcher_dump_file=None)
    except BadStatus as e:
        return {"error": f"BadStatus: {e.args[0]}"}
    except Exception as e:  # e.g. UnicodeDecodeError / ValueError escaping request()
        return {"error": f"{type(e).__name__}: {e}"}
    return r


def compare_with_expected(res: dict[str, Any], exp: dict[str, Any], verbose: bool) -> bool:
    """Same exit status and the same diagnostic lines. The ORDER of the per-file groups depends on the
    daemon's edit history even without any fault (fresh daemon vs. incremental update; C03's subject),
    so lines are compared as a multiset."""
    if res["rc"] != exp["rc"] or sorted(res["out"].splitlines()) != sorted(exp["out"].splitlines()):
        return False
    return verbose or res["err"] == exp["err"]


# ---------------------------------------------------------------------------------------------
# framing through the repository's own code
class _Rec:
    def __init__(self) -> None:
        self.data = bytearray()

    def sendall(self, b: bytes) -> None:
        self.data += b


def raw_frame(payload: bytes) -> bytes:
    from mypy.ipc import IPCBase
    b = IPCBase("c16-recorder", None)
    b.connection = _Rec()  # type: ignore[assignment]
    b.write_bytes(payload)
    return bytes(b.connection.data)  # type: ignore[attr-defined]


def request_frame(req: dict[str, Any]) -> bytes:
    """What a raw client puts on the wire: ASCII JSON (lone surrogates as \\udXXX escapes) in the repository's framing.
    (The repository's own `send` is the code under test on the daemon side; a client is free to serialise itself.)"""
    return raw_frame(json.dumps(req).encode("ascii"))


def recorded_request(kind: str) -> dict[str, Any]:
    if kind == "stop":
        r = dict(_recorded["status"])
        r.pop("fswatcher_dump_file", None)
        r["command"] = "stop"
        return r
    if kind == "unknown":
        r = dict(_recorded["status"])
        r["command"] = "frobnicate"
        return r
    return dict(_recorded[kind])


def resolve_cut(at: Any, n: int) -> int:
    from mypy.ipc import HEADER_SIZE
    if isinstance(at, int):
        k = at
    elif at == "h":
        k = HEADER_SIZE
    elif at.startswith("h"):
        k = int(at[1:])
    else:
        k = HEADER_SIZE + 1 + (n - HEADER_SIZE - 2) * int(at[1:]) // 1000
    return max(1, min(n - 1, k))


def read_reply(c: Any) -> dict[str, Any]:
    """Read frames until the final one / EOF / error; returns what the hostile client saw."""
    from mypy.dmypy_util import receive
    got: list[Any] = []
    try:
        while True:
            r = receive(c)
            if r.get("stdout") is not None or r.get("stderr") is not None:
                got.append({"log_frame": True})
                if not r.get("final"):
                    continue
            else:
                got.append({k: (v if not isinstance(v, str) else v[:300]) for k, v in r.items() if k != "stats"})
            if r.get("final"):
                return {"frames": got[-3:], "final": True}
    except Exception as e:
        return {"frames": got[-3:], "final": False, "end": f"{type(e).__name__}: {e}"[:200]}


def inject(d: Daemon, f: dict[str, Any]) -> dict[str, Any]:
    """Perform one hostile behaviour on a fresh connection and close the socket."""
    from mypy.ipc import HEADER_SIZE, IPCClient

    kind = f["kind"]
    seen: dict[str, Any] = {}
    try:
        c = IPCClient(d.conn_name or "", IO_TIMEOUT)
    except Exception as e:
        return {"connect_error": f"{type(e).__name__}: {e}"}
    try:
        if kind == "connect-close":
            data = b""
        elif kind == "cut":
            raw = request_frame(recorded_request(f["req"]))
            k = resolve_cut(f["at"], len(raw))
            seen["cut_at"] = k
            seen["frame_len"] = len(raw)
            data = raw[:k]
        elif kind == "unread-reply":
            data = request_frame(recorded_request(f["req"]))
        elif kind == "raw-frame":
            data = raw_frame(f["payload"].encode("latin-1"))
        elif kind == "request":
            req = F.mutate_request(recorded_request(f["req"]), f["mut"])
            seen["request"] = req
            data = request_frame(req)
        elif kind == "oversize-header":
            if raw_frame(b"ab")[:HEADER_SIZE] != struct.pack("!L", 2) or HEADER_SIZE != 4:
                return {"skipped": "frame header is no longer !L: harness needs updating"}
            claim = f["claim"]
            if isinstance(claim, str):
                body = request_frame(recorded_request("status"))[HEADER_SIZE:]
                data = struct.pack("!L", len(body) + int(claim.split("+")[1])) + body
            else:
                data = struct.pack("!L", claim) + b"x" * int(f.get("body", 7))
        elif kind == "two-frames":
            data = request_frame(recorded_request(f["req"])) + request_frame(recorded_request(f["second"]))
        elif kind == "trailing-bytes":
            data = request_frame(recorded_request(f["req"])) + f["extra"].encode("latin-1")
        else:
            return {"skipped": f"unknown fault kind {kind}"}
        seen["sent"] = len(data)
        try:
            if data:
                c.connection.sendall(data)
        except OSError as e:
            seen["send_error"] = f"{type(e).__name__}: {e}"
        if kind in ("raw-frame", "request", "two-frames", "trailing-bytes") and "send_error" not in seen:
            seen["reply"] = read_reply(c)
    finally:
        try:
            c.close()
        except OSError:
            pass
    return seen


# ---------------------------------------------------------------------------------------------
def write_version(root: str, v: list[int], step: int, prev: list[int] | None) -> None:
    files = F.files_of(v)
    old = F.files_of(prev) if prev is not None else {}
    for rel, text in files.items():
        if old.get(rel) == text:
            continue
        p = os.path.join(root, rel)
        with open(p, "w", encoding="utf-8", newline="") as f:
            f.write(text)
        t = BASE_MTIME + 10 * step
        os.utime(p, (t, t))


def baseline(d: Daemon, exp: dict[str, Any] | None) -> dict[str, Any]:
    """status + check + recheck through the real client right after a start; records the requests."""
    tg = F.targets(d.cache_mode)
    st = client_main(["--status-file", d.status_file, "status"])
    b = barrier(d.status_file)
    ck = client_main(["--status-file", d.status_file, "check", *tg])
    rk = client_main(["--status-file", d.status_file, "recheck"])
    ok = (st["rc"] == 0 and "error" not in b and ck["rc"] in (0, 1) and ck["rc"] == rk["rc"] and ck["out"] == rk["out"]
          and {"status", "check", "recheck"} <= set(_recorded))
    if exp is not None and ok:
        ok = compare_with_expected(ck, exp, d.verbose)
    return {"ok": ok, "status": st, "check": _short(ck), "recheck": _short(rk), "status_keys": sorted(b)}


def _short(r: dict[str, Any]) -> dict[str, Any]:
    return {"rc": r["rc"], "out": r["out"], "err": r["err"][-1500:]}


def probe(d: Daemon, mode: str, exp: dict[str, Any], status_keys: list[str], pid0: int) -> dict[str, Any]:
    p: dict[str, Any] = {}
    attempts = 0
    while True:
        b = barrier(d.status_file, BARRIER_TIMEOUT if attempts == 0 else 15)
        if "error" not in b:
            break
        if "platform" in b or "python_version" in b:
            # the daemon itself answered the well-formed status request with an error reply: it is alive
            p["barrier_reply_error"] = str(b["error"])[:300]
            if "Daemon crashed" in p["barrier_reply_error"]:
                d.wait_exit(10)  # it announced its own death while answering the probe
            break
        p["barrier_error"] = str(b["error"])[:300]
        p.setdefault("barrier_failures", []).append(p["barrier_error"])
        if d.wait_exit(5):
            break
        attempts += 1
        if attempts >= 2:
            # alive, and two well-formed status requests in a row (30 s and 15 s watchdogs) were not served
            p["unresponsive"] = True
            break
    if d.exited():
        p["died"] = True
        p["waitstatus"] = d.waitstatus
        p["log"] = d.log_text()
        sf = d.status_file_state()
        p["status_file"] = sf
        p["status_file_names_dead_pid"] = bool(sf.get("exists") and sf.get("pid") == d.pid)
        p["dmypy_status_after_death"] = _short(client_main(["--status-file", d.status_file, "status"]))
        return p
    if p.get("unresponsive"):
        p["log"] = d.log_text()
        return p
    p.pop("barrier_error", None)
    keys = sorted(b)
    if keys != status_keys and "barrier_reply_error" not in p:
        p["barrier_foreign"] = True
        p["barrier_keys"] = keys
    sf = d.status_file_state()
    if not sf.get("exists") or sf.get("pid") != pid0:
        p["pid_changed"] = True
        p["status_file"] = sf
    p["status_cmd"] = _short(client_main(["--status-file", d.status_file, "status"]))
    argv = ["--status-file", d.status_file, "check", *F.targets(d.cache_mode)] if mode == "check" else \
        ["--status-file", d.status_file, "recheck"]
    ck = _short(client_main(argv))
    ck.update(mode=mode, equal=compare_with_expected(ck, exp, d.verbose), expected_rc=exp["rc"], expected_out=exp["out"])
    p["check_cmd"] = ck
    if d.exited():  # the probe itself found it dead (e.g. a stale frame made the daemon fail on the probe's connection)
        p["died"] = True
        p["died_during_probe"] = True
        p["waitstatus"] = d.waitstatus
        p["log"] = d.log_text()
        sf = d.status_file_state()
        p["status_file"] = sf
        p["status_file_names_dead_pid"] = bool(sf.get("exists") and sf.get("pid") == d.pid)
    return p


def expected(cache_mode: str, version: list[int], base_cache: str | None) -> dict[str, Any]:
    """Fault-free reference: a fresh real daemon checks the version once."""
    root = basic.fresh_dir("exp")
    d = Daemon(root, cache_mode, False, base_cache)
    try:
        write_version(root, version, 0, None)
        s = d.start()
        if not s["ok"]:
            return {"ok": False, "why": "start failed", "detail": s}
        b = baseline(d, None)
        stop = client_main(["--status-file", d.status_file, "stop"])
        exited = d.wait_exit(20)
        return {"ok": b["ok"] and bool(b["check"]["out"]), "rc": b["check"]["rc"], "out": b["check"]["out"], "err": b["check"]["err"],
                "baseline": b if not b["ok"] else None, "stop_rc": stop["rc"], "exited": exited,
                "frame_lengths": {k: len(request_frame(recorded_request(k))) for k in ("status", "check", "recheck")
                                  if k in _recorded}}
    finally:
        d.kill()
        shutil.rmtree(root, ignore_errors=True)


def run_sequence(seq: dict[str, Any], expected_table: dict[str, dict[str, Any]], base_cache: str | None,
                 max_restarts: int, cli_final: bool = True, strip_faults: bool = False,
                 restart_after: list[int] | None = None) -> dict[str, Any]:
    """Drive one fault sequence against a real daemon. Returns the event list; verdicts are drawn
    by the parent (vlib.c16_faults.classify_event)."""
    root = basic.fresh_dir("seq")
    cache_mode, verbose = seq["cache_mode"], bool(seq["verbose"])
    d = Daemon(root, cache_mode, verbose, base_cache)
    events: list[dict[str, Any]] = []
    v = list(seq["start_version"])
    step = 0
    restarts = 0
    last_fault: str | None = None
    faults_survived = 0

    def exp_of(ver: list[int]) -> dict[str, Any]:
        return expected_table[f"{cache_mode}:{F.vid(ver)}"]

    def boot() -> dict[str, Any] | None:
        s = d.start()
        if not s["ok"]:
            return {"op": "start", "failed": True, "detail": s}
        b = baseline(d, exp_of(v))
        if not b["ok"]:
            return {"op": "start", "failed": True, "baseline_mismatch": True, "detail": b, "expected": exp_of(v)}
        boot_info["status_keys"] = b["status_keys"]
        boot_info["pid"] = d.pid
        return None

    boot_info: dict[str, Any] = {}
    try:
        write_version(root, v, step, None)
        bad = boot()
        if bad:
            return {"events": [bad], "aborted": "start", "daemons": d.n_started}
        for i, el in enumerate(seq["elements"]):
            op = el["op"]
            if op == "edit":
                step += 1
                write_version(root, el["version"], step, v)
                v = list(el["version"])
                events.append({"i": i, "op": "edit", "version": v})
                continue
            if op == "check":
                argv = ["--status-file", d.status_file, "check", *F.targets(cache_mode)] if el["mode"] == "check" else \
                    ["--status-file", d.status_file, "recheck"]
                ck = _short(client_main(argv))
                e = exp_of(v)
                ck.update(mode=el["mode"], equal=compare_with_expected(ck, e, verbose), expected_rc=e["rc"], expected_out=e["out"])
                events.append({"i": i, "op": "check", "version": list(v), "check_cmd": ck, "last_fault": last_fault,
                               "faults_survived": faults_survived})
                if d.exited():
                    events[-1]["died"] = True
                    events[-1]["log"] = d.log_text()
                    break
                continue
            # fault
            f = el["fault"]
            if strip_faults:
                ck = _short(client_main(["--status-file", d.status_file, "check", *F.targets(cache_mode)]
                                        if el["probe_mode"] == "check" else ["--status-file", d.status_file, "recheck"]))
                e = exp_of(v)
                ck.update(mode=el["probe_mode"], equal=compare_with_expected(ck, e, verbose))
                events.append({"i": i, "op": "twin-probe", "version": list(v), "check_cmd": ck})
                if restart_after and i in restart_after and i != len(seq["elements"]) - 1:
                    # the twin re-starts its daemon where the faulted run had to, so both see the same history
                    client_main(["--status-file", d.status_file, "stop"])
                    d.wait_exit(20)
                    d.kill()
                    bad = boot()
                    if bad:
                        events.append(bad)
                        break
                continue
            hostile = inject(d, f)
            ev: dict[str, Any] = {"i": i, "op": "fault", "fault": f, "hostile": hostile, "version": list(v),
                                  "cache_mode": cache_mode, "verbose": verbose, "daemon_no": d.n_started,
                                  "faults_survived_before": faults_survived}
            if hostile.get("skipped") or hostile.get("connect_error"):
                ev["not_injected"] = True
                events.append(ev)
                if hostile.get("connect_error"):
                    break
                continue
            ev["probe"] = probe(d, el["probe_mode"], exp_of(v), boot_info["status_keys"], boot_info["pid"])
            events.append(ev)
            last_fault = F.fault_label(f)
            if ev["probe"].get("died") or ev["probe"].get("unresponsive"):
                d.kill()
                if restarts >= max_restarts or i == len(seq["elements"]) - 1:
                    ev["sequence_cut"] = True
                    break
                restarts += 1
                bad = boot()
                if bad:
                    events.append(bad)
                    break
                faults_survived = 0
            else:
                faults_survived += 1
        if strip_faults and not d.exited():
            ck = _short(client_main(["--status-file", d.status_file, "check", *F.targets(cache_mode)]))
            ck.update(mode="check", equal=compare_with_expected(ck, exp_of(v), verbose))
            events.append({"i": len(seq["elements"]), "op": "twin-final", "version": list(v), "check_cmd": ck})
        if cli_final and not d.exited() and not strip_faults:
            # the same probes once more through fresh client processes (process boundary included)
            st = common.run_cli(["--status-file", d.status_file, "status"], cwd=root, env=d.env, timeout=120, module="mypy.dmypy")
            ck = common.run_cli(["--status-file", d.status_file, "check", *F.targets(cache_mode)], cwd=root, env=d.env,
                                timeout=180, module="mypy.dmypy")
            e = exp_of(v)
            res = {"rc": ck["status"], "out": ck["out"], "err": ck["err"][-1500:]}
            events.append({"op": "cli-final", "version": list(v), "status_rc": st["status"], "status_out": (st["out"] + st["err"])[:300],
                           "check_cmd": {**res, "mode": "check", "equal": ck["status"] is not None and compare_with_expected(res, e, verbose),
                                         "expected_rc": e["rc"], "expected_out": e["out"]},
                           "last_fault": last_fault, "faults_survived": faults_survived,
                           "watchdog": st["status"] is None or ck["status"] is None})
        return {"events": events, "daemons": d.n_started, "restarts": restarts, "subreaper": SUBREAPER}
    finally:
        d.kill()
        shutil.rmtree(root, ignore_errors=True)


# ---------------------------------------------------------------------------------------------
# part (c): stop paths
def stop_path(how: str, after_check: bool, cache_mode: str, base_cache: str | None) -> dict[str, Any]:
    """Start a daemon, end it in the given way, wait until the PROCESS has exited, then look at the
    status file. Returns observations only."""
    root = basic.fresh_dir("stop")
    extra = ["--timeout", "1"] if how == "idle-timeout" else []
    d = Daemon(root, cache_mode, False, base_cache, extra_start=extra)
    out: dict[str, Any] = {"how": how, "after_check": after_check, "cache_mode": cache_mode}
    try:
        write_version(root, [1, 1, 0], 0, None)
        s = d.start()
        if not s["ok"]:
            return {**out, "inconclusive": "start failed", "detail": s}
        if how != "idle-timeout":
            st = client_main(["--status-file", d.status_file, "status"])
            if st["rc"] != 0:
                return {**out, "inconclusive": "status after start failed", "detail": st}
            if after_check or how == "crash-in-command":
                ck = client_main(["--status-file", d.status_file, "check", *F.targets(cache_mode)])
                out["check_rc"] = ck["rc"]
        pid = d.pid
        assert pid is not None
        if how == "stop-cli":
            r = common.run_cli(["--status-file", d.status_file, "stop"], cwd=root, env=d.env, timeout=120, module="mypy.dmypy")
            out["action"] = {"rc": r["status"], "out": (r["out"] + r["err"])[:300]}
        elif how == "stop-inproc":
            out["action"] = _short(client_main(["--status-file", d.status_file, "stop"]))
        elif how == "stop-unread":
            out["action"] = inject(d, {"kind": "unread-reply", "req": "stop"})
        elif how == "kill-cli":
            r = common.run_cli(["--status-file", d.status_file, "kill"], cwd=root, env=d.env, timeout=120, module="mypy.dmypy")
            out["action"] = {"rc": r["status"], "out": (r["out"] + r["err"])[:300]}
        elif how in ("SIGTERM", "SIGINT", "SIGHUP", "SIGKILL"):
            os.kill(pid, getattr(signal, how))
            out["action"] = {"signal": how}
        elif how == "idle-timeout":
            out["action"] = {"timeout_s": 1}
        elif how == "crash-in-command":
            out["action"] = inject(d, {"kind": "request", "sub": "wrong-type", "req": "check", "mut": {"set": {"files": 5}}})
        elif how == "malformed-stop":
            out["action"] = inject(d, {"kind": "request", "sub": "malformed-stop", "req": "stop", "mut": {"set": {"bogus": 1}}})
        else:
            return {**out, "inconclusive": f"unknown stop path {how}"}
        if how in ("crash-in-command", "malformed-stop") and not d.wait_exit(3) and "error" not in barrier(d.status_file):
            out["exited"] = False  # the daemon answered the malformed request and keeps serving: nothing to judge
        else:
            out["exited"] = d.wait_exit(60)
        out["waitstatus"] = d.waitstatus
        out["how_exited"] = F.how_exited(d.waitstatus)
        sf = d.status_file_state()
        out["status_file"] = sf
        out["names_dead_pid"] = bool(out["exited"] and sf.get("exists") and sf.get("pid") == pid)
        out["log"] = d.log_text()[-2500:]
        if out["exited"]:
            out["dmypy_status_after"] = _short(client_main(["--status-file", d.status_file, "status"]))
        out["subreaper"] = SUBREAPER
        return out
    finally:
        d.kill()
        shutil.rmtree(root, ignore_errors=True)
