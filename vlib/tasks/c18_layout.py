"""C18 pool task: materialise one directory layout and observe real mypy runs over it in every
invocation style (directory, the files the directory expands to in several orders, -p PKG, -m MOD).

Observation points: a recording wrapper around the real `mypy.build.load_graph` (sources handed in,
the live graph handed back: module id -> path for every State, dependency edges, search paths) and the
rendered diagnostics / exit status of `mypy.main.main`. The task only observes; checks/c18.py decides."""

from __future__ import annotations

import gc
import os
import re
import shutil
from typing import Any

from vlib import c18_gen, common, inproc
from vlib.tasks import basic

_events: list[dict[str, Any]] = []
_GC_DEFAULT = gc.get_threshold()
_case_root = ""
_installed = False


def _under(p: str | None) -> bool:
    return bool(p) and os.path.abspath(p).startswith(_case_root + os.sep)  # type: ignore[arg-type]


def _rel(p: str | None) -> str | None:
    if not p:
        return p
    a = os.path.abspath(p)
    if a == _case_root:
        return "."
    if a.startswith(_case_root + os.sep):
        return a[len(_case_root) + 1:]
    return a


def _install() -> None:
    """Recording wrapper on the real load_graph (original always called; result returned unchanged)."""
    global _installed
    if _installed:
        return
    _installed = True
    import mypy.build as B

    orig = B.load_graph

    def load_graph(sources: Any, manager: Any, old_graph: Any = None, new_modules: Any = None) -> Any:
        ev: dict[str, Any] = {"sources": [{"path": _rel(s.path) if s.path else None, "given": s.path, "module": s.module,
                                           "base_dir": _rel(s.base_dir) if s.base_dir else None,
                                           "isdir": bool(s.path and os.path.isdir(s.path))} for s in sources]}
        try:
            graph = orig(sources, manager, old_graph, new_modules)
        except BaseException as e:
            ev["exc"] = type(e).__name__
            _events.append(ev)
            raise
        owners: dict[str, list[str]] = {}
        user: dict[str, Any] = {}
        edges: dict[str, Any] = {}
        key_mismatch = []
        for mid, st in graph.items():
            if st.id != mid:
                key_mismatch.append([mid, st.id])
            if st.path:
                ap = st.abspath
                owners.setdefault(ap, []).append(mid)
                if _under(ap):
                    user[mid] = {"path": _rel(ap), "isdir": os.path.isdir(ap)}
                    edges[mid] = {"deps": sorted(d for d in st.dependencies if d in graph and _under(graph[d].path)),
                                  "suppressed": sorted(st.suppressed)}
        ev["graph"] = user
        ev["edges"] = edges
        ev["n_states"] = len(graph)
        ev["multi_owner"] = {(_rel(p) or p): ids for p, ids in owners.items() if len(ids) > 1}
        ev["key_mismatch"] = key_mismatch
        sp = manager.search_paths
        ev["python_path"] = [_rel(p) for p in sp.python_path]
        ev["mypy_path"] = [_rel(p) for p in sp.mypy_path]
        _events.append(ev)
        return graph

    load_graph._c18 = True  # type: ignore[attr-defined]
    B.load_graph = load_graph  # type: ignore[assignment]


LOC = re.compile(r"^(?P<file>[^:\n]+?)(?::(?P<line>\d+))?(?::\d+)*: (?P<sev>error|note|warning): (?P<msg>.*)$")
_once_notes: set[str] | None = None


def once_notes() -> set[str]:
    """Texts of the once-per-run hint notes, read from the live code (module_not_found emits every note of
    ModuleNotFoundReason.error_message_templates with only_once=True)."""
    global _once_notes
    if _once_notes is None:
        from mypy.modulefinder import ModuleNotFoundReason
        _once_notes = set()
        for reason in ModuleNotFoundReason:
            for daemon in (False, True):
                for n in reason.error_message_templates(daemon)[1]:
                    if "{" not in n:
                        _once_notes.add(n.strip())
    return _once_notes


def _norm_diags(text: str, cwd: str) -> tuple[list[str], int]:
    """Diagnostics with the file part made relative to the case directory (the same file is rendered
    differently from different working directories / for absolute search roots)."""
    out = []
    dropped = 0
    for ln in text.splitlines():
        if not ln.strip():
            continue
        m = LOC.match(ln)
        if not m:
            out.append(ln.replace(_case_root + os.sep, ""))
            continue
        if m.group("sev") == "note" and m.group("msg").strip() in once_notes():
            dropped += 1
            continue
        f = m.group("file")
        af = os.path.normpath(os.path.join(cwd, f))
        rel = _rel(af)
        line = f":{m.group('line')}" if m.group("line") else ""
        out.append(f"{rel}{line}: {m.group('sev')}: {m.group('msg').replace(_case_root + os.sep, '')}")
    return out, dropped


def classify_outcome(status: Any, text: str) -> str:
    if "Duplicate module named" in text:
        return "duplicate-module"
    if "Source file found twice under different module names" in text:
        return "found-twice"
    if "is not a valid Python package name" in text:
        return "invalid-package-name"
    if "There are no .py[i] files in directory" in text:
        return "no-files-in-dir"
    if "Can't find package" in text:
        return "cant-find-package"
    if "Cannot find module" in text and status == 2:
        return "cant-find-module"
    if "cannot be type checked due to missing py.typed" in text:
        return "package-without-py.typed"
    if status in (0, 1):
        return "ok"
    if status == 2:
        m = re.search(r"(error|mypy): (.*)", text)
        return "other-stop:" + re.sub(r'"[^"]*"|\'[^\']*\'|\d+', "_", (m.group(2) if m else text.strip()[:60]))[:70]
    return f"status:{status}"


def _discoverable(top: str) -> list[str]:
    """Python files below `top`, skipping what recursive discovery skips by documented rule."""
    res: list[str] = []
    for dp, dns, fns in os.walk(top):
        dns[:] = sorted(d for d in dns if d not in ("__pycache__", "site-packages", "node_modules") and not d.startswith("."))
        for fn in sorted(fns):
            if fn.endswith((".py", ".pyi")) and not fn.startswith("."):
                res.append(os.path.join(dp, fn))
    return res


def _run(style: str, args: list[str], cwd: str, env: dict[str, str], flags: list[str], cache_base: str,
         case_dir: str) -> dict[str, Any]:
    cache = os.path.join(case_dir, ".cache-run")
    shutil.rmtree(cache, ignore_errors=True)
    shutil.copytree(cache_base, cache)  # no user module has a cache record: every run analyses from source
    del _events[:]
    full = ["--no-error-summary", "--hide-error-context", "--cache-dir", cache, *flags, *args]
    # MYPYPATH must be absent (not merely empty) when not chosen
    saved = os.environ.pop("MYPYPATH", None)
    try:
        r = inproc.run_mypy(full, cwd=cwd, env=env)
    finally:
        if saved is not None:
            os.environ["MYPYPATH"] = saved
        # mypy.build raises the gc thresholds to (200000, 30, 30) for the process: in a long-lived worker whole
        # build graphs (~15 MB each) would pile up as uncollected cycles. Collect after every run.
        gc.set_threshold(*_GC_DEFAULT)
        try:
            # class-level lru_cache on a method: keeps up to 128 SourceFinder + FileSystemCache objects of earlier
            # runs alive (~8 MB each). A fresh process starts with it empty; so does every run here.
            from mypy.find_sources import SourceFinder
            SourceFinder._crawl_up_helper.cache_clear()
        except Exception:
            pass
        gc.collect()
    text = (r.get("out") or "") + (r.get("err") or "")
    diags, dropped = _norm_diags(text, cwd)
    ev = _events[-1] if _events else None
    res: dict[str, Any] = {"style": style, "args": [*flags, *args], "cwd": _rel(cwd), "env": env, "status": r.get("status"),
                           "outcome": classify_outcome(r.get("status"), text), "diags": diags, "once_notes_dropped": dropped,
                           "n_load_graph": len(_events), "lg": ev}
    if r.get("crash"):
        res["crash"] = r["crash"]["key"]
        res["outcome"] = "crash"
    if r.get("internal"):
        res["internal"] = r["internal"][0].get("exc")
        res["outcome"] = "crash"
    return res


def run_case(layout: list[str], ns: str, cwd_kind: str, mp_kind: str, mp_via: str, import_mode: str,
             order_seed: str, inside_target: str = ".", cli: bool = False, n_orders: int = 2,
             keep: bool = False) -> dict[str, Any]:
    """One layout under one configuration; returns every run's observations.

    ns: off | on | epb.  cwd_kind: parent | root | inside.  mp_kind: none | root | sub | rootrel | shadow.
    mp_via: env (MYPYPATH) | config (mypy_path in a config file).  import_mode: assigned | candidates."""
    global _case_root
    import random

    _install()
    case_dir = basic.fresh_dir("c-")  # name is not an identifier: no crawl can climb above it
    _case_root = os.path.abspath(case_dir)
    lay = tuple(layout)
    root = os.path.join(case_dir, c18_gen.ROOT)
    out: dict[str, Any] = {"runs": [], "layout": list(lay)}
    try:
        mtime = 1_600_000_000
        plain = c18_gen.contents(lay, "plain")
        os.makedirs(root, exist_ok=True)
        common.write_files(root, plain, mtime=mtime)
        tops = sorted({p.split("/")[0] for p in lay if "/" in p})
        # working directory
        if cwd_kind == "inside" and tops:
            cwd = os.path.join(root, tops[0])
            target = inside_target
        elif cwd_kind == "root" or (cwd_kind == "inside" and not tops):
            cwd_kind = "root"
            cwd = root
            target = "."
        else:
            cwd = case_dir
            target = c18_gen.ROOT
        # extra search roots
        mp_dir: str | None = None
        if mp_kind in ("root", "rootrel"):
            mp_dir = root
        elif mp_kind == "sub" and tops:
            mp_dir = os.path.join(root, tops[-1])
        mp_val = None
        if mp_dir:
            mp_val = os.path.relpath(mp_dir, cwd) if mp_kind == "rootrel" else mp_dir
        if mp_kind == "shadow":
            # a second search root, FIRST on the path, that holds only partial __init__ chains for directories of the
            # layout: `shadow/X/Y/__init__.py` (and no shadow/X/__init__.py).  No python module of the layout lives there.
            # Only directories X/Y whose parent X is a regular package in the real root: there the documented rule
            # ("the candidate whose chain has the highest __init__ wins") makes the real root's X/Y the winner, so the
            # shadow root must never matter.
            has_init = {os.path.dirname(p) for p in lay if os.path.basename(p) in ("__init__.py", "__init__.pyi")}
            dirs = sorted({os.path.dirname(p) for p in lay if p.count("/") == 2 and os.path.dirname(os.path.dirname(p)) in has_init})
            shadow = os.path.join(case_dir, "shadowroot")
            made = False
            for dd in dirs:
                if dd not in has_init:
                    os.makedirs(os.path.join(shadow, dd), exist_ok=True)
                    with open(os.path.join(shadow, dd, "__init__.py"), "w") as f:
                        f.write("")
                    made = True
            mp_dir = root
            if made:
                mp_val = shadow + os.pathsep + root
                out["shadow_root"] = True
            else:
                mp_val = root
        flags = {"off": ["--no-namespace-packages"], "on": ["--namespace-packages"],
                 "epb": ["--namespace-packages", "--explicit-package-bases"]}[ns]
        env: dict[str, str] = {}
        if mp_val and mp_via == "env":
            env["MYPYPATH"] = mp_val
        cfg = os.path.join(case_dir, "c18.ini")
        with open(cfg, "w") as f:
            f.write("[mypy]\n" + (f"mypy_path = {mp_val}\n" if mp_val and mp_via == "config" else ""))
        flags = ["--config-file", cfg, *flags]
        out.update(cwd_kind=cwd_kind, cwd=_rel(cwd), target=target, mypypath=_rel(mp_dir) if mp_dir else None,
                   mp_val=(mp_val.replace(_case_root + os.sep, "") if mp_val else None), mp_via=mp_via if mp_val else None,
                   ns=ns, import_mode=import_mode)
        cache_base = inproc.base_cache(basic._ROOT, [])

        def go(style: str, args: list[str]) -> dict[str, Any]:
            r = _run(style, args, cwd, env, flags, cache_base, case_dir)
            out["runs"].append(r)
            return r

        # run 0: plain files, the directory -> the names mypy itself assigns
        r0 = go("dir-plain", [target])
        srcs = (r0["lg"] or {}).get("sources") or []
        assigned: dict[str, str] = {}
        for s in srcs:
            if s["path"] and not s["isdir"] and s["path"].startswith(c18_gen.ROOT + "/"):
                assigned[s["path"][len(c18_gen.ROOT) + 1:]] = s["module"]
        out["assigned"] = assigned
        texts = c18_gen.contents(lay, import_mode, assigned)
        common.write_files(root, texts, mtime=mtime + 100)
        out["texts"] = texts
        r1 = go("dir", [target])
        given = [s["given"] for s in srcs if s["given"] and not s["isdir"]]
        if given:
            rng = random.Random(order_seed)
            orders = []
            if len(given) > 1:
                orders.append(list(reversed(given)))
                for _ in range(max(0, n_orders - 1)):
                    o = list(given)
                    rng.shuffle(o)
                    if o not in orders and o != given:
                        orders.append(o)
            else:
                orders.append(list(given))
            for k, o in enumerate(orders):
                go(f"files#{k}", o)
        # every python file below the target listed individually (skipping what recursive discovery skips by
        # documented rule: __pycache__, site-packages, node_modules, dot directories)
        tdir = os.path.normpath(os.path.join(cwd, target))
        allf = [os.path.relpath(f, cwd) for f in _discoverable(tdir)]
        out["all_files"] = allf
        if allf and sorted(os.path.normpath(x) for x in allf) != sorted(os.path.normpath(x) for x in given):
            go("allfiles", allf)
        elif allf:
            out["allfiles_same_as_expansion"] = True
        # -p PKG for packages directly below a search base
        pk: list[tuple[str, str, Any]] = []  # (package name, directory path as given on the command line)
        bases = [cwd] + ([mp_dir] if mp_dir else [])
        seen_p: set[str] = set()
        for b in bases:
            try:
                names = sorted(os.listdir(b))
            except OSError:
                continue
            for nm in names:
                d = os.path.join(b, nm)
                if not os.path.isdir(d) or nm in seen_p or not nm.isidentifier():
                    continue
                if not (os.path.abspath(d) == os.path.abspath(root) or _under(d) and os.path.abspath(d).startswith(os.path.abspath(root) + os.sep)):
                    continue
                if not _discoverable(d):
                    continue
                seen_p.add(nm)
                pk.append((nm, os.path.relpath(d, cwd), _rel(b)))
        out["packages"] = []
        for nm, dpath, b in pk[:2]:
            rp = go(f"-p:{nm}", ["-p", nm])
            rd = go(f"dirof:{nm}", [dpath])
            out["packages"].append({"name": nm, "dir": dpath, "base": b, "p_run": len(out["runs"]) - 2, "dir_run": len(out["runs"]) - 1})
        # -m MOD for one file whose crawled base directory is a search base of -m
        out["modules"] = []
        base_set = {os.path.abspath(b) for b in bases}
        if r0["outcome"] == "ok":
            rng2 = random.Random(order_seed + "m")
            cands = [s for s in srcs if s["given"] and not s["isdir"] and s["base_dir"] is not None
                     and os.path.normpath(os.path.join(_case_root, s["base_dir"])) in base_set and c18_gen.valid_modname(s["module"])
                     and s["module"] != "__main__"]
            rng2.shuffle(cands)
            for s in cands[:2]:
                go(f"-m:{s['module']}", ["-m", s["module"]])
                go(f"fileof:{s['module']}", [s["given"]])
                out["modules"].append({"module": s["module"], "file": s["path"], "m_run": len(out["runs"]) - 2,
                                       "file_run": len(out["runs"]) - 1})
        if cli:
            cache = os.path.join(case_dir, ".cache-cli")
            shutil.copytree(cache_base, cache)
            e2 = common.base_env(**env)
            rc = common.run_cli(["--no-error-summary", "--hide-error-context", "--cache-dir", cache, *flags, target], cwd=cwd, env=e2,
                                timeout=170)
            text = (rc.get("out") or "") + (rc.get("err") or "")
            d, _ = _norm_diags(text, cwd)
            out["cli"] = {"status": rc["status"], "diags": d, "outcome": classify_outcome(rc["status"], text) if rc["status"] is not None else "timeout"}
        return out
    finally:
        if not keep:
            shutil.rmtree(case_dir, ignore_errors=True)
