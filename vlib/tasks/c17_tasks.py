"""C17 pool tasks. Everything that decides is observed on the real code:

* `table()` reads the live option tables (argparse actions of `mypy.main.define_options`, `Options()` defaults,
  `config_parser.ini_config_types/toml_config_types`, `PER_MODULE_OPTIONS`) and the documented `confval`s.
* `equiv_group()` executes the real `mypy.main.main` (or just `process_options`) once per configuration source;
  recording wrappers (originals always called, results never altered) on `mypy.main.process_options`,
  `mypy.build.State.apply_inline_configuration` and `Options.clone_for_module` capture `Options.snapshot()`.
* `prec_chunk()` / `e2e_chunk()` put a contract on the real `Options.clone_for_module`: its result is compared
  with the transcription of the documented precedence in `vlib.c17_model`.
"""

from __future__ import annotations

import io
import json
import os
import re
import shutil
import sys
from typing import Any

from vlib import c17_model as model
from vlib import common, inproc
from vlib.tasks import basic

_obs: dict[str, Any] = {}
_watch: set[str] = set()
_hooked = False
_contract: dict[str, Any] | None = None
_depth = 0


# ------------------------------------------------------------------------------------------ snapshots
def _norm(v: Any) -> Any:
    if isinstance(v, (bool, int, float, str)) or v is None:
        return v
    if isinstance(v, (set, frozenset)):
        return sorted((_norm(x) for x in v), key=repr)
    if isinstance(v, (list, tuple)):
        return [_norm(x) for x in v]
    if isinstance(v, dict):
        return {str(k): _norm(x) for k, x in v.items()}
    code = getattr(v, "code", None)
    if isinstance(code, str):
        return code
    pat = getattr(v, "pattern", None)
    if isinstance(pat, str):
        return "re:" + pat
    return "<" + type(v).__name__ + ">"


def _snap(options: Any) -> dict[str, Any]:
    return {k: _norm(v) for k, v in options.snapshot().items()}


def _subst(v: Any, reps: list[tuple[str, str]]) -> Any:
    if isinstance(v, str):
        for a, b in reps:
            v = v.replace(a, b)
        return v
    if isinstance(v, list):
        return [_subst(x, reps) for x in v]
    if isinstance(v, dict):
        return {k: _subst(x, reps) for k, x in v.items()}
    return v


# ------------------------------------------------------------------------------------------ hooks
def install_hooks() -> None:
    global _hooked
    if _hooked:
        return
    _hooked = True
    import mypy.build as B
    import mypy.main as M
    from mypy.options import Options

    orig_po = M.process_options

    def process_options(*a: Any, **kw: Any) -> Any:
        r = orig_po(*a, **kw)
        try:
            _obs["global"] = _snap(r[1])
            _obs["targets"] = sorted([str(s.path), str(s.module)] for s in r[0])
            _obs["root"] = r[1]
        except Exception as e:  # a hook failure is inconclusive, never a verdict
            _obs["hook_error"] = repr(e)
        return r

    M.process_options = process_options  # type: ignore[assignment]

    orig_ai = B.State.apply_inline_configuration

    def apply_inline_configuration(self: Any, flags: Any) -> Any:
        r = orig_ai(self, flags)
        try:
            if self.id in _watch:
                _obs.setdefault("mods", {})[self.id] = _snap(self.options)
        except Exception as e:
            _obs["hook_error"] = repr(e)
        return r

    B.State.apply_inline_configuration = apply_inline_configuration  # type: ignore[method-assign]

    orig_clone = Options.clone_for_module

    def clone_for_module(self: Any, module: str) -> Any:
        global _depth
        _depth += 1
        try:
            r = orig_clone(self, module)
        finally:
            _depth -= 1
        c = _contract
        if (c is not None and _depth == 0 and "*" not in module and (c.get("root") is None or c["root"] is self)
                and (c.get("names") is None or module in c["names"])):
            try:
                _check_contract(c, module, r)
            except Exception as e:
                c.setdefault("errors", []).append(repr(e))
        return r

    Options.clone_for_module = clone_for_module  # type: ignore[method-assign]


# ------------------------------------------------------------------------------------------ option table
def table() -> dict[str, Any]:
    """The option table, from the live code (and the documented confvals of docs/source/config_file.rst)."""
    import mypy.main as M
    from mypy import config_parser as CP
    from mypy import defaults
    from mypy.options import OPTIONS_AFFECTING_CACHE, PER_MODULE_OPTIONS, Options

    out = io.StringIO()
    parser, _names, strict_assign = M.define_options("mypy", M.HEADER, out, out, False)
    defaults_snap = {k: _norm(v) for k, v in vars(Options()).items() if not k.startswith("_")}
    template = Options()
    entries: dict[str, dict[str, Any]] = {}
    skipped: dict[str, str] = {}
    for a in parser._actions:
        cls = type(a).__name__
        raw = a.dest
        special = raw.startswith("special-opts:")
        name = raw.split(":", 1)[-1]
        if not a.option_strings:
            skipped[name] = "positional"
            continue
        if cls in ("_HelpAction", "CapturableVersionAction", "_VersionAction"):
            continue
        e = entries.setdefault(name, {"dest": name, "special": special, "cli_true": [], "cli_false": [], "cli_flag": []})
        if cls == "_StoreTrueAction":
            e["kind"] = "bool"
            e["cli_true"] += list(a.option_strings)
        elif cls == "_StoreFalseAction":
            e["kind"] = "bool"
            e["cli_false"] += list(a.option_strings)
        elif cls == "_CountAction":
            e["kind"] = "count"
            e["cli_flag"] += list(a.option_strings)
        elif cls == "_StoreAction" and a.nargs is None:
            tname = getattr(a.type, "__name__", None)
            if a.choices is not None:
                e["kind"] = "choice"
                e["choices"] = [str(c) for c in a.choices]
            elif tname == "int":
                e["kind"] = "int"
            elif tname == "parse_version":
                e["kind"] = "version"
            else:
                e["kind"] = "str"
            e["cli_flag"] += list(a.option_strings)
        elif cls == "_AppendAction" and a.nargs is None:
            e["kind"] = "list"
            e["cli_flag"] += list(a.option_strings)
        else:
            entries.pop(name, None)
            skipped[name] = f"{cls}/nargs={a.nargs}"
    # documented config keys
    doc: dict[str, dict[str, Any]] = {}
    try:
        with open(os.path.join(common.REPO, "docs", "source", "config_file.rst"), encoding="utf8") as f:
            text = f.read()
        blocks = re.split(r"^\.\. confval:: ", text, flags=re.M)[1:]
        for b in blocks:
            head, _, body = b.partition("\n")
            m = re.search(r":type: (.+)", body)
            for nm in head.split("/"):
                doc[nm.strip()] = {"type": m.group(1).strip() if m else None}
    except OSError:
        pass
    # config-only keys (documented, or typed by the config tables) join the table
    ini_keys = sorted(CP.ini_config_types)
    toml_keys = sorted(CP.toml_config_types)
    for key in sorted(set(doc) | set(ini_keys)):
        if key in entries or key.endswith("_report") or key in ("strict", "no_site_packages", "allow_redefinition_new"):
            continue
        dv = getattr(template, key, None)
        kind = {"bool": "bool", "int": "int", "str": "str", "list": "list"}.get(type(dv).__name__)
        if kind is None:
            t = (doc.get(key) or {}).get("type") or ""
            kind = "list" if "list" in t else "bool" if "bool" in t else "int" if "integer" in t else "str"
        entries[key] = {"dest": key, "special": False, "cli_true": [], "cli_false": [], "cli_flag": [], "kind": kind}
    for name, e in entries.items():
        e["default"] = defaults_snap.get(name)
        e["has_attr"] = name in defaults_snap
        e["config_typed"] = name in CP.ini_config_types or getattr(template, name, None) is not None
        e["toml_typed"] = name in CP.toml_config_types or getattr(template, name, None) is not None
        e["documented"] = name in doc
        e["per_module"] = name in PER_MODULE_OPTIONS
        e["affects_cache"] = name in OPTIONS_AFFECTING_CACHE
    internal = sorted(k for k in defaults_snap if k not in entries and getattr(template, k, None) is not None)
    return {
        "entries": entries,
        "skipped_actions": skipped,
        "strict": [[d, v] for d, v in strict_assign],
        "defaults": defaults_snap,
        "per_module": sorted(PER_MODULE_OPTIONS),
        "documented": doc,
        "ini_keys": ini_keys,
        "toml_keys": toml_keys,
        "reporters": list(defaults.REPORTER_NAMES),
        "config_accepts_undocumented_internal": internal,
        "config_names": list(defaults.CONFIG_NAMES) + list(defaults.SHARED_CONFIG_NAMES),
        "repo": os.path.dirname(os.path.dirname(os.path.abspath(M.__file__))),
    }


# ------------------------------------------------------------------------------------------ one execution
def _execute(d: str, run: dict[str, Any], files: dict[str, str], build: bool, cache: str | None, n: int) -> dict[str, Any]:
    """Write the case, execute the real front end once, return what the hooks saw."""
    global _watch
    install_hooks()
    fs = dict(files)
    for mod_path, first in (run.get("line1") or {}).items():
        body = fs[mod_path].split("\n", 1)[1] if "\n" in fs[mod_path] else ""
        fs[mod_path] = first + "\n" + body
    for p in list(fs):
        if p.endswith(".py"):
            fs[p] = fs[p].rstrip("\n") + f"\n# run {os.getpid()}-{n}\n"
    fs.update(run.get("config") or {})
    common.write_files(d, fs, mtime=1_500_000_000 + 10 * n)
    _obs.clear()
    _watch = set(run.get("watch") or [])
    argv = list(run.get("argv") or []) + list(run.get("targets") or [])
    env = {"MYPY_CACHE_DIR": cache} if cache else {}
    if build:
        r = inproc.run_mypy(argv, cwd=d, env=env)
    else:
        r = _only_process_options(argv, d, env)
        root = _obs.get("root")
        if root is not None and not run.get("line1"):
            # no build: per-module options straight from the real clone_for_module
            try:
                for m in sorted(_watch):
                    _obs.setdefault("mods", {})[m] = _snap(root.clone_for_module(m))
            except Exception as e:
                _obs["hook_error"] = repr(e)
    reps = [(os.path.realpath(d), "<D>"), (d, "<D>")]
    if cache:
        reps.insert(0, (cache, "<C>"))
    res: dict[str, Any] = {"id": run["id"], "built": bool(build), "status": r.get("status"), "out": _subst(r.get("out") or "", reps),
                           "err": _subst(r.get("err") or "", reps)[-3000:]}
    if r.get("crash"):
        res["crash"] = r["crash"]["key"]
    if "hook_error" in _obs:
        res["hook_error"] = _obs["hook_error"]
    res["global"] = _subst(_obs.get("global"), reps)
    res["targets"] = _subst(_obs.get("targets"), reps)
    res["mods"] = _subst(_obs.get("mods") or {}, reps)
    res["_root"] = _obs.get("root")
    return res


def _only_process_options(argv: list[str], d: str, env: dict[str, str]) -> dict[str, Any]:
    import mypy.main as M
    from mypy.fscache import FileSystemCache

    out, err = io.StringIO(), io.StringIO()
    old = os.getcwd()
    old_env = {k: os.environ.get(k) for k in env}
    os.environ.update(env)
    so, se = sys.stdout, sys.stderr
    status: int | None = 0
    crash = None
    try:
        os.chdir(d)
        sys.stdout, sys.stderr = out, err
        try:
            M.process_options(argv, stdout=out, stderr=err, fscache=FileSystemCache())
        except SystemExit as e:
            status = e.code if isinstance(e.code, int) else 2
        except BaseException as e:
            import traceback
            status = None
            tb = traceback.format_exc()[-4000:]
            crash = {"key": inproc.classify_exc(tb), "tb": tb, "exc": type(e).__name__}
    finally:
        sys.stdout, sys.stderr = so, se
        os.chdir(old)
        for k, v in old_env.items():
            if v is None:
                os.environ.pop(k, None)
            else:
                os.environ[k] = v
    r: dict[str, Any] = {"out": out.getvalue(), "err": err.getvalue(), "status": status}
    if crash:
        r["crash"] = crash
    return r


def _diff(snap: dict[str, Any] | None, base: dict[str, Any] | None) -> Any:
    if snap is None or base is None:
        return snap
    d = {k: v for k, v in snap.items() if k not in base or base[k] != v}
    for k in base:
        if k not in snap:
            d[k] = "<missing>"
    return d


def _cache_for(root_dir: str, eff_flags: list[str], made: dict[str, str], tag: str = "") -> str:
    """One cache directory per distinct effective global option set of a group; a non-default one starts empty, so the first build that uses
    it is cold and the later ones only re-check the (always modified) user modules."""
    key = common.fingerprint(sorted(eff_flags), tag)
    if key not in made:
        made[key] = os.path.join(root_dir, "cache-" + key)
        if not eff_flags and not tag:
            # default options: copy of the typeshed-only base cache built once per pool
            shutil.copytree(inproc.base_cache(basic._ROOT, []), made[key])
        else:
            os.makedirs(made[key], exist_ok=True)
    return made[key]


def _seeded_cache(root_dir: str, eff_flags: list[str], made: dict[str, str]) -> str:
    """Private copy of a typeshed-only cache built once per pool (flock) by a run with the same effective global flags."""
    key = common.fingerprint(sorted(eff_flags), "seeded")
    if key not in made:
        made[key] = os.path.join(root_dir, "cache-" + key)
        try:
            shutil.copytree(inproc.base_cache(basic._ROOT, eff_flags), made[key])
        except Exception:
            os.makedirs(made[key], exist_ok=True)
    return made[key]


def equiv_group(runs: list[dict[str, Any]], files: dict[str, str], build: bool = True) -> dict[str, Any]:
    """All runs of one option group. runs[0] is the baseline (no option set anywhere). Snapshots of later runs are
    returned as differences from the baseline's."""
    gdir = basic.fresh_dir("c17g")
    made: dict[str, str] = {}
    out: list[dict[str, Any]] = []
    base: dict[str, Any] | None = None
    try:
        for n, run in enumerate(runs):
            d = os.path.join(gdir, f"r{n}")
            os.makedirs(d)
            cache = None
            if build and not run.get("no_build") and not run.get("no_cache_env"):
                cache = _cache_for(gdir, list(run.get("eff_flags") or []), made, str(run.get("cache_tag") or ""))
            res = _execute(d, run, files, build and not run.get("no_build"), cache, basic._n * 1000 + n)
            res.pop("_root", None)
            if base is None:
                base = {"global": res["global"], "mods": res["mods"]}
                res["baseline"] = True
            else:
                res["global"] = _diff(res["global"], base["global"])
                res["mods"] = {m: _diff(s, base["mods"].get(m)) for m, s in res["mods"].items()}
            out.append(res)
            shutil.rmtree(d, ignore_errors=True)
            # modules imported from the case directory by the code under test (plugins) must not survive into the next run
            for name, mod in list(sys.modules.items()):
                if str(getattr(mod, "__file__", None) or "").startswith(gdir):
                    sys.modules.pop(name, None)
            sys.path[:] = [x for x in sys.path if not x.startswith(gdir)]
    finally:
        shutil.rmtree(gdir, ignore_errors=True)
    return {"runs": out}


# ------------------------------------------------------------------------------------------ precedence contract
ID_OPT = "always_true"
SEC_SCALAR = ["silent", "error", "skip", "silent"]
UNIQUE = ["warn_unreachable", "strict_equality", "disallow_any_expr", "warn_return_any"]
JUDGED = [ID_OPT, "follow_imports", "disallow_untyped_defs", "warn_no_return", *UNIQUE]
DEFAULTS = {ID_OPT: [], "follow_imports": "normal", "disallow_untyped_defs": False, "warn_no_return": True,
            **{u: False for u in UNIQUE}}


def section_settings(i: int) -> dict[str, Any]:
    return {ID_OPT: [f"S{i}"], "follow_imports": SEC_SCALAR[i % 4], "disallow_untyped_defs": i % 2 == 0,
            "warn_no_return": i % 2 == 1, UNIQUE[i % 4]: True}


def layers(variant: int) -> tuple[dict[str, Any], dict[str, Any], list[str]]:
    """(global section settings, command-line settings, argv) for a layer variant (bit0: [mypy], bit1: command line)."""
    glob: dict[str, Any] = {}
    cmd: dict[str, Any] = {}
    argv: list[str] = []
    if variant & 1:
        glob = {ID_OPT: ["SG"], "follow_imports": "error", "disallow_untyped_defs": True, "warn_no_return": False}
    if variant & 2:
        cmd = {"follow_imports": "skip", "disallow_untyped_defs": False, "warn_no_return": True}
        argv = ["--follow-imports=skip", "--allow-untyped-defs", "--warn-no-return"]
        if not variant & 1:
            cmd[ID_OPT] = ["SC"]  # list flags accumulate over [mypy]; only judged when [mypy] does not set it
            argv += ["--always-true", "SC"]
    return glob, cmd, argv


def _ini_val(v: Any) -> str:
    if isinstance(v, list):
        return ", ".join(v)
    return str(v)


def _toml_val(v: Any) -> str:
    if isinstance(v, bool):
        return "true" if v else "false"
    if isinstance(v, list):
        return "[" + ", ".join(json.dumps(x) for x in v) + "]"
    if isinstance(v, (int, float)):
        return repr(v)
    return json.dumps(v)


def render_config(fmt: str, glob: dict[str, Any], sections: list[tuple[str, dict[str, Any]]]) -> dict[str, str]:
    if fmt == "toml":
        lines = ["[tool.mypy]"] + [f"{k} = {_toml_val(v)}" for k, v in glob.items()]
        for pat, st in sections:
            mod = json.dumps(pat) if "," not in pat else "[" + ", ".join(json.dumps(q) for q in pat.split(",")) + "]"
            lines += ["", "[[tool.mypy.overrides]]", f"module = {mod}"] + [f"{k} = {_toml_val(v)}" for k, v in st.items()]
        return {"pyproject.toml": "\n".join(lines) + "\n"}
    lines = ["[mypy]"] + [f"{k} = {_ini_val(v)}" for k, v in glob.items()]
    for pat, st in sections:
        lines += ["", f"[mypy-{pat}]"] + [f"{k} = {_ini_val(v)}" for k, v in st.items()]
    return {("setup.cfg" if fmt == "cfg" else "mypy.ini"): "\n".join(lines) + "\n"}


def _check_contract(c: dict[str, Any], module: str, result: Any, inline: dict[str, Any] | None = None,
                    got: dict[str, Any] | None = None, where: str = "clone_for_module") -> None:
    """Postcondition of the real clone_for_module (or of State.options after inline configuration): every judged
    option has a value the documented precedence allows."""
    secs: list[tuple[str, dict[str, Any]]] = c["sections"]
    if got is None:
        got = {k: _norm(getattr(result, k)) for k in JUDGED}
    c["evals"] = c.get("evals", 0) + 1
    n_match = sum(1 for p, _ in secs if model.matches(p, module))
    if n_match >= 2:
        c.setdefault("nontrivial", []).append([module, where])
    c.setdefault("cells", {})
    for p, _ in secs:
        if model.matches(p, module):
            zw = model.zero_width_stars(p, module)
            cell = "match:" + model.shape(p) + (f":zero-width-{zw}-star" if zw else "")
            c["cells"][cell] = c["cells"].get(cell, 0) + 1
    c["cells"][f"nmatch={n_match}:{where}"] = c["cells"].get(f"nmatch={n_match}:{where}", 0) + 1
    for opt in JUDGED:
        acc = model.effective(secs, module, opt, inline=inline, cmdline=c["cmd"], glob=c["glob"], default=DEFAULTS[opt])
        if any(got[opt] == v for v, _ in acc):
            continue
        for key in classify_prec(c, module, opt, got[opt], acc, inline):
            c.setdefault("violations", []).append({
                "key": key, "module": module, "option": opt, "got": got[opt], "allowed": [[v, by] for v, by in acc],
                "where": where, "inline": inline})


def _who(c: dict[str, Any], opt: str, value: Any, inline: dict[str, Any] | None) -> str:
    """Which source carries this value (for the identifying option this is unique)."""
    if inline and inline.get(opt) == value:
        return "inline"
    hits = [model.shape(p) for p, st in c["sections"] if st.get(opt) == value]
    if opt == ID_OPT and hits:
        return hits[0]
    if c["cmd"].get(opt) == value and opt in c["cmd"]:
        return "cmdline"
    if c["glob"].get(opt) == value and opt in c["glob"]:
        return "global"
    if value == DEFAULTS[opt]:
        return "default"
    if hits:
        return "some-section"
    if opt == ID_OPT and isinstance(value, list) and len(value) > 1:
        return "merged-list"
    return "other"


def classify_prec(c: dict[str, Any], module: str, opt: str, got: Any, acc: list[tuple[Any, str]],
                  inline: dict[str, Any] | None) -> list[str]:
    """Mechanism keys, built from pattern shapes and layer names only. If the observation is what the documented rule
    gives once some matching sections are removed, those sections were ignored: one key per ignored section shape."""
    import itertools

    secs = c["sections"]
    by = acc[0][1]

    def shp(j: int) -> str:
        zw = model.zero_width_stars(secs[j][0], module)
        if zw:  # one mechanism whatever else the pattern contains
            return f"unstructured:zero-width-{zw}-star"
        return model.shape(secs[j][0])

    matching = [j for j, (p, st) in enumerate(secs) if opt in st and model.matches(p, module)]
    if by.startswith("section:"):
        for size in range(1, len(matching) + 1):
            for sub in itertools.combinations(matching, size):
                without = model.effective(secs, module, opt, inline=inline, cmdline=c["cmd"], glob=c["glob"],
                                          default=DEFAULTS[opt], skip=frozenset(sub))
                if any(got == v for v, _ in without):
                    return sorted({f"precedence:section-ignored:{shp(j)}" for j in sub})
        j = int(by.split(":")[1])
        return [f"precedence:order:expected={shp(j)}:got={_who(c, opt, got, inline)}"]
    # model says no section decides; did the real code apply one?
    for jj, (p, st) in enumerate(secs):
        if opt in st and st[opt] == got and not model.matches(p, module) and (opt == ID_OPT or opt in UNIQUE):
            return [f"precedence:section-overapplied:{model.shape(p)}"]
    return [f"precedence:layer:expected={by}:got={_who(c, opt, got, inline)}"]


def _make_contract(case: dict[str, Any]) -> dict[str, Any]:
    """`sections` entries may be comma-joined patterns ("a.*,*.b"): one section header naming several globs. For the model
    that is the same as consecutive sections with equal settings."""
    rendered = [(p, section_settings(i)) for i, p in enumerate(case["sections"])]
    secs = [(q, st) for p, st in rendered for q in p.split(",")]
    glob, cmd, argv = layers(case["variant"])
    return {"sections": secs, "rendered": rendered, "glob": glob, "cmd": cmd, "argv": argv, "root": None}


def prec_chunk(cases: list[dict[str, Any]], names: list[str], order_seed: str) -> dict[str, Any]:
    """For each case: real config file + real process_options, then clone_for_module for every module name, the
    contract comparing each result with the documented precedence."""
    global _contract
    import random

    install_hooks()
    out: list[dict[str, Any]] = []
    gdir = basic.fresh_dir("c17p")
    try:
        for n, case in enumerate(cases):
            c = _make_contract(case)
            d = os.path.join(gdir, f"p{n}")
            os.makedirs(d)
            cfg = render_config(case["fmt"], c["glob"], c["rendered"])
            common.write_files(d, cfg)
            _obs.clear()
            r = _only_process_options([*c["argv"], "-c", "pass"], d, {})
            root = _obs.get("root")
            res: dict[str, Any] = {"case": case, "evals": 0}
            if root is None or r.get("status") not in (0, None) or r.get("crash"):
                res["failed"] = {"status": r.get("status"), "err": r.get("err", "")[-500:], "crash": (r.get("crash") or {}).get("key")}
                out.append(res)
                continue
            res["stderr"] = r.get("err", "")[-400:]
            order = list(names)
            random.Random(f"{order_seed}/{n}").shuffle(order)
            c["root"] = root
            _contract = c
            try:
                for m in order:
                    root.clone_for_module(m)
            finally:
                _contract = None
            res["evals"] = c.get("evals", 0)
            res["nontrivial"] = len(c.get("nontrivial", []))
            res["cells"] = c.get("cells", {})
            res["violations"] = c.get("violations", [])[:40]
            res["n_violations"] = len(c.get("violations", []))
            res["errors"] = c.get("errors", [])[:3]
            if res["violations"]:
                res["config"] = cfg
                res["argv"] = c["argv"]
            out.append(res)
            shutil.rmtree(d, ignore_errors=True)
    finally:
        shutil.rmtree(gdir, ignore_errors=True)
    return {"cases": out}


# ------------------------------------------------------------------------------------------ end to end
E2E_NAMES = ["S0", "S1", "S2", "S3", "SG", "SC", "SI"]


def e2e_source(inline: str | None) -> tuple[str, dict[str, int]]:
    """Witness module: which names are always-true, whether untyped defs / missing returns are reported."""
    lines = [inline or "# (no inline configuration)"]
    lines.append(" = ".join(E2E_NAMES) + " = bool(int())")
    probes: dict[str, int] = {}
    lines.append("def u(x):")
    probes["untyped"] = len(lines)
    lines.append("    return x")
    lines.append("def n(x: int) -> int:")
    probes["noreturn"] = len(lines)
    lines.append("    if x:")
    lines.append("        return 1")
    for nm in E2E_NAMES:
        lines.append(f"if {nm}:")
        lines.append("    pass")
        lines.append("else:")
        lines.append("    1 + ''")
        probes[nm] = len(lines)
    return "\n".join(lines) + "\n", probes


def mod_path(m: str, pkgs: set[str]) -> str:
    return m.replace(".", "/") + ("/__init__.py" if m in pkgs else ".py")


def e2e_chunk(cases: list[dict[str, Any]], names: list[str]) -> dict[str, Any]:
    """Real `mypy.main.main` on a package tree holding every module name, with a real config file, command-line
    flags and inline comments; State.options after inline configuration and the diagnostics of each module are
    compared with the documented precedence."""
    global _contract, _watch
    install_hooks()
    pkgs = {m for m in names if any(o.startswith(m + ".") for o in names)}
    tops = sorted({m.split(".")[0] for m in names})
    out: list[dict[str, Any]] = []
    gdir = basic.fresh_dir("c17e")
    made: dict[str, str] = {}
    try:
        for n, case in enumerate(cases):
            c = _make_contract(case)
            d = os.path.join(gdir, f"e{n}")
            os.makedirs(d)
            inl: dict[str, dict[str, Any]] = {}
            files: dict[str, str] = {}
            probes: dict[str, int] = {}
            for m in names:
                kind = (case.get("inline") or {}).get(m)
                text = None
                if kind == "id":
                    inl[m] = {ID_OPT: ["SI"]}
                    text = "# mypy: always-true=SI"
                elif kind == "bools":
                    inl[m] = {"disallow_untyped_defs": True, "warn_no_return": False}
                    text = "# mypy: disallow-untyped-defs, no-warn-no-return"
                elif kind == "inv":
                    inl[m] = {"disallow_untyped_defs": False, "warn_no_return": True, ID_OPT: ["SI"]}
                    text = "# mypy: allow-untyped-defs, warn-no-return=True, always-true=SI"
                src, probes = e2e_source(text)
                files[mod_path(m, pkgs)] = src + f"# run {os.getpid()}-{basic._n}-{n}\n"
            files.update(render_config(case["fmt"], c["glob"], c["rendered"]))
            common.write_files(d, files, mtime=1_500_000_000 + 10 * (basic._n * 1000 + n))
            eff = list(c["argv"])
            if case["variant"] & 1:
                # cache seeded by a run with the same effective global options
                eff = ["--always-true", "SG", "--disallow-untyped-defs", "--no-warn-no-return", "--follow-imports=error"]
                if case["variant"] & 2:
                    eff = ["--always-true", "SG", "--follow-imports=skip", "--warn-no-return", "--allow-untyped-defs"]
            cache = _seeded_cache(gdir, eff, made)
            _obs.clear()
            _watch = set(names)
            c["names"] = set(names)
            _contract = c
            try:
                r = inproc.run_mypy([*c["argv"], *tops], cwd=d, env={"MYPY_CACHE_DIR": cache})
            finally:
                _contract = None
            res: dict[str, Any] = {"case": case, "status": r.get("status"), "evals": 0}
            if r.get("crash") or r.get("status") not in (0, 1):
                res["failed"] = {"status": r.get("status"), "err": (r.get("err") or "")[-500:], "crash": (r.get("crash") or {}).get("key")}
                out.append(res)
                continue
            # (1) contract on clone_for_module as called by the build itself: already evaluated by the wrapper
            # (2) State.options after the inline configuration was applied
            mods = _obs.get("mods") or {}
            for m in names:
                s = mods.get(m)
                if s is None:
                    c.setdefault("missing_state", []).append(m)
                    continue
                _check_contract(c, m, None, inline=inl.get(m), got={k: s[k] for k in JUDGED}, where="State.options")
            # (3) diagnostics of each module
            seen: dict[str, set[tuple[int, str]]] = {}
            for ln in (r.get("out") or "").splitlines():
                mm = re.match(r"^([^:]+):(\d+): error: .*\[([a-z-]+)\]$", ln)
                if mm:
                    seen.setdefault(mm.group(1), set()).add((int(mm.group(2)), mm.group(3)))
            for m in names:
                path = mod_path(m, pkgs)
                got_diag = seen.get(path, set())
                got = {
                    ID_OPT: None,
                    "disallow_untyped_defs": (probes["untyped"], "no-untyped-def") in got_diag,
                    "warn_no_return": (probes["noreturn"], "return") in got_diag,
                }
                silent = sorted(nm for nm in E2E_NAMES if (probes[nm], "operator") not in got_diag)
                c["evals"] = c.get("evals", 0) + 1
                for opt in ("disallow_untyped_defs", "warn_no_return", ID_OPT):
                    acc = model.effective(c["sections"], m, opt, inline=inl.get(m), cmdline=c["cmd"], glob=c["glob"],
                                          default=DEFAULTS[opt])
                    if opt == ID_OPT:
                        ok = any(sorted(v) == silent for v, _ in acc)
                        g: Any = silent
                    else:
                        ok = any(v == got[opt] for v, _ in acc)
                        g = got[opt]
                    if not ok:
                        for key in classify_prec(c, m, opt, g, acc, inl.get(m)):
                            c.setdefault("violations", []).append({
                                "key": key, "module": m, "option": opt, "got": g,
                                "allowed": [[v, by] for v, by in acc], "where": "diagnostics", "inline": inl.get(m)})
            res["evals"] = c.get("evals", 0)
            res["nontrivial"] = len(c.get("nontrivial", []))
            res["cells"] = c.get("cells", {})
            res["violations"] = c.get("violations", [])[:40]
            res["n_violations"] = len(c.get("violations", []))
            res["errors"] = c.get("errors", [])[:3]
            res["missing_state"] = c.get("missing_state", [])[:5]
            res["n_inline"] = len(inl)
            if res["violations"]:
                res["config"] = render_config(case["fmt"], c["glob"], c["rendered"])
                res["argv"] = c["argv"]
                res["out"] = (r.get("out") or "")[-3000:]
            out.append(res)
            shutil.rmtree(d, ignore_errors=True)
    finally:
        shutil.rmtree(gdir, ignore_errors=True)
    return {"cases": out}
