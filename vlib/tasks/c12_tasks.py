"""C12 pool tasks. Every task runs the REAL mypy/mypyc code of the tree under test and CPython itself on the same
inputs and returns both observations; the parent (checks/c12.py) compares and classifies.

Hooks are external recording wrappers (attribute replacement; originals always called, results never altered)."""

from __future__ import annotations

import ast
import os
import re
import shutil
import sys
import traceback
from typing import Any

from vlib import common, inproc
from vlib.tasks import basic

_ROOT = basic._ROOT


def _collected(fn: Any) -> Any:
    """mypy raises the gc thresholds / disables the collector while it builds, and an aborted run (internal error) leaves
    large reference cycles behind: without an explicit collection a worker grows by ~70 MB per task (observed 6-7 GB
    and OOM kills). Collect after every task."""
    import functools
    import gc

    @functools.wraps(fn)
    def wrapper(*a: Any, **kw: Any) -> Any:
        try:
            return fn(*a, **kw)
        finally:
            gc.enable()
            gc.collect()
    return wrapper


# ------------------------------------------------------------------------------------------------
# in-process build that keeps the BuildResult (trees are needed: TypeInfo.mro, Block.is_unreachable, Var.final_value)
# ------------------------------------------------------------------------------------------------

def _build(files: dict[str, str], flags: list[str], targets: list[str], mutate_options: Any = None,
           use_cache: bool = True) -> dict[str, Any]:
    """Run mypy.build.build on `files` in a fresh dir. Returns {"result": BuildResult|None, "msgs", "crash", "internal"}."""
    from mypy import build
    from mypy.errors import CompileError
    from mypy.fscache import FileSystemCache
    from mypy.main import process_options

    inproc.install_internal_hook()
    inproc._rebind_late()
    del inproc._internal[:]
    d = basic.fresh_dir("c12")
    old = os.getcwd()
    out: dict[str, Any] = {"result": None, "msgs": [], "dir": d}
    try:
        common.write_files(d, files, mtime=1_500_000_000 + 10 * basic._n)
        if use_cache:
            base = inproc.base_cache(_ROOT, [f for f in flags if f != "--show-traceback"])
            cache = os.path.join(basic._WDIR, "cache-" + os.path.basename(base))
            if not os.path.isdir(cache):
                shutil.copytree(base, cache)
        else:
            cache = os.devnull
        os.chdir(d)
        fs = FileSystemCache()
        try:
            sources, options = process_options(["--no-error-summary", "--show-traceback", "--cache-dir", cache, *flags, *targets],
                                               fscache=fs)
        except SystemExit as e:
            out["crash"] = {"exc": "SystemExit", "msg": f"options rejected: {e.code}", "key": "options"}
            return out
        if mutate_options is not None:
            mutate_options(options)
        try:
            r = build.build(sources, options, fscache=fs)
            out["result"] = r
            out["msgs"] = list(r.errors)
            try:
                r.manager.metastore.close()
            except Exception:
                pass
        except CompileError as e:
            out["msgs"] = list(e.messages)
            out["compile_error"] = True
        except SystemExit as e:
            out["crash"] = {"exc": "SystemExit", "msg": str(e.code), "key": "SystemExit"}
        except BaseException as e:
            tb = traceback.format_exc()[-6000:]
            out["crash"] = {"exc": type(e).__name__, "msg": str(e)[:300], "tb": tb, "key": inproc.classify_exc(tb)}
    finally:
        os.chdir(old)
        shutil.rmtree(d, ignore_errors=True)
    if inproc._internal:
        out["internal"] = list(inproc._internal)
    return out


_MSG = re.compile(r"^(?P<file>[^:\n]+):(?P<line>\d+)(?::\d+)*: (?P<sev>error|note|warning): (?P<msg>.*?)(?:  \[(?P<code>[a-z0-9-]+)\])?$")


def _by_line(msgs: list[str], fname: str) -> dict[int, list[list[str]]]:
    d: dict[int, list[list[str]]] = {}
    for ln in msgs:
        m = _MSG.match(ln.strip())
        if not m or os.path.basename(m.group("file")) != fname:
            continue
        if m.group("sev") != "error":
            continue
        d.setdefault(int(m.group("line")), []).append([m.group("code") or "", m.group("msg")])
    return d


def _failure(b: dict[str, Any]) -> dict[str, Any] | None:
    if b.get("internal"):
        i = b["internal"][0]
        return {"kind": "internal", "exc": i["exc"], "func": i["func"], "file": i["file"], "msg": i["msg"], "tb": i.get("tb"),
                "src_line": i.get("src_line")}
    if b.get("crash"):
        c = b["crash"]
        return {"kind": "crash", "exc": c["exc"], "func": c.get("key"), "file": None, "msg": c.get("msg"), "tb": c.get("tb")}
    if b.get("result") is None and not b.get("compile_error"):
        return {"kind": "noresult", "exc": "?", "func": None, "file": None, "msg": "no BuildResult"}
    return None


# ------------------------------------------------------------------------------------------------
# 1. call binding
# ------------------------------------------------------------------------------------------------

_kind_cells: set[str] = set()
_cac_installed = False
_cac_records: list[dict[str, Any]] | None = None


def _install_cac_hook() -> None:
    """Recording contract on ExpressionChecker.check_argument_count: logs kind vectors (coverage) and, when a sink is
    set, the full decidable call shape + the decision."""
    global _cac_installed
    if _cac_installed:
        return
    _cac_installed = True
    from mypy import checkexpr

    orig = checkexpr.ExpressionChecker.check_argument_count

    def check_argument_count(self: Any, callee: Any, actual_types: Any, actual_kinds: Any, actual_names: Any,
                             formal_to_actual: Any, context: Any, *a: Any, **kw: Any) -> bool:
        ok = orig(self, callee, actual_types, actual_kinds, actual_names, formal_to_actual, context, *a, **kw)
        try:
            _kind_cells.add("".join(str(int(k.value)) for k in callee.arg_kinds) + ">" +
                            "".join(str(int(k.value)) for k in actual_kinds))
            if _cac_records is not None:
                rec = _describe_call(self, callee, actual_types, actual_kinds, actual_names, formal_to_actual, context, ok)
                if rec is not None:
                    _cac_records.append(rec)
        except Exception as e:  # the monitor must never disturb the code it observes
            if _cac_records is not None:
                _cac_records.append({"monitor_error": f"{type(e).__name__}: {e}"})
        return ok

    checkexpr.ExpressionChecker.check_argument_count = check_argument_count  # type: ignore[method-assign]


def _describe_call(self: Any, callee: Any, actual_types: Any, actual_kinds: Any, actual_names: Any,
                   formal_to_actual: Any, context: Any, ok: bool) -> dict[str, Any] | None:
    """JSON description of an observed call if its shape is decidable (every actual has a fixed arity), else a
    record with `undecidable` set to the reason."""
    from mypy import nodes
    from mypy.types import TupleType, TypedDictType, UnpackType, get_proper_type

    why = None
    if callee.param_spec() is not None:
        why = "paramspec"
    elif callee.special_sig:
        why = "special_sig"
    elif not self.chk.in_checked_function():
        why = "unchecked-function"
    formals = []
    for i, k in enumerate(callee.arg_kinds):
        t = get_proper_type(callee.arg_types[i])
        if k == nodes.ARG_STAR and isinstance(t, UnpackType):
            why = why or "variadic-unpack-formal"
        if k == nodes.ARG_STAR2 and isinstance(t, UnpackType):
            why = why or "unpack-kwargs-formal"
        formals.append([int(k.value), callee.arg_names[i]])
    actuals: list[list[Any]] = []
    for i, k in enumerate(actual_kinds):
        t = get_proper_type(actual_types[i])
        if k == nodes.ARG_POS:
            actuals.append(["pos"])
        elif k == nodes.ARG_NAMED:
            actuals.append(["kw", actual_names[i] if actual_names else None])
        elif k == nodes.ARG_STAR:
            if isinstance(t, TupleType) and not any(isinstance(get_proper_type(x), UnpackType) or isinstance(x, UnpackType)
                                                    for x in t.items):
                actuals.append(["star", len(t.items)])
            else:
                why = why or "star-actual-unknown-length"
                actuals.append(["star", None])
        elif k == nodes.ARG_STAR2:
            if isinstance(t, TypedDictType):
                if set(t.items) - set(t.required_keys):
                    why = why or "typeddict-non-required-keys"
                actuals.append(["td", list(t.items)])
            else:
                why = why or "dstar-actual-unknown-keys"
                actuals.append(["td", None])
        else:
            why = why or f"actual-kind-{k}"
            actuals.append(["?"])
    return {"formals": formals, "actuals": actuals, "ok": bool(ok), "undecidable": why,
            "line": getattr(context, "line", -1) if context is not None else -1,
            "quiet": context is None}


def runtime_bind(formals: list[list[Any]], actuals: list[list[Any]]) -> dict[str, Any]:
    """Ask CPython: build a real function with these parameter kinds/names and really call it."""
    import keyword

    parts: list[str] = []
    names: list[str] = []
    state = 0  # 0 pos-only, 1 pos-or-kw, 2 after *args/bare *, 3 after **kwargs
    seen_default = False
    have_star = False
    posonly_open = False
    for i, (k, nm) in enumerate(formals):
        # ARG_POS 0, ARG_OPT 1, ARG_STAR 2, ARG_NAMED 3, ARG_STAR2 4, ARG_NAMED_OPT 5
        name = nm if nm is not None else f"_p{i}"
        if not name.isidentifier() or keyword.iskeyword(name) or name in names:
            return {"skip": "unusable-name"}
        names.append(name)
        if k in (0, 1):
            if state >= 2:
                return {"skip": "positional-after-star"}
            if nm is None:
                if state != 0:
                    return {"skip": "posonly-after-named"}
                posonly_open = True
            else:
                if state == 0 and posonly_open:
                    parts.append("/")
                    posonly_open = False
                state = 1
            if k == 1:
                seen_default = True
            elif seen_default:
                return {"skip": "nondefault-after-default"}
            parts.append(name + ("=0" if k == 1 else ""))
        elif k == 2:
            if state >= 2:
                return {"skip": "two-star"}
            if posonly_open:
                parts.append("/")
                posonly_open = False
            parts.append("*" + name)
            state = 2
            have_star = True
        elif k in (3, 5):
            if nm is None:
                return {"skip": "unnamed-kwonly"}
            if state == 3:
                return {"skip": "named-after-dstar"}
            if posonly_open:
                parts.append("/")
                posonly_open = False
            if state < 2:
                parts.append("*")
                state = 2
            parts.append(name + ("=0" if k == 5 else ""))
        elif k == 4:
            if state == 3:
                return {"skip": "two-dstar"}
            if posonly_open:
                parts.append("/")
                posonly_open = False
            parts.append("**" + name)
            state = 3
        else:
            return {"skip": "kind"}
    if posonly_open:
        parts.append("/")
    src = f"def _f({', '.join(parts)}): pass"
    ns: dict[str, Any] = {}
    try:
        exec(compile(src, "<c12-sig>", "exec"), ns)
    except SyntaxError as e:
        return {"skip": "sig-syntax:" + str(e.msg)}
    cparts = []
    for a in actuals:
        if a[0] == "pos":
            cparts.append("1")
        elif a[0] == "kw":
            if not isinstance(a[1], str) or not a[1].isidentifier() or keyword.iskeyword(a[1]):
                return {"skip": "kw-name"}
            cparts.append(f"{a[1]}=1")
        elif a[0] == "star":
            cparts.append("*" + repr(tuple(range(a[1]))))
        elif a[0] == "td":
            cparts.append("**" + repr({k: 1 for k in a[1]}))
        else:
            return {"skip": "actual"}
    csrc = f"_f({', '.join(cparts)})"
    try:
        code = compile(csrc, "<c12-call>", "eval")
    except SyntaxError as e:
        return {"skip": "call-syntax:" + str(e.msg)}
    try:
        eval(code, ns)
        return {"sig": src, "call": csrc, "rt": None}
    except TypeError as e:
        return {"sig": src, "call": csrc, "rt": str(e)}


@_collected
def call_batch(text: str, linenos: list[int], flags: list[str]) -> dict[str, Any]:
    """Check one generated module (prelude, then one call per line) with the real mypy, then really perform every call.

    An internal error hides every later diagnostic. mypy dumps the diagnostics collected so far when it fails, so the
    failing line is recorded, the lines before it keep the diagnostics of that run, and the lines after it are checked
    again in a new module (same prelude)."""
    _install_cac_hook()
    before = len(_kind_cells)
    try:
        compile(text, "m.py", "exec")
    except SyntaxError as e:
        return {"harness": f"generated module does not compile: {e}"}
    lines = text.splitlines()
    first = min(linenos) if linenos else len(lines) + 1
    if linenos != list(range(first, first + len(linenos))) or first + len(linenos) != len(lines) + 1:
        return {"harness": "call lines must be the contiguous tail of the module"}
    prelude = lines[: first - 1]
    remaining = list(range(len(linenos)))
    diags: dict[int, list[list[str]]] = {}
    crashed: dict[int, dict[str, Any]] = {}
    stray: dict[int, Any] = {}
    fail = None
    runs = 0
    while remaining:
        runs += 1
        cur = prelude + [lines[linenos[i] - 1] for i in remaining]
        r = basic.check_typeshed({"m.py": "\n".join(cur) + "\n"}, ["--show-traceback", *flags], ["m.py"])
        per_line = _by_line((r.get("out") or "").splitlines(), "m.py")
        stray.update({ln: v for ln, v in per_line.items() if ln < first})
        if not (r.get("crash") or r.get("internal") or r.get("status") not in (0, 1)):
            for j, i in enumerate(remaining):
                diags[i] = per_line.get(first + j, [])
            break
        i0 = (r.get("internal") or [{}])[0]
        ln = i0.get("src_line")
        if not isinstance(ln, int):
            m = re.search(r"^m\.py:(\d+): error: INTERNAL ERROR", (r.get("err") or "") + "\n" + (r.get("out") or ""), re.M)
            ln = int(m.group(1)) if m else None
        if ln is None or not (first <= ln < first + len(remaining)):
            fail = {"status": r.get("status"), "crash": (r.get("crash") or {}).get("key"), "internal": i0.get("exc"),
                    "err": (r.get("err") or "")[-400:], "unjudged": len(remaining)}
            break
        k = ln - first
        for j in range(k):
            diags[remaining[j]] = per_line.get(first + j, [])
        crashed[remaining[k]] = {"exc": i0.get("exc"), "func": i0.get("func"), "file": i0.get("file"), "msg": i0.get("msg"),
                                 "tb": i0.get("tb"), "src": cur[ln - 1]}
        remaining = remaining[k + 1:]
    ns: dict[str, Any] = {"__name__": "m"}
    exec(compile("\n".join(prelude) + "\n", "m.py", "exec"), ns)
    out = []
    for i, ln in enumerate(linenos):
        src = lines[ln - 1]
        try:
            eval(compile(src, "m.py", "eval"), ns)
            rt = None
        except TypeError as e:
            rt = str(e)
        except Exception as e:  # cannot happen with `...` bodies; reported as harness trouble
            rt = f"!{type(e).__name__}: {e}"
        rec: dict[str, Any] = {"mypy": diags.get(i, []), "rt": rt}
        if i in crashed:
            rec["crash"] = crashed[i]
        elif i not in diags:
            rec["unjudged"] = True
        out.append(rec)
    return {"cases": out, "fail": fail, "stray": stray, "runs": runs, "new_kind_cells": len(_kind_cells) - before,
            "kind_cells": sorted(_kind_cells) if len(_kind_cells) != before else None}


@_collected
def corpus_bind(files: dict[str, str], flags: list[str], targets: list[str] | None = None) -> dict[str, Any]:
    """Check a corpus program with the recording contract on; replay every decidable observed call shape in CPython."""
    global _cac_records
    _install_cac_hook()
    _cac_records = []
    try:
        r = basic.check_typeshed(files, flags, targets or ["main.py"])
    finally:
        recs, _cac_records = _cac_records, None
    seen: set[str] = set()
    out = []
    undec: dict[str, int] = {}
    total = 0
    for rec in recs or []:
        if "monitor_error" in rec:
            undec["monitor-error:" + rec["monitor_error"][:60]] = undec.get("monitor-error:" + rec["monitor_error"][:60], 0) + 1
            continue
        total += 1
        if rec["undecidable"]:
            undec[rec["undecidable"]] = undec.get(rec["undecidable"], 0) + 1
            continue
        key = repr((rec["formals"], rec["actuals"], rec["ok"]))
        if key in seen:
            continue
        seen.add(key)
        rt = runtime_bind(rec["formals"], rec["actuals"])
        if "skip" in rt:
            undec["model:" + rt["skip"]] = undec.get("model:" + rt["skip"], 0) + 1
            continue
        rec.update(rt)
        out.append(rec)
    return {"records": out, "undecidable": undec, "observed": total, "status": r.get("status"),
            "crashed": bool(r.get("crash") or r.get("internal"))}


# ------------------------------------------------------------------------------------------------
# 2. MRO
# ------------------------------------------------------------------------------------------------

MRO_MSG = "Cannot determine consistent method resolution order (MRO)"


@_collected
def mro_batch(hiers: list[list[list[int]]], flags: list[str]) -> dict[str, Any]:
    """hiers[h][i] = ordered base indices of class i of hierarchy h. One module; TypeInfo.mro of every class from
    the real build vs type(...).__mro__."""
    lines: list[str] = []
    where: list[list[int]] = []
    for h, hier in enumerate(hiers):
        ls = []
        for i, bases in enumerate(hier):
            b = ", ".join(f"H{h}_{j}" for j in bases)
            lines.append(f"class H{h}_{i}({b}): pass" if b else f"class H{h}_{i}: pass")
            ls.append(len(lines))
        where.append(ls)
    text = "\n".join(lines) + "\n"
    b = _build({"m.py": text}, flags, ["m.py"])
    fail = _failure(b)
    if fail or b["result"] is None:
        return {"fail": fail or {"kind": "compile_error", "msgs": b["msgs"][:5]}, "text": text if len(hiers) == 1 else None}
    res = b["result"]
    tree = res.files["m"]
    per_line = _by_line(b["msgs"], "m.py")
    out = []
    for h, hier in enumerate(hiers):
        classes: list[Any] = []
        recs = []
        for i, bases in enumerate(hier):
            # runtime
            if any(classes[j] is None for j in bases):
                rt: Any = "dep-failed"
                classes.append(None)
            else:
                try:
                    c = type(f"H{h}_{i}", tuple(classes[j] for j in bases), {})
                    classes.append(c)
                    rt = [x.__name__ for x in c.__mro__]
                except TypeError as e:
                    classes.append(None)
                    rt = "TypeError: " + str(e)[:80]
            # static
            sym = tree.names.get(f"H{h}_{i}")
            info = sym.node if sym is not None else None
            errs = per_line.get(where[h][i], [])
            st_mro = [ti.name for ti in info.mro] if info is not None and hasattr(info, "mro") else None
            recs.append({"rt": rt, "mro": st_mro, "errs": errs})
        out.append(recs)
    return {"hiers": out, "fail": None}


@_collected
def mro_direct(hiers: list[list[list[int]]]) -> dict[str, Any]:
    """The same comparison with mypy.mro.calculate_mro called directly on hand-made TypeInfos (contract on the real
    function; ~100x cheaper than a build, used for the 6-class space). Only the LAST class of every hierarchy is judged
    (its prefixes are other, smaller hierarchies); the comparison is done here and only counts + disagreements travel."""
    from mypy.mro import MroError, calculate_mro
    from mypy.nodes import Block, ClassDef, SymbolTable, TypeInfo
    from mypy.types import Instance

    def mk(name: str, bases: list[Any]) -> Any:
        cd = ClassDef(name, Block([]))
        cd.fullname = "m." + name
        info = TypeInfo(SymbolTable(), cd, "m")
        cd.info = info
        info.bases = [Instance(b, []) for b in bases]
        return info

    obj = mk("object", [])
    obj.defn.fullname = "builtins.object"
    obj._fullname = "builtins.object"
    calculate_mro(obj)
    cells: dict[str, int] = {}
    bad = []
    n = acc = rej = nontriv = 0
    sample = None
    for hier in hiers:
        infos: list[Any] = []
        classes: list[Any] = []
        last = len(hier) - 1
        for i, bases in enumerate(hier):
            if any(classes[j] is None for j in bases):
                classes.append(None)
                infos.append(None)
                if i == last:
                    cells["mro:skipped-base-failed-at-runtime"] = cells.get("mro:skipped-base-failed-at-runtime", 0) + 1
                continue
            try:
                c = type(f"C{i}", tuple(classes[j] for j in bases), {})
                classes.append(c)
                rt: Any = [x.__name__ for x in c.__mro__]
            except TypeError as e:
                classes.append(None)
                rt = "TypeError: " + str(e)[:80]
            info = mk(f"C{i}", [infos[j] for j in bases] or [obj])
            try:
                calculate_mro(info)
                st, st_rej = [t.name for t in info.mro], False
            except MroError:
                st, st_rej = None, True
            infos.append(info if not st_rej else None)
            rt_rej = isinstance(rt, str)
            if st_rej != rt_rej or (not rt_rej and st != rt):
                # a wrong prefix class poisons everything built on it: report it wherever it is seen, once per batch
                rec = {"hier": hier[: i + 1], "index": i, "rt": rt, "mro": st, "rejected": st_rej}
                if len(bad) < 50 and rec not in bad:
                    bad.append(rec)
                if st_rej and not rt_rej:
                    infos[-1] = None
                    classes[-1] = None
                continue
            if i != last:
                continue
            n += 1
            nb = len(bases)
            if rt_rej:
                rej += 1
                nontriv += 1
                k = f"mro:reject:nbases={nb}"
            else:
                acc += 1
                if nb >= 2 or len(rt) >= 4:
                    nontriv += 1
                    if sample is None and len(rt) >= 7:
                        sample = {"bases": hier, "mro": rt}
                k = f"mro:accept:nbases={nb}"
            cells[k] = cells.get(k, 0) + 1
    return {"n": n, "accept": acc, "reject": rej, "nontrivial": nontriv, "bad": bad, "cells": cells, "sample": sample,
            "hierarchies": len(hiers)}


# ------------------------------------------------------------------------------------------------
# 3. version / platform conditions
# ------------------------------------------------------------------------------------------------

class _VI(tuple):  # behaves like sys.version_info for comparisons, indexing, slicing and .major/.minor
    major = property(lambda s: s[0])
    minor = property(lambda s: s[1])
    micro = property(lambda s: s[2])
    releaselevel = property(lambda s: s[3])
    serial = property(lambda s: s[4])


class _FakeSys:
    def __init__(self, vi: tuple[Any, ...], platform: str) -> None:
        self.version_info = _VI(vi)
        self.platform = platform


RUNTIME_TAILS = [(0, "final", 0), (1, "final", 0), (7, "final", 0), (0, "alpha", 1), (13, "candidate", 2)]


def runtime_truth(cond: str, version: tuple[int, int], platform: str) -> Any:
    """Truth values the condition takes in the interpreters the target (major.minor, platform) stands for: the set of
    bool(eval) over several micro/releaselevel/serial values. Returns "T", "F", "TF" (depends on what the target does not
    fix) or "!Exc"."""
    vals = set()
    code = compile(cond, "<cond>", "eval")
    for tail in RUNTIME_TAILS:
        try:
            vals.add(bool(eval(code, {"sys": _FakeSys((*version, *tail), platform)})))
        except Exception as e:
            return "!" + type(e).__name__
    return "".join(sorted(("T" if v else "F" for v in vals), reverse=True))


@_collected
def reach_direct(conds: list[str], versions: list[list[int]], platforms: list[str]) -> dict[str, Any]:
    """infer_condition_value of the real tree on every condition (parsed by mypy's own parser) x target."""
    from mypy.nodes import ExpressionStmt
    from mypy.options import Options
    from mypy.parse import parse
    from mypy.errors import Errors
    from mypy import reachability as R

    names = {R.ALWAYS_TRUE: "T", R.ALWAYS_FALSE: "F", R.TRUTH_VALUE_UNKNOWN: "U", R.MYPY_TRUE: "MT", R.MYPY_FALSE: "MF"}
    text = "import sys\n" + "".join(f"({c})\n" for c in conds)
    popts = Options()
    parsed = parse(text.encode(), "m.py", "m", Errors(popts), popts)
    tree = parsed[0] if isinstance(parsed, tuple) else parsed
    exprs = [s.expr for s in tree.defs[1:] if isinstance(s, ExpressionStmt)]
    if len(exprs) != len(conds):
        return {"harness": f"parsed {len(exprs)} of {len(conds)} conditions"}
    out = []
    for v in versions:
        for p in platforms:
            o = Options()
            o.python_version = (v[0], v[1])
            o.platform = p
            row = []
            for c, e in zip(conds, exprs):
                try:
                    st = names.get(R.infer_condition_value(e, o), "?")
                except Exception as ex:
                    st = "!" + type(ex).__name__
                row.append(st)
            out.append({"version": v, "platform": p, "static": row,
                        "runtime": [runtime_truth(c, (v[0], v[1]), p) for c in conds]})
    return {"rows": out}


@_collected
def reach_build(conds: list[str], version: list[int], platform: str, native: bool) -> dict[str, Any]:
    """Full build of `if <cond>: ... else: ...` statements; static value from Block.is_unreachable of the two branches."""
    from mypy.nodes import IfStmt

    lines = ["import sys"]
    for c in conds:
        lines += [f"if {c}:", "    pass", "else:", "    pass"]
    text = "\n".join(lines) + "\n"
    flags = ["--python-version", f"{version[0]}.{version[1]}", "--platform", platform]
    if native:
        flags.append("--native-parser")
    def keep_asts(options: Any) -> None:
        options.preserve_asts = True

    b = _build({"m.py": text}, flags, ["m.py"], mutate_options=keep_asts)
    fail = _failure(b)
    if fail or b["result"] is None:
        return {"fail": fail or {"kind": "compile_error", "msgs": b["msgs"][:5]}}
    tree = b["result"].files["m"]
    ifs = [s for s in tree.defs if isinstance(s, IfStmt)]
    if len(ifs) != len(conds):
        return {"harness": f"{len(ifs)} if-statements for {len(conds)} conditions"}
    static = []
    for s in ifs:
        bu = bool(s.body[0].is_unreachable)
        eu = bool(s.else_body.is_unreachable) if s.else_body is not None else False
        static.append("X" if bu and eu else "F" if bu else "T" if eu else "U")
    return {"static": static, "runtime": [runtime_truth(c, (version[0], version[1]), platform) for c in conds],
            "msgs": b["msgs"][:3]}


# ------------------------------------------------------------------------------------------------
# 4. constant folding
# ------------------------------------------------------------------------------------------------

_fold_sink: list[dict[str, Any]] | None = None
_fold_depth = 0
_fold_installed = False
_mfold_installed = False


def _val(v: Any) -> list[str] | None:
    """[type name, printable value]; never raises (huge ints exceed repr's digit limit: hex has none)."""
    if v is None:
        return None
    try:
        if type(v) is int and v.bit_length() > 4000:
            return ["int", hex(v)]
        return [type(v).__name__, repr(v)]
    except Exception as e:
        return [type(v).__name__, f"<unprintable {type(e).__name__}>"]


def _install_fold_hooks() -> None:
    """Recording wrappers on mypy.constant_fold.constant_fold_expr (outermost calls only are logged)."""
    global _fold_installed
    if _fold_installed:
        return
    _fold_installed = True
    from mypy import constant_fold as CF

    orig = CF.constant_fold_expr

    def constant_fold_expr(expr: Any, cur_mod_id: str) -> Any:
        global _fold_depth
        _fold_depth += 1
        try:
            r = orig(expr, cur_mod_id)
        finally:
            _fold_depth -= 1
        if _fold_depth == 0 and _fold_sink is not None and cur_mod_id == "m":   # typeshed modules are analysed too
            _fold_sink.append({"who": "mypy", "line": expr.line, "col": expr.column, "eline": expr.end_line,
                               "ecol": expr.end_column, "val": _val(r)})
        return r

    CF.constant_fold_expr = constant_fold_expr  # type: ignore[assignment]
    for name, m in list(sys.modules.items()):
        if name.startswith("mypy") and getattr(m, "constant_fold_expr", None) is orig:
            setattr(m, "constant_fold_expr", constant_fold_expr)
    _fold_orig.append((orig, constant_fold_expr))


_fold_orig: list[tuple[Any, Any]] = []


def _rebind_fold() -> None:
    for orig, new in _fold_orig:
        for name, m in list(sys.modules.items()):
            if name.startswith("mypy") and getattr(m, "constant_fold_expr", None) is orig:
                setattr(m, "constant_fold_expr", new)


def _install_mypyc_fold_hooks() -> None:
    global _mfold_installed
    if _mfold_installed:
        return
    _mfold_installed = True
    from mypyc.irbuild import constant_fold as MCF

    orig = MCF.constant_fold_expr

    def constant_fold_expr(builder: Any, expr: Any) -> Any:
        global _fold_depth
        _fold_depth += 1
        try:
            r = orig(builder, expr)
        finally:
            _fold_depth -= 1
        if _fold_depth == 0 and _fold_sink is not None and getattr(builder, "module_name", "m") == "m":
            _fold_sink.append({"who": "mypyc", "line": expr.line, "col": expr.column, "eline": expr.end_line,
                               "ecol": expr.end_column, "val": _val(r)})
        return r

    MCF.constant_fold_expr = constant_fold_expr  # type: ignore[assignment]
    _fold_orig.append((orig, constant_fold_expr))


def _runtime_lines(lines: list[str], first: int) -> tuple[dict[int, Any], dict[str, Any]]:
    """Execute the generated module line by line in CPython. Returns per line: ["type", "repr"] | "!Exc" and the namespace."""
    ns: dict[str, Any] = {"__name__": "m"}
    res: dict[int, Any] = {}
    for i, ln in enumerate(lines, 1):
        if i < first:
            exec(compile(ln, "m.py", "exec"), ns)
            continue
        name = ln.split(":", 1)[0].strip()
        try:
            with _quiet_warnings():
                exec(compile(ln, "m.py", "exec"), ns)
            res[i] = _val(ns[name])
        except BaseException as e:
            res[i] = "!" + type(e).__name__
    return res, ns


class _quiet_warnings:
    def __enter__(self) -> None:
        import warnings
        self.cm = warnings.catch_warnings()
        self.cm.__enter__()
        warnings.simplefilter("ignore")

    def __exit__(self, *a: Any) -> None:
        self.cm.__exit__(*a)


def _eval_span(lines: list[str], rec: dict[str, Any], ns: dict[str, Any]) -> Any:
    if rec["line"] != rec["eline"] or rec["line"] < 1 or rec["line"] > len(lines):
        return "?span"
    src = lines[rec["line"] - 1][rec["col"]: rec["ecol"]]
    try:
        with _quiet_warnings():
            return {"src": src, "val": _val(eval(compile("(" + src + ")", "m.py", "eval"), ns))}
    except SyntaxError:
        return "?span"
    except BaseException as e:
        return {"src": src, "val": "!" + type(e).__name__}


def _fold_prepass(lines: list[str], first: int, n: int, flags: list[str]) -> dict[int, dict[str, Any]]:
    """Find the lines on which the real constant_fold_expr raises by calling it directly on the rvalues (parsed by mypy's
    own parser). One representative per (exception, function) is confirmed through a one-line real build; an internal
    error in a build hides the rest of a module, and re-running a module once per failing line is too slow."""
    from mypy import constant_fold as CF
    from mypy.errors import Errors
    from mypy.nodes import AssignmentStmt
    from mypy.options import Options
    from mypy.parse import parse

    popts = Options()
    parsed = parse(("\n".join(lines) + "\n").encode(), "m.py", "m", Errors(popts), popts)
    tree = parsed[0] if isinstance(parsed, tuple) else parsed
    crashed: dict[int, dict[str, Any]] = {}
    confirmed: dict[tuple[Any, Any], bool] = {}
    for st in tree.defs:
        if not isinstance(st, AssignmentStmt) or not (first <= st.line < first + n):
            continue
        try:
            CF.constant_fold_expr(st.rvalue, "m")
        except BaseException as e:
            tb = traceback.extract_tb(e.__traceback__)
            inner = next((fr for fr in reversed(tb) if "/mypy/" in fr.filename or "/mypyc/" in fr.filename), None)
            i = st.line - first
            rec = {"kind": "internal", "exc": type(e).__name__, "func": inner.name if inner else None,
                   "file": os.path.basename(inner.filename) if inner else None, "msg": str(e)[:200],
                   "tb": "".join(traceback.format_tb(e.__traceback__)[-4:])[-1500:], "found_by": "direct call"}
            mech = (rec["exc"], rec["func"])
            if mech not in confirmed:
                b = _build({"m.py": lines[0] + "\n" + "\n".join(lines[1: first - 1]) + "\n" + lines[st.line - 1] + "\n"},
                           flags, ["m.py"])
                f = _failure(b)
                confirmed[mech] = bool(f and f.get("kind") == "internal" and f.get("exc") == rec["exc"])
            rec["confirmed_by_real_build"] = confirmed[mech]
            crashed[i] = rec
    return crashed


@_collected
def fold_batch(exprs: list[str], flags: list[str], mypyc: bool = False, decls: list[str] | None = None) -> dict[str, Any]:
    """`X<i>: Final = <expr>` per line. Static: every outermost constant_fold_expr result recorded during the real
    build (+ Var.final_value from the tree); runtime: exec/eval of the same text. With mypyc=True the error-free lines are
    additionally run through mypyc's IR builder with the same kind of recorder on mypyc.irbuild.constant_fold."""
    global _fold_sink
    _install_fold_hooks()
    _rebind_fold()
    head = ["from typing import Final"] + list(decls or [])
    first = len(head) + 1
    lines = head + [f"X{i}: Final = {e}" for i, e in enumerate(exprs)]
    text = "\n".join(lines) + "\n"
    try:
        compile(text, "m.py", "exec")
    except (SyntaxError, ValueError, OverflowError, MemoryError) as e:
        return {"harness": f"generated module does not compile: {type(e).__name__}: {e}"}
    rt, ns = _runtime_lines(lines, first)
    crashed: dict[int, dict[str, Any]] = _fold_prepass(lines, first, len(exprs), flags)
    cur = list(lines)
    for i in crashed:
        cur[first - 1 + i] = f"X{i}: Final = None"
    for _attempt in range(60):
        _fold_sink = []
        try:
            b = _build({"m.py": "\n".join(cur) + "\n"}, flags, ["m.py"])
        finally:
            sink, _fold_sink = _fold_sink, None
        fail = _failure(b)
        ln = (fail or {}).get("src_line")
        if fail and fail["kind"] == "internal" and isinstance(ln, int) and first <= ln < first + len(exprs) \
                and (ln - first) not in crashed:
            # an internal error hides the rest of the module: attribute it to its line, neutralise the line, re-run
            crashed[ln - first] = fail
            cur[ln - 1] = f"X{ln - first}: Final = None"
            continue
        break
    if fail or b["result"] is None:
        return {"fail": fail or {"kind": "compile_error", "msgs": b["msgs"][:5]}, "n": len(exprs), "crashed": len(crashed)}
    tree = b["result"].files["m"]
    per_line = _by_line(b["msgs"], "m.py")
    cases: list[dict[str, Any]] = []
    for i, e in enumerate(exprs):
        ln = first + i
        sym = tree.names.get(f"X{i}")
        node = sym.node if sym is not None else None
        fv = _val(getattr(node, "final_value", None)) if node is not None else None
        col = len(f"X{i}: Final = ")
        outer = [r["val"] for r in sink if r["who"] == "mypy" and r["line"] == ln and r["col"] == col]
        cases.append({"expr": e, "rt": rt.get(ln), "final_value": fv, "folds": outer, "errs": per_line.get(ln, []),
                      **({"crash": crashed[i]} if i in crashed else {})})
    # sub-expression folds (calls on operands after the whole expression did not fold) are judged against their own span
    subs = []
    for r in sink:
        if r["who"] != "mypy" or r["line"] < first or r["val"] is None:
            continue
        i = r["line"] - first
        if r["col"] == len(f"X{i}: Final = ") or i in crashed or i >= len(exprs):
            continue
        ev = _eval_span(lines, r, ns)
        if ev != "?span":
            subs.append({"src": ev["src"], "rt": ev["val"], "fold": r["val"], "line_expr": exprs[i]})
    out: dict[str, Any] = {"cases": cases, "subs": subs, "fail": None}
    if mypyc:
        out["mypyc"] = _mypyc_fold(head, exprs, [i for i, c in enumerate(cases) if not c["errs"] and i not in crashed])
    return out


def _subexprs(e: Any) -> list[Any]:
    from mypy.nodes import ComparisonExpr, OpExpr, UnaryExpr
    out = [e]
    if isinstance(e, OpExpr):
        out += _subexprs(e.left) + _subexprs(e.right)
    elif isinstance(e, UnaryExpr):
        out += _subexprs(e.expr)
    elif isinstance(e, ComparisonExpr):
        for o in e.operands:
            out += _subexprs(o)
    return out


def _mypyc_typecheck(lines: list[str]) -> dict[str, Any]:
    """Type check `lines` as module m with the settings mypyc uses (ASTs and types kept)."""
    def mut(options: Any) -> None:
        options.export_types = True
        options.preserve_asts = True
        options.show_traceback = True
        options.per_module_options.setdefault("m", {})["mypyc"] = True

    b = _build({"m.py": "\n".join(lines) + "\n"}, [], ["m.py"], mutate_options=mut)
    fail = _failure(b)
    if fail or b["result"] is None:
        return {"fail": fail or {"kind": "compile_error", "msgs": b["msgs"][:5]}}
    if b["result"].errors:
        return {"fail": {"kind": "type-errors", "msgs": b["result"].errors[:5]}}
    return {"res": b["result"], "fail": None}


def _mypyc_run_ir(res: Any) -> dict[str, Any]:
    """mypyc's real IR builder on a type-checked module, with the fold recorder on."""
    global _fold_sink
    _install_mypyc_fold_hooks()
    from mypyc.errors import Errors
    from mypyc.irbuild.main import build_ir
    from mypyc.irbuild.mapper import Mapper
    from mypyc.options import CompilerOptions

    errors = Errors(res.manager.options)
    _fold_sink = []
    try:
        try:
            build_ir([res.files["m"]], res.graph, res.types, Mapper({"m": None}), CompilerOptions(), errors)
        except BaseException as e:
            tb = traceback.format_exc()[-6000:]
            first_tb = tb.split("During handling of the above exception")[0]
            key = inproc.classify_exc(first_tb)
            return {"fail": {"kind": "crash", "exc": key.split("@")[0], "func": key.split(":")[-1], "outer_exc": type(e).__name__,
                             "msg": str(e)[:200], "tb": tb[-3000:]}}
    finally:
        sink, _fold_sink = _fold_sink, None
    return {"sink": sink, "ir_errors": errors.new_messages()[:3], "fail": None}


def _mypyc_ir(lines: list[str]) -> dict[str, Any]:
    tc = _mypyc_typecheck(lines)
    if tc["fail"]:
        return tc
    return _mypyc_run_ir(tc["res"])


def _mypyc_fold(head: list[str], exprs: list[str], keep: list[int]) -> dict[str, Any]:
    from mypy.nodes import AssignmentStmt
    from mypyc.irbuild import constant_fold as MCF

    _install_mypyc_fold_hooks()
    first = len(head) + 1
    lines = head + [f"X{i}: Final = {exprs[i]}" for i in keep]
    tc = _mypyc_typecheck(lines)
    if tc["fail"]:
        return {"fail": tc["fail"], "crashed": []}
    # pre-pass on the analysed tree (Final references are bound): lines on which mypyc's real constant_fold_expr raises.
    # An exception aborts the whole IR build, so those lines are reported and left out of the module that is built.
    crashed: list[dict[str, Any]] = []
    confirmed: dict[tuple[Any, Any], Any] = {}
    drop: set[int] = set()
    for st in tc["res"].files["m"].defs:
        if not isinstance(st, AssignmentStmt) or st.line < first:
            continue
        try:
            for sub_expr in _subexprs(st.rvalue):   # the IR builder also folds operands of expressions that did not fold
                MCF.constant_fold_expr(None, sub_expr)  # type: ignore[arg-type]
        except BaseException as e:
            tb = traceback.extract_tb(e.__traceback__)
            inner = next((fr for fr in reversed(tb) if "/mypy/" in fr.filename or "/mypyc/" in fr.filename), None)
            rec = {"expr": exprs[keep[st.line - first]], "exc": type(e).__name__, "func": inner.name if inner else None,
                   "file": os.path.basename(inner.filename) if inner else None, "msg": str(e)[:200], "found_by": "direct call"}
            mech = (rec["exc"], rec["func"])
            if mech not in confirmed:
                one = _mypyc_ir(head + [lines[st.line - 1]])
                confirmed[mech] = bool(one.get("fail") and one["fail"].get("kind") == "crash")
                rec["real_ir_build"] = one.get("fail")
            rec["confirmed_by_real_ir_build"] = confirmed[mech]
            crashed.append(rec)
            drop.add(st.line)
    if drop:
        kept_lines = [ln for k, ln in enumerate(lines, 1) if k not in drop]
        kept_idx = [keep[k - first] for k in range(first, len(lines) + 1) if k not in drop]
        tc = _mypyc_typecheck(kept_lines)
        if tc["fail"]:
            return {"fail": tc["fail"], "crashed": crashed}
    else:
        kept_lines, kept_idx = lines, list(keep)
    rt, ns = _runtime_lines(kept_lines, first)
    ir = _mypyc_run_ir(tc["res"])
    if ir.get("fail"):
        return {"fail": ir["fail"], "crashed": crashed}
    recs = []
    for r in ir["sink"]:
        if r["who"] != "mypyc" or r["line"] < first:
            continue
        ev = _eval_span(kept_lines, r, ns)
        if ev == "?span":
            continue
        i = kept_idx[r["line"] - first]
        recs.append({"src": ev["src"], "rt": ev["val"], "fold": r["val"], "line_expr": exprs[i],
                     "outer": r["col"] == len(f"X{i}: Final = ")})
    return {"records": recs, "ir_errors": ir["ir_errors"], "fail": None, "crashed": crashed}
