"""C08 pool tasks: evaluate the lattice laws on the REAL mypy functions over types read back from a real build.

Everything that decides a verdict is a return value of /repo's `is_subtype`, `is_proper_subtype`,
`join_types`, `meet_types`, `make_simplified_union`.  The laws are icontract postconditions on those
functions (fallback: a local decorator with the same semantics); `is_subtype`/`is_proper_subtype` go through
recording wrappers.  No mypy type is constructed here except `UnionType(items)` (the "plain union" the
property compares the simplified union with).
"""

from __future__ import annotations

import hashlib
import inspect
import os
import random
import sys
from typing import Any, Callable

from vlib import common

# --- contracts ----------------------------------------------------------------------------------------

try:
    if common.DEPS_DIR not in sys.path:
        sys.path.append(common.DEPS_DIR)  # END of sys.path: nothing of /venv is shadowed
    import icontract  # type: ignore[import-not-found]

    def ensure(cond: Callable[..., bool], description: str, error: Callable[..., Exception]) -> Callable[[Any], Any]:
        return icontract.ensure(cond, description=description, error=error)  # type: ignore[no-any-return]

    CONTRACT_IMPL = "icontract " + getattr(icontract, "__version__", "?")
except Exception:  # pragma: no cover - offline fallback with the same semantics
    CONTRACT_IMPL = "local-fallback"

    def ensure(cond: Callable[..., bool], description: str, error: Callable[..., Exception]) -> Callable[[Any], Any]:
        def deco(fn: Any) -> Any:
            sig = inspect.signature(fn)
            want = list(inspect.signature(cond).parameters)
            ewant = list(inspect.signature(error).parameters)

            def wrapper(*a: Any, **kw: Any) -> Any:
                result = fn(*a, **kw)
                ba = sig.bind(*a, **kw)
                ba.apply_defaults()
                env = dict(ba.arguments)
                env["result"] = result
                if not cond(**{k: env[k] for k in want}):
                    raise error(**{k: env[k] for k in ewant})
                return result
            wrapper.__wrapped__ = fn  # type: ignore[attr-defined]
            return wrapper
        return deco


class LawViolation(Exception):
    def __init__(self, law: str, result: Any) -> None:
        super().__init__(law)
        self.law = law
        self.result = result


class _M:
    """Lazily bound real functions + their contract-carrying versions (bound at first use in this process)."""
    ready = False
    n_oracle = 0      # evaluations of a law condition
    n_queries = 0     # recorded is_subtype / is_proper_subtype top-level calls


def _bind() -> None:
    if _M.ready:
        return
    from mypy import join, meet, subtypes, typeops
    from mypy.typestate import type_state
    from mypy.types import UnionType

    _M.type_state = type_state
    real_sub = subtypes.is_subtype
    real_psub = subtypes.is_proper_subtype

    def rec_sub(s: Any, t: Any, **kw: Any) -> bool:
        _M.n_queries += 1
        return bool(real_sub(s, t, **kw))

    def rec_psub(s: Any, t: Any, **kw: Any) -> bool:
        _M.n_queries += 1
        return bool(real_psub(s, t, **kw))

    _M.sub = rec_sub
    _M.psub = rec_psub

    def le(a: Any, b: Any) -> bool:
        _M.n_oracle += 1
        return bool(real_sub(a, b))

    def law_chain(fn: Any, laws: list[tuple[str, Callable[..., bool]]]) -> dict[str, Any]:
        """fn with every law attached, plus fn with each single law (used only after a failure so that one
        failing postcondition does not hide the next)."""
        def attach(f: Any, name: str, cond: Callable[..., bool]) -> Any:
            def mk(result: Any) -> Exception:
                return LawViolation(name, result)
            return ensure(cond, name, mk)(f)
        full = fn
        for name, cond in reversed(laws):
            full = attach(full, name, cond)
        return {"all": full, "each": {name: attach(fn, name, cond) for name, cond in laws}, "names": [n for n, _ in laws]}

    _M.join = law_chain(join.join_types, [
        ("join-ub-left", lambda s, t, result: le(s, result)),
        ("join-ub-right", lambda s, t, result: le(t, result)),
    ])
    _M.meet = law_chain(meet.meet_types, [
        ("meet-lb-left", lambda s, t, result: le(result, s)),
        ("meet-lb-right", lambda s, t, result: le(result, t)),
    ])
    _M.union = law_chain(typeops.make_simplified_union, [
        ("union-simplified-le-plain", lambda items, result: le(result, UnionType(list(items)))),
        ("union-plain-le-simplified", lambda items, result: le(UnionType(list(items)), result)),
    ])
    _M.ready = True


def _call_laws(chain: dict[str, Any], *args: Any) -> tuple[Any, list[tuple[str, Any]]]:
    """Call the contract-carrying real function; return (result, [(failed law, result)...])."""
    try:
        return chain["all"](*args), []
    except LawViolation as v:
        failed = [(v.law, v.result)]
        res = v.result
        for name in chain["names"]:
            if name == v.law:
                continue
            try:
                chain["each"][name](*args)
            except LawViolation as v2:
                failed.append((v2.law, v2.result))
        return res, failed


# --- universe ---------------------------------------------------------------------------------------------

class Universe:
    def __init__(self) -> None:
        self.types: list[Any] = []      # index = type id; None = excluded (source line had an error)
        self.names: list[str] = []
        self.exprs: list[str] = []
        self.n1 = 0
        self.errors: list[str] = []


_UNIVERSES: dict[str, Universe] = {}


def _load(src_dir: str) -> Universe:
    u = _UNIVERSES.get(src_dir)
    if u is not None:
        return u
    import json
    import re

    from mypy import build
    from mypy.modulefinder import BuildSource
    from mypy.nodes import Decorator, FuncDef, OverloadedFuncDef, Var
    from mypy.options import Options

    from vlib import c08_universe as U

    _bind()
    options = Options()
    options.python_version = (3, 12)
    options.incremental = False
    options.cache_dir = os.devnull
    options.allow_empty_bodies = True
    options.show_traceback = True
    options.error_summary = False
    srcs = [BuildSource(os.path.join(src_dir, "u.py"), "u", None)]
    has_deep = os.path.exists(os.path.join(src_dir, "deep.py"))
    if has_deep:
        srcs.append(BuildSource(os.path.join(src_dir, "deep.py"), "deep", None))
    old = os.getcwd()
    os.chdir(src_dir)
    try:
        res = build.build(sources=srcs, options=options)
    finally:
        os.chdir(old)
    u = Universe()
    u.errors = list(res.errors)
    bad_deep_lines: set[int] = set()
    for e in res.errors:
        m = re.match(r"^(?:.*/)?(u|deep)\.py:(\d+)", e)
        if m and m.group(1) == "deep" and ": error:" in e:
            bad_deep_lines.add(int(m.group(2)))
        elif ": error:" in e:
            raise RuntimeError("universe module does not type-check: " + e)
    names = res.files["u"].names

    def node_type(sym: Any) -> Any:
        n = sym.node
        if isinstance(n, Var):
            return n.type
        if isinstance(n, (FuncDef, OverloadedFuncDef)):
            return n.type
        if isinstance(n, Decorator):
            return n.var.type
        raise RuntimeError(f"unexpected symbol node {n!r}")

    for nm in U.universe_names():
        if nm.startswith("tv_"):
            ft = names["tv_scope"].node.type
            t = ft.arg_types[ft.arg_names.index(nm)]
        elif nm.startswith("obj_"):
            tup = names["objs"].node.type
            t = tup.items[U.OBJS.index(nm[4:])]
        else:
            t = node_type(names[nm])
        if t is None:
            raise RuntimeError(f"no type for {nm}")
        u.types.append(t)
        u.names.append(nm)
    u.n1 = len(u.types)
    if has_deep:
        with open(os.path.join(src_dir, "deep.json")) as f:
            exprs = json.load(f)
        dnames = res.files["deep"].names
        scope = dnames["deep_scope"].node.type
        lines = open(os.path.join(src_dir, "deep.py")).read().splitlines()
        line_of = {}
        for ln, text in enumerate(lines, 1):
            m = re.match(r"^\s*d_(\d+):", text)
            if m:
                line_of[int(m.group(1))] = ln
        for i, (e, tv) in enumerate(exprs):
            nm = f"d_{i}"
            if line_of.get(i) in bad_deep_lines:
                t = None
            elif tv:
                t = scope.arg_types[scope.arg_names.index(nm)]
            else:
                t = dnames[nm].node.type
            u.types.append(t)
            u.names.append(nm)
    _UNIVERSES[src_dir] = u
    return u


# --- descriptions (kinds, Any-freeness) ---------------------------------------------------------------------

def kind(t: Any) -> str:
    """Coarse kind of a type: ProperType subclass refined where mypy's visitors branch on it."""
    from mypy import types as T
    if isinstance(t, T.TypeAliasType):
        if t.is_recursive:
            return "RecAlias"
        t = T.get_proper_type(t)
    if isinstance(t, T.AnyType):
        return "Any"
    if isinstance(t, T.NoneType):
        return "None"
    if isinstance(t, T.UninhabitedType):
        return "Never"
    if isinstance(t, T.Instance):
        if t.last_known_value is not None:
            return "Instance?"
        if t.type.fullname == "builtins.object":
            return "object"
        if t.type.fullname == "builtins.type":
            return "type"
        if t.type.is_protocol:
            return "Protocol"
        if t.type.is_enum:
            return "Enum"
        return "Instance"
    if isinstance(t, T.TupleType):
        if t.partial_fallback.type.fullname != "builtins.tuple":
            return "NamedTuple"
        if any(isinstance(i, T.UnpackType) for i in t.items):
            return "TupleVar"
        return "Tuple"
    if isinstance(t, T.CallableType):
        if t.is_type_obj():
            return "TypeObj"
        if t.param_spec() is not None:
            return "CallableP"
        if t.variables:
            return "GenericCallable"
        if t.is_ellipsis_args:
            return "Callable..."
        return "Callable"
    if isinstance(t, T.Overloaded):
        return "Overloaded"
    if isinstance(t, T.TypedDictType):
        return "TypedDict"
    if isinstance(t, T.LiteralType):
        return "Literal"
    if isinstance(t, T.TypeType):
        return "TypeType"
    if isinstance(t, T.UnionType):
        return "Union"
    if isinstance(t, T.TypeVarType):
        return "TypeVarValues" if t.values else "TypeVar"
    if isinstance(t, T.ParamSpecType):
        return "ParamSpec"
    if isinstance(t, T.TypeVarTupleType):
        return "TypeVarTuple"
    return type(t).__name__


_ANYQ: Any = None


def contains_any(t: Any) -> bool:
    """Does the type contain Any (explicitly, through `...` parameters, a bare `tuple`/`type`, or a class whose
    MRO falls back to Any)?  Guard for transitivity only; uses mypy's own BoolTypeQuery traversal."""
    global _ANYQ
    if _ANYQ is None:
        from mypy import types as T
        from mypy.type_visitor import ANY_STRATEGY, BoolTypeQuery

        class Q(BoolTypeQuery):
            def __init__(self) -> None:
                super().__init__(ANY_STRATEGY)

            def visit_any(self, t: Any) -> bool:
                return True

            def visit_instance(self, t: Any) -> bool:
                if t.type.fallback_to_any or t.type.fullname == "builtins.type":
                    return True   # typing spec: bare `type` means type[Any]
                return self.query_types(t.args)

            def visit_type_var(self, t: Any) -> bool:   # the implicit default of a TypeVar is an Any: not "contained"
                return self.query_types([t.upper_bound, *t.values])

            def visit_param_spec(self, t: Any) -> bool:
                return self.query_types(t.prefix.arg_types)

            def visit_type_var_tuple(self, t: Any) -> bool:
                return False

            def visit_tuple_type(self, t: Any) -> bool:
                # the partial fallback of a plain tuple is tuple[Any, ...] by construction: not "contained"
                fb = [] if t.partial_fallback.type.fullname == "builtins.tuple" else [t.partial_fallback]
                return self.query_types([*t.items, *fb])

            def visit_typeddict_type(self, t: Any) -> bool:
                return self.query_types(list(t.items.values()))

        _ANYQ = Q
    return bool(t.accept(_ANYQ()))


def components(t: Any) -> list[Any]:
    """Immediate component types (for witness shrinking). Unpack[...] is not a type of its own: it is replaced by
    the item type of the variadic part, or dropped."""
    from mypy import types as T
    out = []
    for c in _components(t):
        if isinstance(c, T.UnpackType):
            inner = T.get_proper_type(c.type)
            if isinstance(inner, T.Instance) and inner.type.fullname == "builtins.tuple" and inner.args:
                out.append(inner.args[0])
            continue
        if isinstance(c, (T.TypeVarTupleType, T.ParamSpecType, T.Parameters)):
            continue
        out.append(c)
    return out


def _components(t: Any) -> list[Any]:
    from mypy import types as T
    if isinstance(t, T.TypeAliasType):
        return [T.get_proper_type(t)]
    if isinstance(t, T.Instance):
        return list(t.args) + ([t.last_known_value] if t.last_known_value is not None else [])
    if isinstance(t, T.TupleType):
        return list(t.items) + ([] if t.partial_fallback.type.fullname == "builtins.tuple" else [t.partial_fallback])
    if isinstance(t, T.UnpackType):
        return [t.type]
    if isinstance(t, T.CallableType):
        return list(t.arg_types) + [t.ret_type]
    if isinstance(t, T.Overloaded):
        return list(t.items)
    if isinstance(t, T.TypedDictType):
        return list(t.items.values()) + [t.fallback]
    if isinstance(t, T.LiteralType):
        return [t.fallback]
    if isinstance(t, T.TypeType):
        return [t.item]
    if isinstance(t, T.UnionType):
        return list(t.items)
    if isinstance(t, T.TypeVarType):
        return [t.upper_bound, *t.values]
    return []


def describe(src_dir: str) -> dict[str, Any]:
    u = _load(src_dir)
    out = []
    for t in u.types:
        if t is None:
            out.append(None)
        else:
            out.append({"k": kind(t), "any": contains_any(t), "s": str(t)})
    return {"n1": u.n1, "types": out, "names": u.names, "errors": u.errors[:20], "contracts": CONTRACT_IMPL}


# --- law evaluation ---------------------------------------------------------------------------------------

SUB_FLAGS: list[dict[str, bool]] = [
    {"ignore_promotions": True}, {"ignore_type_params": True}, {"ignore_pos_arg_names": True},
    {"ignore_declared_variance": True}, {"always_covariant": True},
]
PSUB_FLAGS: list[dict[str, bool]] = [{"ignore_promotions": True}, {"erase_instances": True}, {"keep_erased_types": True}]


def _h(x: Any) -> str:
    return hashlib.sha1(str(x).encode("utf-8", "replace")).hexdigest()[:8]


# names of the answer components of one ordered pair, in the order they appear in the answer string
COMPONENTS = (["is_subtype", "is_proper_subtype"]
              + ["is_subtype[" + ",".join(f) + "]" for f in SUB_FLAGS]
              + ["is_proper_subtype[" + ",".join(f) + "]" for f in PSUB_FLAGS]
              + ["join_types", "meet_types", "make_simplified_union"])


def diff_components(a: str, b: str, flags: bool = True) -> list[str]:
    """Which answers differ between two answer strings of the same pair."""
    ba, *ha = a.split(":")
    bb, *hb = b.split(":")
    names = COMPONENTS if flags else COMPONENTS[:2] + COMPONENTS[-3:]
    nb = len(names) - 3
    out = [names[k] for k in range(min(len(ba), len(bb), nb)) if ba[k] != bb[k]]
    out += [names[nb + k] for k in range(3) if k < len(ha) and k < len(hb) and ha[k] != hb[k]]
    return out or ["?"]


def _stack_state() -> str | None:
    ts = _M.type_state
    if ts._assuming or ts._assuming_proper or ts.inferring:
        return f"assuming={len(ts._assuming)} proper={len(ts._assuming_proper)} inferring={len(ts.inferring)}"
    return None


def _eval_pair(s: Any, t: Any, cold: bool, flags: bool, full: bool = False) -> tuple[str, list[dict[str, Any]], dict[str, Any]]:
    """All queries of one ordered pair. cold=True: subtype caches are emptied before every query."""
    reset = _M.type_state.reset_all_subtype_caches
    viol: list[dict[str, Any]] = []
    bits = []
    if cold:
        reset()
    sub = _M.sub(s, t)
    if cold:
        reset()
    psub = _M.psub(s, t)
    bits.append("1" if sub else "0")
    bits.append("1" if psub else "0")
    _M.n_oracle += 1
    if psub and not sub:
        viol.append({"law": "proper-implies-subtype"})
    if flags:
        for fl in SUB_FLAGS:
            if cold:
                reset()
            bits.append("1" if _M.sub(s, t, **fl) else "0")
        for fl in PSUB_FLAGS:
            if cold:
                reset()
            bits.append("1" if _M.psub(s, t, **fl) else "0")
    if cold:
        reset()
    j, f1 = _call_laws(_M.join, s, t)
    if cold:
        reset()
    m, f2 = _call_laws(_M.meet, s, t)
    if cold:
        reset()
    un, f3 = _call_laws(_M.union, [s, t])
    for law, res in f1 + f2 + f3:
        viol.append({"law": law, "result": str(res)})
    st = _stack_state()
    if st:
        viol.append({"law": "assumption-stack-not-empty", "result": st})
        del _M.type_state._assuming[:], _M.type_state._assuming_proper[:], _M.type_state.inferring[:]
    det = {}
    if full:
        det = {c: (b == "1") for c, b in zip(COMPONENTS if flags else COMPONENTS[:2], bits)}
        det.update({"join_types": str(j), "meet_types": str(m), "make_simplified_union": str(un)})
    return "".join(bits) + ":" + _h(j) + ":" + _h(m) + ":" + _h(un), viol, det


class _Findings:
    """Violations of one task, classified where they are observed: key -> count + a few full witnesses."""

    def __init__(self, u: Universe, per_key: int = 3) -> None:
        self.u = u
        self.per_key = per_key
        self.by_key: dict[str, dict[str, Any]] = {}
        self.memo: dict[tuple[Any, ...], str] = {}

    def add(self, law: str, ids: list[int], phase: str, observed: Any = None) -> None:
        u = self.u
        mk = (law, *ids)
        if mk in self.memo:
            self.by_key[self.memo[mk]]["n"] += 1
            return
        ts = [u.types[i] for i in ids]
        if law == "assumption-stack-not-empty":
            w: dict[str, Any] = {"law": law, "ids": ids, "names": [u.names[i] for i in ids], "types": [str(t) for t in ts],
                                 "kinds": [kind(t) for t in ts], "observed": observed}
            key = "assumption-stack-not-empty:" + "x".join(kfold(kind(t)) for t in ts)
        else:
            w = explain_types(law, ts, ids=ids, names=[u.names[i] for i in ids])
            if w["fails_in_isolation"]:
                key = w["key"]
            else:
                # the law failed in the observed cache state but holds with empty caches
                key = f"cache-dependence:law-outcome({family(law)}):" + "x".join(kfold(kind(t)) for t in ts)
                w["observed_in_sequence"] = observed
        w["phase"] = phase
        self.memo[mk] = key
        e = self.by_key.setdefault(key, {"n": 0, "examples": []})
        e["n"] += 1
        if len(e["examples"]) < self.per_key:
            e["examples"].append(w)

    def out(self) -> dict[str, Any]:
        return self.by_key


def eval_pairs(src_dir: str, pairs: list[list[int]] | None = None, rows: list[int] | None = None,
               cols: list[int] | None = None, by_cols: bool = False, order_seed: int = 0, flags: bool = True,
               cold: bool = True, refl: bool = False) -> dict[str, Any]:
    """Evaluate every law on the given ordered pairs (explicit list, or rows x cols; by_cols transposes the walk).

    Pass 1 ("warm"): queries in the order given by order_seed; caches are emptied once at the start of the task and
    then left as the query sequence leaves them.  Pass 2 ("cold", optional): caches emptied before every query.
    Returns the compact warm answers aligned with `pairs` (the parent compares them with the same pairs evaluated by
    another task in another order), the warm/cold differences, and the classified law violations."""
    u = _load(src_dir)
    if pairs is None:
        assert rows is not None
        cs = cols if cols is not None else list(range(u.n1))
        pairs = [[j, i] for i in rows for j in cs] if by_cols else [[i, j] for i in rows for j in cs]
    live = [k for k, p in enumerate(pairs) if u.types[p[0]] is not None and u.types[p[1]] is not None]
    order = list(live)
    if order_seed:
        random.Random(order_seed).shuffle(order)
    _M.type_state.reset_all_subtype_caches()
    n0, q0 = _M.n_oracle, _M.n_queries
    ans: list[str | None] = [None] * len(pairs)
    fnd = _Findings(u)
    seen_v: set[tuple[Any, ...]] = set()
    for k in order:
        i, j = pairs[k]
        a, vs, _ = _eval_pair(u.types[i], u.types[j], cold=False, flags=flags)
        ans[k] = a
        for v in vs:
            fnd.add(v["law"], [i, j], "warm", v.get("result"))
            seen_v.add((v["law"], i, j))
        if refl and i == j:
            _M.n_oracle += 1
            if not a.startswith("1"):
                fnd.add("reflexivity", [i], "warm")
    cachediff: list[dict[str, Any]] = []
    if cold:
        for k in order:
            i, j = pairs[k]
            a, vs, _ = _eval_pair(u.types[i], u.types[j], cold=True, flags=flags)
            _M.n_oracle += 1
            if a != ans[k]:
                cachediff.append({"pair": [i, j], "warm": ans[k], "cold": a, "components": diff_components(ans[k] or "", a, flags),
                                  "kinds": [kind(u.types[i]), kind(u.types[j])]})
            for v in vs:
                if (v["law"], i, j) not in seen_v:
                    fnd.add(v["law"], [i, j], "cold", v.get("result"))
    return {"n_pairs": len(live), "oracle": _M.n_oracle - n0, "queries": _M.n_queries - q0, "ans": ans,
            "pairs": pairs if rows is not None else None, "findings": fnd.out(), "cachediff": cachediff[:50],
            "n_cachediff": len(cachediff)}


def sub_rows(src_dir: str, rows: list[int], space: list[int]) -> dict[str, Any]:
    """is_subtype(row, col) for every col in space, as one hex bitset per row (bit k = space[k])."""
    u = _load(src_dir)
    _M.type_state.reset_all_subtype_caches()
    q0 = _M.n_queries
    out: dict[str, str] = {}
    for i in rows:
        s = u.types[i]
        if s is None:
            continue
        bits = 0
        for k, j in enumerate(space):
            t = u.types[j]
            if t is not None and _M.sub(s, t):
                bits |= 1 << k
        out[str(i)] = format(bits, "x")
    return {"rows": out, "queries": _M.n_queries - q0}


def eval_triples(src_dir: str, triples: list[list[int]]) -> dict[str, Any]:
    """make_simplified_union on every permutation of each triple of items: each result must be equivalent
    (mutual is_subtype) to the plain UnionType(items)."""
    import itertools
    u = _load(src_dir)
    _M.type_state.reset_all_subtype_caches()
    n0 = _M.n_oracle
    fnd = _Findings(u)
    n = 0
    order_sensitive = 0
    for tr in triples:
        ts = [u.types[i] for i in tr]
        if any(t is None for t in ts):
            continue
        n += 1
        results = set()
        for perm in itertools.permutations(range(3)):
            items = [ts[p] for p in perm]
            res, failed = _call_laws(_M.union, items)
            results.add(str(res))
            for law, r in failed:
                fnd.add(law, [tr[p] for p in perm], "warm", str(r))
        if len(results) > 1:
            order_sensitive += 1
        st = _stack_state()
        if st:
            fnd.add("assumption-stack-not-empty", list(tr), "warm", st)
            del _M.type_state._assuming[:], _M.type_state._assuming_proper[:], _M.type_state.inferring[:]
    return {"n": n, "oracle": _M.n_oracle - n0, "findings": fnd.out(), "order_sensitive_repr": order_sensitive}


def show_pairs(src_dir: str, pairs: list[list[int]]) -> list[dict[str, Any]]:
    """Written-out answers of a few pairs (evidence samples)."""
    u = _load(src_dir)
    out = []
    for i, j in pairs:
        if u.types[i] is None or u.types[j] is None:
            continue
        _M.type_state.reset_all_subtype_caches()
        _, vs, d = _eval_pair(u.types[i], u.types[j], cold=False, flags=False, full=True)
        out.append({"s": str(u.types[i]), "t": str(u.types[j]), **d, "laws_failed": [v["law"] for v in vs]})
    return out


def explain_many(src_dir: str, law: str, cases: list[list[int]]) -> dict[str, Any]:
    """Classify violations found by the parent over recorded answers (transitivity over the subtype matrix)."""
    u = _load(src_dir)
    fnd = _Findings(u)
    not_confirmed = 0
    for ids in cases:
        before = sum(e["n"] for e in fnd.by_key.values())
        w = _check_law(law, [u.types[i] for i in ids])
        if w is None:
            not_confirmed += 1
            continue
        fnd.add(law, list(ids), "recorded")
        assert sum(e["n"] for e in fnd.by_key.values()) == before + 1
    return {"findings": fnd.out(), "not_confirmed": not_confirmed}


# --- witnesses: re-evaluate one case in isolation, shrink it, classify it -------------------------------------

def _check_law(law: str, ts: list[Any]) -> dict[str, Any] | None:
    """Re-evaluate one law instance on explicit types with empty caches. Returns a witness dict when it FAILS."""
    from mypy.types import UnionType
    _bind()
    _M.type_state.reset_all_subtype_caches()
    sub, psub = _M.sub, _M.psub
    if law == "reflexivity":
        return None if sub(ts[0], ts[0]) else {"is_subtype(s,s)": False}
    if law == "proper-implies-subtype":
        p, q = psub(ts[0], ts[1]), sub(ts[0], ts[1])
        return {"is_proper_subtype(s,t)": p, "is_subtype(s,t)": q} if (p and not q) else None
    if law == "transitivity":
        a, b, c = sub(ts[0], ts[1]), sub(ts[1], ts[2]), sub(ts[0], ts[2])
        if a and b and not c and not any(contains_any(x) for x in ts):
            return {"is_subtype(s,t)": a, "is_subtype(t,u)": b, "is_subtype(s,u)": c}
        return None
    if law.startswith("join-"):
        from mypy.join import join_types
        r = join_types(ts[0], ts[1])
        ok = sub(ts[0], r) if law == "join-ub-left" else sub(ts[1], r)
        return None if ok else {"join_types(s,t)": str(r), "result_kind": kind(r)}
    if law.startswith("meet-"):
        from mypy.meet import meet_types
        r = meet_types(ts[0], ts[1])
        ok = sub(r, ts[0]) if law == "meet-lb-left" else sub(r, ts[1])
        return None if ok else {"meet_types(s,t)": str(r), "result_kind": kind(r)}
    if law.startswith("union-"):
        from mypy.typeops import make_simplified_union
        r = make_simplified_union(list(ts))
        plain = UnionType(list(ts))
        ok = sub(r, plain) if law == "union-simplified-le-plain" else sub(plain, r)
        return None if ok else {"make_simplified_union(items)": str(r), "plain": str(plain), "result_kind": kind(r)}
    return None


FAMILIES = {"join-ub": ["join-ub-left", "join-ub-right"], "meet-lb": ["meet-lb-left", "meet-lb-right"],
            "union-equiv": ["union-simplified-le-plain", "union-plain-le-simplified"]}


def family(law: str) -> str:
    for fam, laws in FAMILIES.items():
        if law in laws:
            return fam
    return law


def _check_family(fam: str, ts: list[Any]) -> tuple[str, list[Any], dict[str, Any]] | None:
    """First failing (law, ordered types, observation) among the laws of a family in both argument orders."""
    laws = FAMILIES.get(fam, [fam])
    orders = [list(ts)]
    if fam in FAMILIES and len(ts) == 2 and ts[0] is not ts[1]:
        orders.append([ts[1], ts[0]])
    for o in orders:
        for law in laws:
            try:
                w = _check_law(law, o)
            except Exception:
                continue
            if w is not None:
                return law, o, w
    return None


def _shrink(law: str, ts: list[Any], budget: int = 300) -> tuple[str, list[Any]]:
    """Greedy structural shrinking: replace one type by one of its components (or both at once) while some law of
    the same family still fails (the failing side/order may flip on the way down)."""
    fam = family(law)
    cur_law, cur = law, list(ts)
    r0 = _check_family(fam, cur)
    if r0 is not None:
        cur_law, cur = r0[0], r0[1]
    dual = {"join-ub": "meet-lb", "meet-lb": "join-ub"}
    n = 0
    progress = True
    while progress and n < budget:
        progress = False
        cands: list[list[Any]] = []
        for pos in range(len(cur)):
            for c in components(cur[pos]):
                cand = list(cur)
                cand[pos] = c
                cands.append(cand)
        if len(cur) == 2:
            cands += [[c0, c1] for c0 in components(cur[0]) for c1 in components(cur[1])]
        elif len(cur) == 3:
            comps = [components(c) for c in cur]
            if len({len(c) for c in comps}) == 1:
                # same shape (e.g. G[X] <= G[Y] <= G[Z]): descend position-wise in all three at once
                cands += [[comps[0][k], comps[1][k], comps[2][k]] for k in range(len(comps[0]))]
            cands += [[c0, cur[1], c2] for c0 in comps[0] for c2 in comps[2]]
        for cand in cands:
            n += 1
            r = _check_family(fam, cand)
            if r is None and fam in dual and len(cand) == 2:
                # a join of composites is built from meets of components (contravariant positions) and vice versa
                r = _check_family(dual[fam], cand)
            if r is not None:
                cur_law, cur = r[0], r[1]
                fam = family(cur_law)
                progress = True
                break
    return cur_law, cur


def kfold(k: str) -> str:
    """Kinds as used in mechanism keys: the callable refinements are folded (they stay apart in coverage cells)."""
    return "Callable" if k in ("Callable...", "CallableP", "GenericCallable") else k


_NEVERQ: Any = None


def _contains_never(t: Any) -> bool:
    global _NEVERQ
    if _NEVERQ is None:
        from mypy.type_visitor import ANY_STRATEGY, BoolTypeQuery

        class Q(BoolTypeQuery):
            def __init__(self) -> None:
                super().__init__(ANY_STRATEGY)

            def visit_uninhabited_type(self, t: Any) -> bool:
                return True

            def visit_type_var(self, t: Any) -> bool:
                return False
        _NEVERQ = Q
    return bool(t.accept(_NEVERQ()))


def _callable_shape(c: Any) -> list[tuple[str, str | None]]:
    return [(k.name, None if k.is_star() else n) for k, n in zip(c.arg_kinds, c.arg_names)]


def detail(law: str, ts: list[Any]) -> str:
    """Sub-mechanism of a (shrunk) witness, derived from the inputs and the real function's result only."""
    from mypy import types as T
    ps = [T.get_proper_type(t) for t in ts]
    fam = family(law)
    bits: list[str] = []
    if fam in ("join-ub", "meet-lb") and len(ps) == 2:
        from mypy.join import join_types
        from mypy.meet import meet_types
        res = T.get_proper_type(join_types(ts[0], ts[1]) if fam == "join-ub" else meet_types(ts[0], ts[1]))
        rk = kind(res)
        fbs = [getattr(p, "fallback", None) for p in ps if isinstance(p, T.FunctionLike)]
        if isinstance(res, T.Instance) and any(fb is not None and (res == fb or res.type.has_base(fb.type.fullname)
                                                                   or fb.type.has_base(res.type.fullname)) for fb in fbs):
            rk = "fallback-instance"
        elif isinstance(res, T.UninhabitedType):
            rk = "Never"
        bits.append("->" + rk)
        if (fam == "meet-lb" and all(isinstance(p, T.Instance) for p in ps) and isinstance(res, T.Instance) and res.args
                and any(isinstance(T.get_proper_type(a), T.UninhabitedType) for a in res.args)
                and not any(isinstance(T.get_proper_type(a), T.UninhabitedType) for p in ps for a in p.args)):  # type: ignore[union-attr]
            bits.append("argument-met-to-Never")   # G[X] ^ G[Y] = G[Never] for an invariant parameter: not below G[X]
        if all(isinstance(p, T.CallableType) for p in ps) and isinstance(res, T.CallableType):
            a, b = _callable_shape(ps[0]), _callable_shape(ps[1])
            if [k for k, _ in a] != [k for k, _ in b]:
                bits.append("arg-kinds-differ")
            elif [n for _, n in a] != [n for _, n in b]:
                bits.append("arg-names-differ")
        # which side(s) the result fails against, over both laws and both argument orders
        against: set[str] = set()
        for o in ([ts[0], ts[1]], [ts[1], ts[0]]):
            for which, law_name in enumerate(FAMILIES[fam]):
                try:
                    if _check_law(law_name, o) is not None:
                        against.add(kfold(kind(o[which])))
                except Exception:
                    pass
        bits.append("not-" + ("ge" if fam == "join-ub" else "le") + "(" + ",".join(sorted(against)) + ")")
    elif fam == "union-equiv":
        from mypy.typeops import make_simplified_union
        res = make_simplified_union(list(ts))
        if law == "union-plain-le-simplified":
            # which items of the plain union are not covered by the simplified result
            lost = sorted({kfold(kind(t)) for t in ts if not _M.sub(t, res)})
            bits.append("lost=" + ",".join(lost) + ":result=" + kfold(kind(res)))
        else:
            bits.append("result=" + kfold(kind(res)) + ":items=" + ",".join(sorted({kfold(kind(t)) for t in ts})))
    return ":".join(bits)


def make_key(law: str, ts: list[Any], det: str) -> str:
    """Mechanism key = law family x kinds of the SHRUNK witness x sub-mechanism (never ids, names or hashes)."""
    from mypy import types as T
    fam = family(law)
    ks = [kfold(kind(t)) for t in ts]
    if "arg-kinds-differ" in det or "arg-names-differ" in det:
        # a callable-shape mechanism: whether a side is a class's type object is incidental
        ks = ["Callable" if isinstance(T.get_proper_type(t), T.CallableType) else k for k, t in zip(ks, ts)]
        det = det.replace("TypeObj", "Callable").replace("(Callable,Callable)", "(Callable)")
    if fam == "transitivity":
        return "transitivity:" + "<=".join(ks)
    if fam in FAMILIES:
        ks = sorted(ks)
    tail = (det if det.startswith("->") else ":" + det) if det else ""
    if fam == "union-equiv":
        which = "simplified-not-le-plain" if law == "union-simplified-le-plain" else "plain-not-le-simplified"
        return f"union-equiv:{which}{tail}"
    return f"{fam}:{'x'.join(ks)}{tail}"


def explain(src_dir: str, law: str, ids: list[int], shrink: bool = True) -> dict[str, Any]:
    """Self-contained witness for one (law, type ids): fresh evaluation, shrunk types, kinds."""
    u = _load(src_dir)
    ts = [u.types[i] for i in ids]
    return explain_types(law, ts, ids=ids, names=[u.names[i] for i in ids], shrink=shrink)


def explain_types(law: str, ts: list[Any], ids: list[int] | None = None, names: list[str] | None = None,
                  shrink: bool = True) -> dict[str, Any]:
    w = _check_law(law, ts)
    out: dict[str, Any] = {"law": law, "ids": ids, "names": names, "types": [str(t) for t in ts],
                           "kinds": [kind(t) for t in ts], "fails_in_isolation": w is not None, "observed": w}
    if w is not None and shrink:
        start = list(ts)
        if family(law) in FAMILIES and len(ts) == 2 and str(ts[1]) < str(ts[0]):
            start = [ts[1], ts[0]]   # canonical start: (s,t) and (t,s) shrink to the same witness
        mlaw, small = _shrink(law, start)
        out["min_law"] = mlaw
        out["min_types"] = [str(t) for t in small]
        out["min_kinds"] = [kind(t) for t in small]
        out["min_observed"] = _check_law(mlaw, small)
        out["min_detail"] = detail(mlaw, small)
        out["key"] = make_key(mlaw, small, out["min_detail"])
    return out
