"""C08 pool tasks: evaluate the lattice laws on the REAL mypy functions over types read back from a real build.

Everything that decides a verdict is a return value of /repo's `is_subtype`, `is_proper_subtype`,
`join_types`, `meet_types`, `make_simplified_union`.  The laws are icontract postconditions on those
functions (fallback: a local decorator with the same semantics); `is_subtype`/`is_proper_subtype` go through
recording wrappers.  No mypy type is constructed here except `UnionType(items)` (the "plain union" the
property compares the simplified union with).
"""

from __future__ import annotations

import hashlib
import inspect
import os
import random
import sys
from typing import Any, Callable

from vlib import common

# --- contracts ----------------------------------------------------------------------------------------

try:
    if common.DEPS_DIR not in sys.path:
        sys.path.append(common.DEPS_DIR)  # END of sys.path: nothing of /venv is shadowed
    import icontract  # type: ignore[import-not-found]

    def ensure(cond: Callable[..., bool], description: str, error: Callable[..., Exception]) -> Callable[[Any], Any]:
        return icontract.ensure(cond, description=description, error=error)  # type: ignore[no-any-return]

    CONTRACT_IMPL = "icontract " + getattr(icontract, "__version__", "?")
except Exception:  # pragma: no cover - offline fallback with the same semantics
    CONTRACT_IMPL = "local-fallback"

    def ensure(cond: Callable[..., bool], description: str, error: Callable[..., Exception]) -> Callable[[Any], Any]:
        def deco(fn: Any) -> Any:
            sig = inspect.signature(fn)
            want = list(inspect.signature(cond).parameters)
            ewant = list(inspect.signature(error).parameters)

            def wrapper(*a: Any, **kw: Any) -> Any:
                result = fn(*a, **kw)
                ba = sig.bind(*a, **kw)
                ba.apply_defaults()
                env = dict(ba.arguments)
                env["result"] = result
                if not cond(**{k: env[k] for k in want}):
                    raise error(**{k: env[k] for k in ewant})
                return result
            wrapper.__wrapped__ = fn  # type: ignore[attr-defined]
            return wrapper
        return deco


class LawViolation(Exception):
    def __init__(self, law: str, result: Any) -> None:
        super().__init__(law)
        self.law = law
        self.result = result


class _M:
    """Lazily bound real functions + their contract-carrying versions (bound at first use in this process)."""
    ready = False
    n_oracle = 0      # evaluations of a law condition
    n_queries = 0     # recorded is_subtype / is_proper_subtype top-level calls


def _bind() -> None:
    if _M.ready:
        return
    from mypy import join, meet, subtypes, typeops
    from mypy.typestate import type_state
    from mypy.types import UnionType

    _M.type_state = type_state
    real_sub = subtypes.is_subtype
    real_psub = subtypes.is_proper_subtype

    def rec_sub(s: Any, t: Any, **kw: Any) -> bool:
        _M.n_queries += 1
        return bool(real_sub(s, t, **kw))

    def rec_psub(s: Any, t: Any, **kw: Any) -> bool:
        _M.n_queries += 1
        return bool(real_psub(s, t, **kw))

    _M.sub = rec_sub
    _M.psub = rec_psub

    def le(a: Any, b: Any) -> bool:
        _M.n_oracle += 1
        return bool(real_sub(a, b))

    def law_chain(fn: Any, laws: list[tuple[str, Callable[..., bool]]]) -> dict[str, Any]:
        """fn with every law attached, plus fn with each single law (used only after a failure so that one
        failing postcondition does not hide the next)."""
        def attach(f: Any, name: str, cond: Callable[..., bool]) -> Any:
            def mk(result: Any) -> Exception:
                return LawViolation(name, result)
            return ensure(cond, name, mk)(f)
        full = fn
        for name, cond in reversed(laws):
            full = attach(full, name, cond)
        return {"all": full, "each": {name: attach(fn, name, cond) for name, cond in laws}, "names": [n for n, _ in laws]}

    _M.join = law_chain(join.join_types, [
        ("join-ub-left", lambda s, t, result: le(s, result)),
        ("join-ub-right", lambda s, t, result: le(t, result)),
    ])
    _M.meet = law_chain(meet.meet_types, [
        ("meet-lb-left", lambda s, t, result: le(result, s)),
        ("meet-lb-right", lambda s, t, result: le(result, t)),
    ])
    _M.union = law_chain(typeops.make_simplified_union, [
        ("union-simplified-le-plain", lambda items, result: le(result, UnionType(list(items)))),
        ("union-plain-le-simplified", lambda items, result: le(UnionType(list(items)), result)),
    ])
    _M.ready = True


def _call_laws(chain: dict[str, Any], *args: Any) -> tuple[Any, list[tuple[str, Any]]]:
    """Call the contract-carrying real function; return (result, [(failed law, result)...])."""
    try:
        return chain["all"](*args), []
    except LawViolation as v:
        failed = [(v.law, v.result)]
        res = v.result
        for name in chain["names"]:
            if name == v.law:
                continue
            try:
                chain["each"][name](*args)
            except LawViolation as v2:
                failed.append((v2.law, v2.result))
        return res, failed


# --- universe ---------------------------------------------------------------------------------------------

class Universe:
    def __init__(self) -> None:
        self.types: list[Any] = []      # index = type id; None = excluded (source line had an error)
        self.names: list[str] = []
        self.exprs: list[str] = []
        self.n1 = 0
        self.errors: list[str] = []


_UNIVERSES: dict[str, Universe] = {}


def _load(src_dir: str) -> Universe:
    u = _UNIVERSES.get(src_dir)
    if u is not None:
        return u
    import json
    import re

    from mypy import build
    from mypy.modulefinder import BuildSource
    from mypy.nodes import Decorator, FuncDef, OverloadedFuncDef, Var
    from mypy.options import Options

    from vlib import c08_universe as U

    _bind()
    options = Options()
    options.python_version = (3, 12)
    options.incremental = False
    options.cache_dir = os.devnull
    options.allow_empty_bodies = True
    options.show_traceback = True
    options.error_summary = False
    srcs = [BuildSource(os.path.join(src_dir, "u.py"), "u", None)]
    has_deep = os.path.exists(os.path.join(src_dir, "deep.py"))
    if has_deep:
        srcs.append(BuildSource(os.path.join(src_dir, "deep.py"), "deep", None))
    old = os.getcwd()
    os.chdir(src_dir)
    try:
        res = build.build(sources=srcs, options=options)
    finally:
        os.chdir(old)
    u = Universe()
    u.errors = list(res.errors)
    bad_deep_lines: set[int] = set()
    for e in res.errors:
        m = re.match(r"^(?:.*/)?(u|deep)\.py:(\d+)", e)
        if m and m.group(1) == "deep" and ": error:" in e:
            bad_deep_lines.add(int(m.group(2)))
        elif ": error:" in e:
            raise RuntimeError("universe module does not type-check: " + e)
    names = res.files["u"].names

    def node_type(sym: Any) -> Any:
        n = sym.node
        if isinstance(n, Var):
            return n.type
        if isinstance(n, (FuncDef, OverloadedFuncDef)):
            return n.type
        if isinstance(n, Decorator):
            return n.var.type
        raise RuntimeError(f"unexpected symbol node {n!r}")

    for nm in U.universe_names():
        if nm.startswith("tv_"):
            ft = names["tv_scope"].node.type
            t = ft.arg_types[ft.arg_names.index(nm)]
        elif nm.startswith("obj_"):
            tup = names["objs"].node.type
            t = tup.items[U.OBJS.index(nm[4:])]
        else:
            t = node_type(names[nm])
        if t is None:
            raise RuntimeError(f"no type for {nm}")
        u.types.append(t)
        u.names.append(nm)
    u.n1 = len(u.types)
    if has_deep:
        with open(os.path.join(src_dir, "deep.json")) as f:
            exprs = json.load(f)
        dnames = res.files["deep"].names
        scope = dnames["deep_scope"].node.type
        lines = open(os.path.join(src_dir, "deep.py")).read().splitlines()
        line_of = {}
        for ln, text in enumerate(lines, 1):
            m = re.match(r"^\s*d_(\d+):", text)
            if m:
                line_of[int(m.group(1))] = ln
        for i, (e, tv) in enumerate(exprs):
            nm = f"d_{i}"
            if line_of.get(i) in bad_deep_lines:
                t = None
            elif tv:
                t = scope.arg_types[scope.arg_names.index(nm)]
            else:
                t = dnames[nm].node.type
            u.types.append(t)
            u.names.append(nm)
    _UNIVERSES[src_dir] = u
    return u


# --- descriptions (kinds, Any-freeness) ---------------------------------------------------------------------

def kind(t: Any) -> str:
    """Coarse kind of a type: ProperType subclass refined where mypy's visitors branch on it."""
    from mypy import types as T
    if isinstance(t, T.TypeAliasType):
        if t.is_recursive:
            return "RecAlias"
        t = T.get_proper_type(t)
    if isinstance(t, T.AnyType):
        return "Any"
    if isinstance(t, T.NoneType):
        return "None"
    if isinstance(t, T.UninhabitedType):
        return "Never"
    if isinstance(t, T.Instance):
        if t.last_known_value is not None:
            return "Instance?"
        if t.type.fullname == "builtins.object":
            return "object"
        if t.type.fullname == "builtins.type":
            return "type"
        if t.type.is_protocol:
            return "Protocol"
        if t.type.is_enum:
            return "Enum"
        return "Instance"
    if isinstance(t, T.TupleType):
        if t.partial_fallback.type.fullname != "builtins.tuple":
            return "NamedTuple"
        if any(isinstance(i, T.UnpackType) for i in t.items):
            return "TupleVar"
        return "Tuple"
    if isinstance(t, T.CallableType):
        if t.is_type_obj():
            return "TypeObj"
        if t.param_spec() is not None:
            return "CallableP"
        if t.variables:
            return "GenericCallable"
        if t.is_ellipsis_args:
            return "Callable..."
        return "Callable"
    if isinstance(t, T.Overloaded):
        return "Overloaded"
    if isinstance(t, T.TypedDictType):
        return "TypedDict"
    if isinstance(t, T.LiteralType):
        return "Literal"
    if isinstance(t, T.TypeType):
        return "TypeType"
    if isinstance(t, T.UnionType):
        return "Union"
    if isinstance(t, T.TypeVarType):
        return "TypeVarValues" if t.values else "TypeVar"
    if isinstance(t, T.ParamSpecType):
        return "ParamSpec"
    if isinstance(t, T.TypeVarTupleType):
        return "TypeVarTuple"
    return type(t).__name__


_ANYQ: Any = None


def contains_any(t: Any) -> bool:
    """Does the type contain Any (explicitly, through `...` parameters, a bare `tuple`/`type`, or a class whose
    MRO falls back to Any)?  Guard for transitivity only; uses mypy's own BoolTypeQuery traversal."""
    global _ANYQ
    if _ANYQ is None:
        from mypy import types as T
        from mypy.type_visitor import ANY_STRATEGY, BoolTypeQuery

        class Q(BoolTypeQuery):
            def __init__(self) -> None:
                super().__init__(ANY_STRATEGY)

            def visit_any(self, t: Any) -> bool:
                return True

            def visit_instance(self, t: Any) -> bool:
                if t.type.fallback_to_any or t.type.fullname == "builtins.type":
                    return True   # typing spec: bare `type` means type[Any]
                return self.query_types(t.args)

            def visit_type_var(self, t: Any) -> bool:   # the implicit default of a TypeVar is an Any: not "contained"
                return self.query_types([t.upper_bound, *t.values])

            def visit_param_spec(self, t: Any) -> bool:
                return self.query_types(t.prefix.arg_types)

            def visit_type_var_tuple(self, t: Any) -> bool:
                return False

            def visit_tuple_type(self, t: Any) -> bool:
                return self.query_types([*t.items, t.partial_fallback])

            def visit_typeddict_type(self, t: Any) -> bool:
                return self.query_types(list(t.items.values()))

        _ANYQ = Q
    return bool(t.accept(_ANYQ()))


def components(t: Any) -> list[Any]:
    """Immediate component types (for witness shrinking)."""
    from mypy import types as T
    if isinstance(t, T.TypeAliasType):
        return [T.get_proper_type(t)]
    if isinstance(t, T.Instance):
        return list(t.args) + ([t.last_known_value] if t.last_known_value is not None else [])
    if isinstance(t, T.TupleType):
        return list(t.items) + [t.partial_fallback]
    if isinstance(t, T.UnpackType):
        return [t.type]
    if isinstance(t, T.CallableType):
        return list(t.arg_types) + [t.ret_type]
    if isinstance(t, T.Overloaded):
        return list(t.items)
    if isinstance(t, T.TypedDictType):
        return list(t.items.values()) + [t.fallback]
    if isinstance(t, T.LiteralType):
        return [t.fallback]
    if isinstance(t, T.TypeType):
        return [t.item]
    if isinstance(t, T.UnionType):
        return list(t.items)
    if isinstance(t, T.TypeVarType):
        return [t.upper_bound, *t.values]
    return []


def describe(src_dir: str) -> dict[str, Any]:
    u = _load(src_dir)
    out = []
    for t in u.types:
        if t is None:
            out.append(None)
        else:
            out.append({"k": kind(t), "any": contains_any(t), "s": str(t)})
    return {"n1": u.n1, "types": out, "names": u.names, "errors": u.errors[:20], "contracts": CONTRACT_IMPL}


# --- law evaluation ---------------------------------------------------------------------------------------

SUB_FLAGS: list[dict[str, bool]] = [
    {"ignore_promotions": True}, {"ignore_type_params": True}, {"ignore_pos_arg_names": True},
    {"ignore_declared_variance": True}, {"always_covariant": True},
]
PSUB_FLAGS: list[dict[str, bool]] = [{"ignore_promotions": True}, {"erase_instances": True}, {"keep_erased_types": True}]


def _h(x: Any) -> str:
    return hashlib.sha1(str(x).encode("utf-8", "replace")).hexdigest()[:8]


def _stack_state() -> str | None:
    ts = _M.type_state
    if ts._assuming or ts._assuming_proper or ts.inferring:
        return f"assuming={len(ts._assuming)} proper={len(ts._assuming_proper)} inferring={len(ts.inferring)}"
    return None


def _eval_pair(s: Any, t: Any, cold: bool, flags: bool, full: bool = False) -> tuple[str, list[dict[str, Any]], dict[str, Any]]:
    """All queries of one ordered pair. cold=True: subtype caches are emptied before every query."""
    reset = _M.type_state.reset_all_subtype_caches
    viol: list[dict[str, Any]] = []
    bits = []
    if cold:
        reset()
    sub = _M.sub(s, t)
    if cold:
        reset()
    psub = _M.psub(s, t)
    bits.append("1" if sub else "0")
    bits.append("1" if psub else "0")
    _M.n_oracle += 1
    if psub and not sub:
        viol.append({"law": "proper-implies-subtype"})
    if flags:
        for fl in SUB_FLAGS:
            if cold:
                reset()
            bits.append("1" if _M.sub(s, t, **fl) else "0")
        for fl in PSUB_FLAGS:
            if cold:
                reset()
            bits.append("1" if _M.psub(s, t, **fl) else "0")
    if cold:
        reset()
    j, f1 = _call_laws(_M.join, s, t)
    if cold:
        reset()
    m, f2 = _call_laws(_M.meet, s, t)
    if cold:
        reset()
    un, f3 = _call_laws(_M.union, [s, t])
    for law, res in f1 + f2 + f3:
        viol.append({"law": law, "result": str(res), "result_kind": kind(res)})
    st = _stack_state()
    if st:
        viol.append({"law": "assumption-stack-not-empty", "result": st})
        del _M.type_state._assuming[:], _M.type_state._assuming_proper[:], _M.type_state.inferring[:]
    detail = {}
    if full:
        detail = {"sub": sub, "psub": psub, "bits": "".join(bits), "join": str(j), "meet": str(m), "union": str(un)}
    return "".join(bits) + ":" + _h(j) + _h(m) + _h(un), viol, detail


def eval_pairs(src_dir: str, pairs: list[list[int]] | None = None, rows: list[int] | None = None,
               space: list[int] | None = None, order_seed: int = 0, flags: bool = True, cold: bool = True,
               refl: bool = False) -> dict[str, Any]:
    """Evaluate every law on the given ordered pairs (explicit list, or rows x space).

    Pass 1 ("warm"): queries in the order given by order_seed; caches are emptied once at the start of the task
    and then left as the query sequence leaves them.  Pass 2 ("cold", optional): caches emptied before each query.
    Returns compact answer strings of the warm pass (compared by the parent with the same pairs evaluated in another
    task in another order), the warm/cold differences and the law violations."""
    u = _load(src_dir)
    if pairs is None:
        assert rows is not None
        cols = space if space is not None else list(range(u.n1))
        pairs = [[i, j] for i in rows for j in cols]
    pairs = [p for p in pairs if u.types[p[0]] is not None and u.types[p[1]] is not None]
    order = list(range(len(pairs)))
    random.Random(order_seed).shuffle(order) if order_seed else None
    _M.type_state.reset_all_subtype_caches()
    n0, q0 = _M.n_oracle, _M.n_queries
    ans: dict[str, str] = {}
    viols: list[dict[str, Any]] = []
    seen_v: set[tuple[Any, ...]] = set()
    for k in order:
        i, j = pairs[k]
        a, vs, _ = _eval_pair(u.types[i], u.types[j], cold=False, flags=flags)
        ans[f"{i},{j}"] = a
        for v in vs:
            v.update(i=i, j=j, phase="warm")
            viols.append(v)
            seen_v.add((v["law"], i, j))
        if refl and i == j:
            _M.n_oracle += 1
            if not a.startswith("1"):
                viols.append({"law": "reflexivity", "i": i, "j": j, "phase": "warm"})
    cachediff: list[dict[str, Any]] = []
    if cold:
        for k in order:
            i, j = pairs[k]
            a, vs, _ = _eval_pair(u.types[i], u.types[j], cold=True, flags=flags)
            _M.n_oracle += 1
            if a != ans[f"{i},{j}"]:
                cachediff.append({"i": i, "j": j, "warm": ans[f"{i},{j}"], "cold": a})
            for v in vs:
                if (v["law"], i, j) not in seen_v:
                    v.update(i=i, j=j, phase="cold")
                    viols.append(v)
    return {"n_pairs": len(pairs), "oracle": _M.n_oracle - n0, "queries": _M.n_queries - q0, "ans": ans,
            "viol": viols, "cachediff": cachediff}


def sub_rows(src_dir: str, rows: list[int], space: list[int]) -> dict[str, Any]:
    """is_subtype(row, col) for every col in space, as one hex bitset per row (bit k = space[k])."""
    u = _load(src_dir)
    _M.type_state.reset_all_subtype_caches()
    q0 = _M.n_queries
    out: dict[str, str] = {}
    for i in rows:
        s = u.types[i]
        if s is None:
            continue
        bits = 0
        for k, j in enumerate(space):
            t = u.types[j]
            if t is not None and _M.sub(s, t):
                bits |= 1 << k
        out[str(i)] = format(bits, "x")
    return {"rows": out, "queries": _M.n_queries - q0}


def eval_triples(src_dir: str, triples: list[list[int]]) -> dict[str, Any]:
    """make_simplified_union on every permutation of each triple of items: each result must be equivalent
    (mutual is_subtype) to the plain UnionType(items).  Also the transitivity instance of the triple itself."""
    import itertools
    u = _load(src_dir)
    _M.type_state.reset_all_subtype_caches()
    n0 = _M.n_oracle
    viols: list[dict[str, Any]] = []
    n = 0
    distinct_results = 0
    for tr in triples:
        ts = [u.types[i] for i in tr]
        if any(t is None for t in ts):
            continue
        n += 1
        results = set()
        for perm in itertools.permutations(range(3)):
            items = [ts[p] for p in perm]
            res, failed = _call_laws(_M.union, items)
            results.add(str(res))
            for law, r in failed:
                viols.append({"law": law, "ids": [tr[p] for p in perm], "result": str(r), "result_kind": kind(r)})
        if len(results) > 1:
            distinct_results += 1
        st = _stack_state()
        if st:
            viols.append({"law": "assumption-stack-not-empty", "ids": tr, "result": st})
            del _M.type_state._assuming[:], _M.type_state._assuming_proper[:], _M.type_state.inferring[:]
    return {"n": n, "oracle": _M.n_oracle - n0, "viol": viols, "order_sensitive_repr": distinct_results}


# --- witnesses: re-evaluate one case in isolation, shrink it, classify it -------------------------------------

def _check_law(law: str, ts: list[Any]) -> dict[str, Any] | None:
    """Re-evaluate one law instance on explicit types with empty caches. Returns a witness dict when it FAILS."""
    from mypy.types import UnionType
    _bind()
    _M.type_state.reset_all_subtype_caches()
    sub, psub = _M.sub, _M.psub
    if law == "reflexivity":
        return None if sub(ts[0], ts[0]) else {"is_subtype(s,s)": False}
    if law == "proper-implies-subtype":
        p, q = psub(ts[0], ts[1]), sub(ts[0], ts[1])
        return {"is_proper_subtype(s,t)": p, "is_subtype(s,t)": q} if (p and not q) else None
    if law == "transitivity":
        a, b, c = sub(ts[0], ts[1]), sub(ts[1], ts[2]), sub(ts[0], ts[2])
        if a and b and not c and not any(contains_any(x) for x in ts):
            return {"is_subtype(s,t)": a, "is_subtype(t,u)": b, "is_subtype(s,u)": c}
        return None
    if law.startswith("join-"):
        from mypy.join import join_types
        r = join_types(ts[0], ts[1])
        ok = sub(ts[0], r) if law == "join-ub-left" else sub(ts[1], r)
        return None if ok else {"join_types(s,t)": str(r), "result_kind": kind(r)}
    if law.startswith("meet-"):
        from mypy.meet import meet_types
        r = meet_types(ts[0], ts[1])
        ok = sub(r, ts[0]) if law == "meet-lb-left" else sub(r, ts[1])
        return None if ok else {"meet_types(s,t)": str(r), "result_kind": kind(r)}
    if law.startswith("union-"):
        from mypy.typeops import make_simplified_union
        r = make_simplified_union(list(ts))
        plain = UnionType(list(ts))
        ok = sub(r, plain) if law == "union-simplified-le-plain" else sub(plain, r)
        return None if ok else {"make_simplified_union(items)": str(r), "plain": str(plain), "result_kind": kind(r)}
    return None


def _shrink(law: str, ts: list[Any], budget: int = 400) -> list[Any]:
    """Greedy structural shrinking: replace one type by one of its components while the same law still fails."""
    cur = list(ts)
    n = 0
    progress = True
    while progress and n < budget:
        progress = False
        for pos in range(len(cur)):
            for c in components(cur[pos]):
                n += 1
                cand = list(cur)
                cand[pos] = c
                try:
                    if _check_law(law, cand) is not None:
                        cur = cand
                        progress = True
                        break
                except Exception:
                    continue
            if progress:
                break
        if not progress and len(cur) == 2:
            # both sides at once (e.g. list[X] vs list[Y] -> X vs Y)
            for c0 in components(cur[0]):
                for c1 in components(cur[1]):
                    n += 1
                    try:
                        if _check_law(law, [c0, c1]) is not None:
                            cur = [c0, c1]
                            progress = True
                            break
                    except Exception:
                        continue
                if progress:
                    break
    return cur


def explain(src_dir: str, law: str, ids: list[int], shrink: bool = True) -> dict[str, Any]:
    """Self-contained witness for one (law, type ids): fresh evaluation, shrunk types, kinds."""
    u = _load(src_dir)
    ts = [u.types[i] for i in ids]
    w = _check_law(law, ts)
    out: dict[str, Any] = {"law": law, "ids": ids, "names": [u.names[i] for i in ids], "types": [str(t) for t in ts],
                           "kinds": [kind(t) for t in ts], "fails_in_isolation": w is not None, "observed": w}
    if w is not None and shrink:
        small = _shrink(law, ts)
        out["min_types"] = [str(t) for t in small]
        out["min_kinds"] = [kind(t) for t in small]
        out["min_observed"] = _check_law(law, small)
        out["min_any"] = [contains_any(t) for t in small]
    return out


def replay_order(src_dir: str, pairs: list[list[int]], order_seed: int, flags: bool, target: list[int]) -> dict[str, Any]:
    """Re-run a warm sequence and report the full answers for one target pair, warm and cold (cache-dependence witness)."""
    u = _load(src_dir)
    pairs = [p for p in pairs if u.types[p[0]] is not None and u.types[p[1]] is not None]
    order = list(range(len(pairs)))
    random.Random(order_seed).shuffle(order) if order_seed else None
    _M.type_state.reset_all_subtype_caches()
    warm = None
    prefix = 0
    for n, k in enumerate(order):
        i, j = pairs[k]
        full = [i, j] == target
        _, _, d = _eval_pair(u.types[i], u.types[j], cold=False, flags=flags, full=full)
        if full:
            warm = d
            prefix = n
            break
    s, t = u.types[target[0]], u.types[target[1]]
    _, _, cold = _eval_pair(s, t, cold=True, flags=flags, full=True)
    return {"target": target, "names": [u.names[target[0]], u.names[target[1]]], "types": [str(s), str(t)],
            "kinds": [kind(s), kind(t)], "warm": warm, "cold": cold, "queries_before": prefix}
