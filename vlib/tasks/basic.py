"""Pool tasks: run the real mypy on a set of files, in fixture mode (the repository's stub
fixtures, ~30 ms) or with the real typeshed (worker-private warm cache, ~0.15 s)."""

from __future__ import annotations

import os
import shutil
import sys
import traceback
from typing import Any

from vlib import common, inproc

_ROOT = os.environ.get("VERIF_POOL_ROOT") or common.WORK_ROOT
_WDIR = os.path.join(_ROOT, f"w{os.environ.get('VERIF_WORKER_IDX', '0')}-{os.getpid()}")
_n = 0


def fresh_dir(tag: str = "case") -> str:
    global _n
    _n += 1
    d = os.path.join(_WDIR, f"{tag}{_n}")
    shutil.rmtree(d, ignore_errors=True)
    os.makedirs(d)
    return d


def check_typeshed(files: dict[str, str], flags: list[str], targets: list[str] | None = None,
                   capture: bool = False, cold: bool = False, keep: bool = False,
                   base_flags: list[str] | None = None) -> dict[str, Any]:
    """`mypy <flags> <targets>` in a fresh directory holding `files`.

    cold=False: worker-private cache dir (typeshed warm; user modules always changed => re-checked).
    cold=True: private copy of a typeshed-only base cache (no user module has a record)."""
    d = fresh_dir()
    try:
        common.write_files(d, files, mtime=1_500_000_000 + 10 * _n)
        cflags = [f for f in (base_flags if base_flags is not None else flags) if f != "--show-traceback"]
        try:
            base = inproc.base_cache(_ROOT, cflags)
        except RuntimeError:
            # flag set rejected by mypy itself (usage error): the run below reports the same thing
            base = os.path.join(_ROOT, "basecache-empty")
            os.makedirs(base, exist_ok=True)
        if cold:
            cache = os.path.join(d, ".vcache")
            shutil.copytree(base, cache)
        else:
            cache = os.path.join(_WDIR, "cache-" + os.path.basename(base))
            if not os.path.isdir(cache):
                shutil.copytree(base, cache)
        args = ["--no-error-summary", "--cache-dir", cache, *flags, *(targets or sorted(f for f in files if f.endswith((".py", ".pyi")) and "/" not in f))]
        r = inproc.run_mypy(args, cwd=d, capture=capture)
        r["args"] = args
        return r
    finally:
        if not keep:
            shutil.rmtree(d, ignore_errors=True)


def check_fixture(main: str, files: dict[str, str], flags: list[str], fixtures: dict[str, str],
                  native: bool = False, suite: str = "", extra: dict[str, Any] | None = None) -> dict[str, Any]:
    """The way the repository's own data-driven tests call `build.build`, minus any expected output."""
    from mypy import build
    from mypy.errors import CompileError
    from mypy.main import process_options
    from mypy.modulefinder import BuildSource
    from mypy.options import Options

    inproc.install_capture()
    inproc._rebind_late()
    del inproc._internal[:]
    d = fresh_dir()
    old = os.getcwd()
    unit = os.path.join(common.REPO, "test-data", "unit")
    os.environ["MYPY_TEST_PREFIX"] = common.REPO
    res: dict[str, Any] = {}
    try:
        os.chdir(d)
        os.makedirs("tmp")
        all_files = dict(files)
        for kind, rel in fixtures.items():
            try:
                with open(os.path.join(unit, rel), encoding="utf8") as f:
                    all_files[f"{kind}.pyi"] = f.read()
            except OSError:
                pass
        common.write_files(os.path.join(d, "tmp"), all_files)
        with open("main", "w", encoding="utf8") as f:
            f.write(main)
        try:
            if flags:
                _, options = process_options([*flags, "--no-site-packages"], require_targets=False)
            else:
                options = Options()
                options.error_summary = False
        except SystemExit as e:
            return {"status": 2, "out": "", "err": f"bad flags {e.code}", "msgs": [], "skipped": "flags"}
        options.use_builtins_fixtures = True
        options.show_traceback = True
        options.native_parser = native
        options.incremental = False
        options.cache_dir = os.devnull
        options.num_workers = 0
        for k, v in (extra or {}).items():
            setattr(options, k, v)
        if "abstract" not in suite:
            options.allow_empty_bodies = True
        sources = [BuildSource("main", "__main__", main)]
        try:
            r = build.build(sources=sources, options=options, alt_lib_path="tmp")
            msgs = r.errors
            status = 1 if msgs else 0
        except CompileError as e:
            msgs = e.messages
            status = 2
        except SystemExit as e:
            msgs = []
            status = e.code if isinstance(e.code, int) else 2
        res = {"status": status, "msgs": msgs}
    except BaseException as e:
        tb = traceback.format_exc()[-6000:]
        res = {"status": None, "msgs": [], "crash": {"exc": type(e).__name__, "msg": str(e)[:300], "tb": tb,
                                                      "key": inproc.classify_exc(tb)}}
    finally:
        os.chdir(old)
        shutil.rmtree(d, ignore_errors=True)
    if inproc._internal:
        res["internal"] = list(inproc._internal)
    return res
