"""Pool task for C07: one program, sequential baseline vs `-n N` under perturbed schedules (fresh processes,
shim active), warm follow-ups on the cache the parallel build left, and the offline protocol-history checker."""

from __future__ import annotations

import json
import os
import shutil
from typing import Any

from vlib import common, diag, inproc
from vlib.tasks import basic
from vlib.tasks.daemon import sync_files

BASEFLAGS = ["--native-parser", "--no-error-summary", "--show-traceback"]


def check_history(events: list[dict[str, Any]]) -> tuple[list[str], dict[str, Any]]:
    """Safety conditions of the coordinator/worker protocol over what actually happened (one monotonic clock)."""
    bad: list[str] = []
    info: dict[str, Any] = {}
    struct = None
    for e in events:
        if e["ev"] == "scc_structure":
            struct = {s["id"]: s for s in e["sccs"]}
    if struct is None:
        return bad, {"no_structure": True}
    iface_done_at: dict[int, int] = {}     # scc id -> time the coordinator received the interface response
    requested: dict[int, int] = {}
    for e in events:
        if e["role"] != "coord":
            continue
        if e["ev"] == "scc_response" and e["is_interface"]:
            for sid in e["scc_ids"]:
                if sid in iface_done_at:
                    bad.append(f"duplicate-interface-response:scc{sid}")
                iface_done_at[sid] = e["t"]
        if e["ev"] == "scc_request":
            for sid in e["scc_ids"]:
                if sid in requested:
                    bad.append(f"scc-requested-twice:scc{sid}")
                requested[sid] = e["t"]
    iface_runs: dict[int, list[str]] = {}
    for e in events:
        if e["ev"] == "iface_start":
            sid = e["scc"]
            iface_runs.setdefault(sid, []).append(e["role"])
            # (a) every dependency SCC that was processed in this build had its interface response received before
            for dep in struct.get(sid, {}).get("deps", []):
                if dep in requested:
                    if dep not in iface_done_at or iface_done_at[dep] > e["t"]:
                        bad.append("interface-phase-started-before-dependency-interface-done")
                        info.setdefault("early", []).append({"scc": sid, "dep": dep, "mods": struct[sid]["mods"][:3]})
    for sid, roles in iface_runs.items():
        if len(roles) > 1:
            bad.append("scc-interface-processed-more-than-once")
    for sid in requested:
        if sid not in iface_runs:
            bad.append("requested-scc-never-processed")
        if sid not in iface_done_at:
            bad.append("requested-scc-without-interface-response")
    impl_mods: dict[str, int] = {}
    for e in events:
        if e["ev"] == "impl_start":
            for m in e["mods"]:
                impl_mods[m] = impl_mods.get(m, 0) + 1
    if any(v > 1 for v in impl_mods.values()):
        bad.append("module-implementation-processed-more-than-once")
    workers_used = sorted({e["role"] for e in events if e["ev"] == "iface_start"})
    sig = [(e["role"], e["ev"][:5], e.get("scc", tuple(e.get("mods", []))[:1])) for e in events if e["ev"] in ("iface_end", "impl_end")]
    info.update(workers_used=workers_used, n_sccs_processed=len(iface_runs), schedule_signature=common.fingerprint(sig),
                cross_worker_deps=sum(1 for sid, roles in iface_runs.items() for dep in struct.get(sid, {}).get("deps", [])
                                      if dep in iface_runs and iface_runs[dep][0] != roles[0]))
    return sorted(set(bad)), info


def _cli(d: str, args: list[str], env: dict[str, str], timeout: float = 600) -> dict[str, Any]:
    r = common.run_cli(args, cwd=d, env=env, timeout=timeout)
    r["out"] = r["out"]
    return r


def run_case(versions: list[dict[str, str]], n: int, scheds: list[str], targets: list[str], flags: list[str],
             store_flags: list[str]) -> dict[str, Any]:
    """versions[0] = initial program, versions[1] (optional) = after an edit (mixed fresh/stale)."""
    d = basic.fresh_dir("par")
    out: dict[str, Any] = {"runs": []}
    try:
        sync_files(d, {}, versions[0], 0)
        fl = [*BASEFLAGS, *store_flags, *flags]
        base = inproc.base_cache(basic._ROOT, [*store_flags, "--native-parser", *flags])
        env_plain = common.base_env()

        def seq(tag: str) -> dict[str, Any]:
            c = os.path.join(d, ".seq-" + tag)
            shutil.rmtree(c, ignore_errors=True)
            shutil.copytree(base, c)
            r = _cli(d, [*fl, "--cache-dir", c, *targets], env_plain)
            shutil.rmtree(c, ignore_errors=True)
            return r

        seq0 = seq("0")
        out["seq0"] = {"out": seq0["out"] + seq0["err"], "status": seq0["status"]}
        if seq0["status"] not in (0, 1, 2):
            out["failed"] = "sequential baseline failed"
            return out
        seq1 = None
        for si, sched in enumerate(scheds):
            cache = os.path.join(d, f".par{si}")
            shutil.copytree(base, cache)
            ev = os.path.join(d, f"events{si}.jsonl")
            env = common.base_env(shim=True, VERIF_EVENTS=ev, VERIF_SCHED=sched, VERIF_WORKER_START_TIMEOUT="120")
            r = _cli(d, [*fl, "-n", str(n), "--cache-dir", cache, *targets], env)
            run: dict[str, Any] = {"sched": sched, "n": n, "status": r["status"], "out": r["out"] + r["err"]}
            if r["status"] is None or "Failed to establish connection with worker" in run["out"] or "Cannot connect to build worker" in run["out"]:
                run["inconclusive"] = "worker start-up/watchdog (machine load)"
                out["runs"].append(run)
                shutil.rmtree(cache, ignore_errors=True)
                continue
            cmp = diag.compare(run["out"], out["seq0"]["out"], r["status"], seq0["status"])
            run["equal"] = cmp["equal"]
            if not cmp["equal"]:
                run["diffs"] = cmp["diffs"]
            try:
                events = [json.loads(l) for l in open(ev)]
            except OSError:
                events = []
            events.sort(key=lambda e: e["t"])
            bad, info = check_history(events)
            run["history_bad"] = bad
            run["history"] = info
            run["n_events"] = len(events)
            # M3: warm follow-ups on the cache the parallel build left
            w = _cli(d, [*fl, "--cache-dir", cache, *targets], env_plain)
            cmpw = diag.compare(w["out"] + w["err"], out["seq0"]["out"], w["status"], seq0["status"])
            run["warm_seq_equal"] = cmpw["equal"]
            if not cmpw["equal"]:
                run["warm_seq_diffs"] = cmpw["diffs"]
                run["warm_seq_out"] = w["out"] + w["err"]
            if len(versions) > 1:
                sync_files(d, versions[0], versions[1], 1 + si)
                if seq1 is None:
                    s1 = seq("1")
                    seq1 = {"out": s1["out"] + s1["err"], "status": s1["status"]}
                    out["seq1"] = seq1
                ev2 = os.path.join(d, f"events{si}b.jsonl")
                env2 = common.base_env(shim=True, VERIF_EVENTS=ev2, VERIF_SCHED=sched + "b", VERIF_WORKER_START_TIMEOUT="120")
                p2 = _cli(d, [*fl, "-n", str(n), "--cache-dir", cache, *targets], env2)
                o2 = p2["out"] + p2["err"]
                if p2["status"] is None or "connection with worker" in o2 or "Cannot connect to build worker" in o2:
                    run["edit_inconclusive"] = True
                else:
                    # snapshot of the cache exactly as the parallel run left it (before any sequential run repairs it)
                    rev_cache = cache + ".rev"
                    shutil.rmtree(rev_cache, ignore_errors=True)
                    shutil.copytree(cache, rev_cache)
                    c2 = diag.compare(o2, seq1["out"], p2["status"], seq1["status"])
                    run["edit_par_equal"] = c2["equal"]
                    if not c2["equal"]:
                        run["edit_par_diffs"] = c2["diffs"]
                        run["edit_par_out"] = o2
                    try:
                        ev2l = sorted([json.loads(l) for l in open(ev2)], key=lambda e: e["t"])
                    except OSError:
                        ev2l = []
                    b2, i2 = check_history(ev2l)
                    run["edit_history_bad"] = b2
                    run["edit_history"] = i2
                    w2 = _cli(d, [*fl, "--cache-dir", cache, *targets], env_plain)
                    c3 = diag.compare(w2["out"] + w2["err"], seq1["out"], w2["status"], seq1["status"])
                    run["edit_warm_equal"] = c3["equal"]
                    if not c3["equal"]:
                        run["edit_warm_diffs"] = c3["diffs"]
                sync_files(d, versions[1], versions[0], 100 + si)   # restore for the next schedule
                # restoring bumps mtimes again; contents equal versions[0]
                if not run.get("edit_inconclusive"):
                    # revert run: hashes recorded by the parallel build for the EDITED state must not make modules look
                    # fresh now that the sources are back at the original state
                    rev_cache = cache + ".rev"
                    w3 = _cli(d, [*fl, "--cache-dir", rev_cache if os.path.isdir(rev_cache) else cache, *targets], env_plain)
                    shutil.rmtree(rev_cache, ignore_errors=True)
                    c4 = diag.compare(w3["out"] + w3["err"], out["seq0"]["out"], w3["status"], seq0["status"])
                    run["revert_warm_equal"] = c4["equal"]
                    if not c4["equal"]:
                        run["revert_warm_diffs"] = c4["diffs"]
                        run["revert_warm_out"] = w3["out"] + w3["err"]
            shutil.rmtree(cache, ignore_errors=True)
            out["runs"].append(run)
        return out
    finally:
        shutil.rmtree(d, ignore_errors=True)
