"""Pool task: drive a real `dmypy_server.Server` object through a history of file versions and
compare every response with a full run of the real mypy on the same files (C03, C20-daemon)."""

from __future__ import annotations

import io
import os
import shutil
import sys
import traceback
from contextlib import redirect_stderr, redirect_stdout
from typing import Any

from vlib import common, diag, inproc
from vlib.tasks import basic

INSTALL_TYPES_NOTE = '(or run "mypy --install-types" to install all missing stub packages)'


_probe: dict[str, Any] = {"triggered": set(), "targets": set(), "updated": set(), "calls": 0}
_probe_installed = False


def _install_update_probe() -> None:
    """Recording wrapper around FineGrainedBuildManager.update (result unchanged): accumulates the
    triggers fired and targets reprocessed over all update() calls of one daemon request."""
    global _probe_installed
    if _probe_installed:
        return
    _probe_installed = True
    from mypy.server import update as U

    orig = U.FineGrainedBuildManager.update

    def update(self: Any, *a: Any, **kw: Any) -> Any:
        try:
            return orig(self, *a, **kw)
        finally:
            _probe["calls"] += 1
            _probe["triggered"].update(self.triggered)
            _probe["targets"].update(self.processed_targets)
            _probe["updated"].update(self.updated_modules)

    U.FineGrainedBuildManager.update = update  # type: ignore[method-assign]


def sync_files(root: str, old: dict[str, str], new: dict[str, str], step: int, base: int = 1_600_000_000,
               touch: list[str] | None = None, backwards: bool = False) -> list[str]:
    changed: list[str] = [t for t in (touch or []) if t in new]
    for rel in old:
        if rel not in new:
            p = os.path.join(root, rel)
            try:
                os.unlink(p)
            except OSError:
                pass
            changed.append(rel)
            dp = os.path.dirname(p)
            while dp != root and os.path.isdir(dp) and not os.listdir(dp):
                os.rmdir(dp)
                dp = os.path.dirname(dp)
    for rel, text in new.items():
        if old.get(rel) != text:
            p = os.path.join(root, rel)
            os.makedirs(os.path.dirname(p), exist_ok=True)
            with open(p, "w", encoding="utf-8", newline="") as f:
                f.write(text)
            changed.append(rel)
        # logical clock: every file present at this step gets the step's mtime only when it changed
    for rel in changed:
        p = os.path.join(root, rel)
        if os.path.exists(p):
            t = base + 10 * step if not backwards else base - 3600 - 10 * step
            os.utime(p, (t, t))
    return changed


def full_run(d: str, flags: list[str], targets: list[str], capture: bool = True) -> dict[str, Any]:
    """Oracle: the batch checker on the files as they are now; no user module has a cache record."""
    base = inproc.base_cache(basic._ROOT, [f for f in flags if f != "--show-traceback"])
    cache = os.path.join(d, ".oracle_cache")
    shutil.rmtree(cache, ignore_errors=True)
    shutil.copytree(base, cache)
    try:
        r = inproc.run_mypy(["--no-error-summary", "--cache-dir", cache, *flags, *targets], cwd=d, capture=capture)
    finally:
        shutil.rmtree(cache, ignore_errors=True)
    r["once"] = sorted({i["message"] for i in r.get("infos") or [] if i["only_once"]})
    r.pop("infos", None)
    r["out"] = "\n".join(ln for ln in r["out"].splitlines() if INSTALL_TYPES_NOTE not in ln)
    return r


def _deps_complete(fgm: Any, options: Any, d: str, targets: list[str]) -> dict[str, Any]:
    """Invariant at the end of a history: the long-lived daemon's trigger -> targets map contains every edge that a
    FRESH daemon derives for the same files (a fresh build computes the map of every module from scratch with the
    repository's own dependency visitor).  A missing edge means a later edit of that definition will not re-check
    the target.  Only edges whose target lies in a user module are compared."""
    from mypy.dmypy_server import Server
    res: dict[str, Any] = {"edges": 0, "missing": []}
    try:
        import copy
        with redirect_stdout(io.StringIO()), redirect_stderr(io.StringIO()):
            fresh = Server(copy.deepcopy(options), os.path.join(d, ".dmypy-fresh.json"))
            r = fresh.cmd_check(list(targets), False, False, 80)
        f2 = fresh.fine_grained_manager
        if f2 is None or "error" in r:
            res["error"] = "fresh daemon did not build"
            return res
        user = {mid for mid, st in f2.graph.items() if "typeshed" not in (st.path or "") and "site-packages" not in (st.path or "")}
        res["modules"] = len(user)
        for trig, tg in f2.deps.items():
            have = fgm.deps.get(trig, ())
            for t in tg:
                tm = t.lstrip("<").split("[")[0].rstrip(">")
                if not any(tm == u or tm.startswith(u + ".") for u in user):
                    continue
                res["edges"] += 1
                if t not in have and len(res["missing"]) < 8:
                    res["missing"].append([trig, t])
    except BaseException as e:
        res["error"] = f"{type(e).__name__}: {e}"[:200]
    return res


def run_history(versions: list[dict[str, str]], flags: list[str], targets: list[str],
                modes: list[str] | None = None, oracle_last_only: bool = False,
                oracle_steps: list[int] | None = None, consistency: bool = False,
                mtime_back: list[bool] | None = None, deps_monitor: bool = False) -> dict[str, Any]:
    from mypy import dmypy_server
    from mypy.dmypy_server import Server

    inproc.install_capture()
    _install_update_probe()
    d = basic.fresh_dir("dm")
    old_cwd = os.getcwd()
    steps: list[dict[str, Any]] = []
    final: dict[str, Any] | None = None
    server = None
    try:
        os.chdir(d)
        dflags = ["--no-error-summary", *flags]
        try:
            with redirect_stdout(io.StringIO()), redirect_stderr(io.StringIO()):
                options = dmypy_server.process_start_options(dflags, allow_sources=False)
        except SystemExit as e:
            return {"skipped": f"start options rejected: {e.code}", "steps": []}
        server = Server(options, os.path.join(d, ".dmypy.json"))
        prev: dict[str, str] = {}
        for i, files in enumerate(versions):
            changed = sync_files(d, prev, files, i, backwards=bool(mtime_back and i < len(mtime_back) and mtime_back[i]))
            prev = files
            mode = (modes[i] if modes and i < len(modes) else "check") if i else "check"
            if i and set(files) != set(versions[i - 1]) and not server.following_imports():
                # plain `recheck` re-uses the previous source list by design; when the set of files changed
                # and imports are not followed, only `check <targets>` is the same request as the batch run
                mode = "check"
            inproc._rebind_late()
            del inproc._internal[:]
            inproc._captured = []
            _probe.update(triggered=set(), targets=set(), updated=set(), calls=0)
            st: dict[str, Any] = {"i": i, "mode": mode, "changed": changed}
            out, err = io.StringIO(), io.StringIO()
            try:
                with redirect_stdout(out), redirect_stderr(err):
                    if mode == "recheck" and server.fine_grained_manager:
                        res = server.cmd_recheck(False, 80, False)
                    elif mode == "recheck-explicit" and server.fine_grained_manager and not server.following_imports():
                        upd = [r for r in changed if r in files and r.endswith((".py", ".pyi"))]
                        rem = [r for r in changed if r not in files]
                        res = server.cmd_recheck(False, 80, False, remove=rem or None, update=upd or None)
                    else:
                        res = server.cmd_check(list(targets), False, False, 80)
                st["out"] = str(res.get("out", "")) + str(res.get("err", ""))
                st["status"] = res.get("status")
                if "error" in res:
                    st["error"] = res["error"]
                stats = res.get("stats") or {}
                st["stats"] = {k: v for k, v in stats.items() if isinstance(v, (int, float)) and v and "time" not in k}
            except SystemExit as e:
                st["out"] = out.getvalue() + err.getvalue()
                st["status"] = e.code if isinstance(e.code, int) else 2
                st["exited"] = True
            except BaseException as e:
                tb = traceback.format_exc()[-6000:]
                st["crash"] = {"exc": type(e).__name__, "msg": str(e)[:300], "tb": tb, "key": inproc.classify_exc(tb)}
                st["out"] = out.getvalue() + err.getvalue()
                st["status"] = None
            if inproc._internal:
                st["internal"] = list(inproc._internal)
            st["once_d"] = sorted({x["message"] for x in inproc._captured or [] if x["only_once"]})
            inproc._captured = None
            fgm = server.fine_grained_manager
            if fgm is not None:
                st["triggered"] = len(_probe["triggered"])
                st["processed_targets"] = sorted(_probe["targets"])[:40]
                st["updated_modules"] = sorted(_probe["updated"])[:20]
                st["update_calls"] = _probe["calls"]
            want_oracle = (not oracle_last_only and (oracle_steps is None or i in oracle_steps)) or i == len(versions) - 1
            if want_oracle and "crash" not in st and not st.get("exited"):
                o = full_run(d, flags, targets)
                st["oracle"] = {"out": o["out"] + o["err"], "status": o["status"], "once": o["once"]}
                if o.get("crash") or o.get("internal"):
                    st["oracle"]["failed"] = True
                cmp = diag.compare(st["out"], st["oracle"]["out"], st["status"], st["oracle"]["status"])
                st["equal"] = cmp["equal"]
                if not cmp["equal"]:
                    st["diffs"] = cmp["diffs"]
                    once = set(st["once_d"]) | set(o["once"])
                    c2 = diag.compare(st["out"], st["oracle"]["out"], st["status"], st["oracle"]["status"], drop_msgs=once)
                    st["equal_mod_once"] = c2["equal"]
                    st["status_equal"] = cmp["status_equal"]
                if (deps_monitor and fgm is not None and "crash" not in st and st.get("status") != 2 and i == len(versions) - 1
                        and st.get("equal")):
                    st["deps_monitor"] = _deps_complete(fgm, options, d, targets)
                if consistency and fgm is not None:
                    try:
                        from mypy.server.mergecheck import check_consistency
                        check_consistency(fgm)
                        st["consistency"] = "ok"
                    except AssertionError as e:
                        st["consistency"] = f"FAILED: {str(e)[:300]}"
                    except Exception as e:
                        st["consistency"] = f"error: {type(e).__name__}"
            steps.append(st)
            if "crash" in st or st.get("exited"):
                break
        if steps and "oracle" in steps[-1]:
            s = steps[-1]
            final = {"daemon": s["out"], "oracle": s["oracle"]["out"], "equal": s.get("equal"),
                     "equal_mod_once": s.get("equal_mod_once"), "diffs": s.get("diffs"),
                     "status_equal": s.get("status_equal", True), "dstatus": s["status"], "ostatus": s["oracle"]["status"]}
    finally:
        os.chdir(old_cwd)
        shutil.rmtree(d, ignore_errors=True)
        server = None
        inproc.cleanup()
        import gc
        gc.collect()
    return {"steps": steps, "final": final}
