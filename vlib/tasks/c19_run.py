"""Pool task for C19: run the real stubgen on a bundle of modules in one mode, then feed every
generated stub back to mypy (alone) and to stubtest (against the imported runtime modules).

Only raw observations are returned; the verdicts are computed by checks/c19.py.
parse-only / semantic modes on file arguments run in-process (`mypy.stubgen.generate_stubs`);
`-m/-p` invocations and `--inspect-mode` import the target modules, so they run as
`python -m mypy.stubgen` subprocesses with the source directory on sys.path; stubtest always runs
as `python -m mypy.stubtest` in a subprocess (modules on PYTHONPATH, stubs on MYPYPATH)."""

from __future__ import annotations

import io
import json
import os
import shutil
import subprocess
import sys
import traceback
from typing import Any

from vlib import c19_driver, common, inproc
from vlib.tasks.basic import _ROOT, fresh_dir

_IMPORT_PROBE = r"""
import importlib, json, sys, warnings
warnings.simplefilter("ignore")
out = {}
for name in sys.argv[1:]:
    try:
        mod = importlib.import_module(name)
        a = getattr(mod, "__all__", None)
        out[name] = {"ok": True, "all": [str(x) for x in a] if a is not None else None}
    except BaseException as e:
        out[name] = {"ok": False, "err": f"{type(e).__name__}: {e}"[:300]}
sys.stdout.write("\n@@C19@@" + json.dumps(out))
"""


def _sub(args: list[str], cwd: str, env: dict[str, str], timeout: float) -> dict[str, Any]:
    try:
        p = subprocess.run(args, cwd=cwd, env=env, capture_output=True, text=True, timeout=timeout,
                           stdin=subprocess.DEVNULL, start_new_session=True)
        return {"status": p.returncode, "out": p.stdout, "err": p.stderr}
    except subprocess.TimeoutExpired:
        return {"status": None, "out": "", "err": "TIMEOUT", "timeout": True}


def _env(src: str, **extra: str) -> dict[str, str]:
    env = common.base_env()
    env["PYTHONPATH"] = src + os.pathsep + env.get("PYTHONPATH", "")
    env["PYTHONWARNINGS"] = "ignore"
    env["COLUMNS"] = "200"
    env.update(extra)
    return env


def _stub_path(out: str, module: str, is_pkg: bool) -> str:
    return os.path.join(out, *module.split(".")) + ("/__init__.pyi" if is_pkg else ".pyi")


def _src_rel(module: str, is_pkg: bool) -> str:
    return "/".join(module.split(".")) + ("/__init__.py" if is_pkg else ".py")


def _stubgen_inproc(args: list[str], cwd: str) -> dict[str, Any]:
    from mypy import stubgen

    c19_driver.install()
    c19_driver.failures.clear()
    old_cwd = os.getcwd()
    old_out, old_err = sys.stdout, sys.stderr
    out, err = io.StringIO(), io.StringIO()
    res: dict[str, Any] = {"status": 0}
    try:
        os.chdir(cwd)
        sys.stdout, sys.stderr = out, err
        try:
            stubgen.generate_stubs(stubgen.parse_options(list(args)))
        except SystemExit as e:
            res["status"] = e.code if isinstance(e.code, int) else (0 if e.code is None else 1)
            if not isinstance(e.code, int) and e.code is not None:
                err.write(str(e.code))
        except BaseException as e:
            tb = traceback.format_exc()[-5000:]
            res["status"] = None
            res["crash"] = {"exc": type(e).__name__, "msg": str(e)[:300], "tb": tb, "key": inproc.classify_exc(tb)}
    finally:
        sys.stdout, sys.stderr = old_out, old_err
        os.chdir(old_cwd)
    res["out"] = out.getvalue()[-3000:]
    res["err"] = err.getvalue()[-5000:]
    res["failures"] = {m: {"tb": tb, "key": inproc.classify_exc(tb)} for m, tb in c19_driver.failures.items()}
    return res


def _stubgen_sub(args: list[str], cwd: str, env: dict[str, str]) -> dict[str, Any]:
    r = _sub([common.PY, "-m", "vlib.c19_driver", *args], cwd, env, 300)
    fails: dict[str, str] = {}
    if "@@C19FAIL@@" in r["err"]:
        head, _, tail = r["err"].rpartition("@@C19FAIL@@")
        try:
            fails = json.loads(tail.strip().splitlines()[0])
        except ValueError:
            pass
        r["err"] = head
    res: dict[str, Any] = {"status": r["status"], "out": r["out"][-3000:], "err": r["err"][-5000:],
                           "failures": {m: {"tb": tb, "key": inproc.classify_exc(tb)} for m, tb in fails.items()}}
    if r.get("timeout"):
        res["timeout"] = True
    elif "Traceback (most recent call last)" in r["err"]:
        tb = r["err"][-5000:]
        last = tb.strip().splitlines()[-1] if tb.strip() else ""
        res["crash"] = {"exc": last.split(":")[0].split(".")[-1], "msg": last[:300], "tb": tb, "key": inproc.classify_exc(tb)}
    return res


def run_bundle(files: dict[str, str], modules: list[str], mode: str, flags: list[str], style: str = "files",
               skip_stubtest: bool = False) -> dict[str, Any]:
    """mode: po | sem | insp; style: files | modules (stubgen -m, imports the module) | noimport (-m --no-import)."""
    d = fresh_dir("c19")
    try:
        src = os.path.join(d, "src")
        out = os.path.join(d, "out")
        empty = os.path.join(d, "cwd")
        os.makedirs(empty)
        os.makedirs(out)
        common.write_files(src, files, mtime=1_500_000_000)
        pkgs = {m for m in modules if _src_rel(m, True) in files}
        res: dict[str, Any] = {"mode": mode, "flags": flags, "style": style}

        # --- preconditions: every module imports; the sources are clean for mypy ---------------
        p = _sub([common.PY, "-c", _IMPORT_PROBE, *modules], empty, _env(src), 120)
        pre: dict[str, Any] = {"import": {}, "src_errors": []}
        if "@@C19@@" in p["out"]:
            pre["import"] = json.loads(p["out"].rsplit("@@C19@@", 1)[1])
        else:
            pre["import_fail"] = (p["err"] or "")[-1500:]
        base = inproc.base_cache(_ROOT, [])
        cache = os.path.join(d, "cache-src")
        shutil.copytree(base, cache)
        srcs = sorted(f for f in files if f.endswith(".py"))
        r = inproc.run_mypy(["--no-error-summary", "--cache-dir", cache, *srcs], cwd=src)
        pre["src_status"] = r["status"]
        pre["src_errors"] = [ln for ln in (r["out"] + r["err"]).splitlines() if ": error:" in ln][:40]
        if r.get("crash"):
            pre["src_crash"] = r["crash"]["key"]
        res["pre"] = pre

        # --- stubgen -----------------------------------------------------------------------------
        mflags = {"po": ["--parse-only"], "sem": [], "insp": ["--inspect-mode"]}[mode]
        common_args = ["-q", "--ignore-errors", *mflags, *flags, "-o", out]
        by_import = mode == "insp" or style in ("modules", "noimport")

        def targets(mods: list[str]) -> list[str]:
            if by_import:
                t: list[str] = ["--no-import", "--search-path", src] if style == "noimport" and mode != "insp" else []
                for m in mods:
                    t += ["-m", m]
                return t
            return [_src_rel(m, m in pkgs) for m in mods]

        def gen(mods: list[str]) -> dict[str, Any]:
            if by_import:
                return _stubgen_sub([*common_args, *targets(mods)], src, _env(src))
            return _stubgen_inproc([*common_args, *targets(mods)], src)

        batch = gen(modules)
        sg: dict[str, Any] = {"batch": batch, "per_module": {}}
        if batch["status"] != 0 or batch.get("crash"):
            # one failing module must not hide the others: regenerate one by one
            shutil.rmtree(out, ignore_errors=True)
            os.makedirs(out)
            for m in modules:
                sg["per_module"][m] = gen([m])
        res["stubgen"] = sg
        stubs: dict[str, str | None] = {}
        for m in modules:
            sp = _stub_path(out, m, m in pkgs)
            try:
                with open(sp, encoding="utf-8") as f:
                    stubs[m] = f.read()
            except OSError:
                stubs[m] = None
        res["stubs"] = stubs

        # --- (b) mypy on the stubs alone ---------------------------------------------------------
        have = [m for m in modules if stubs[m] is not None]
        rels = {m: os.path.relpath(_stub_path(out, m, m in pkgs), out) for m in have}
        res["stub_paths"] = rels
        if have:
            cache2 = os.path.join(d, "cache-stub")
            shutil.copytree(base, cache2)
            r = inproc.run_mypy(["--no-error-summary", "--cache-dir", cache2, *sorted(rels.values())], cwd=out)
            res["mypy"] = {"status": r["status"], "lines": (r["out"] + r["err"]).splitlines()[:200]}
            if r.get("crash"):
                res["mypy"]["crash"] = r["crash"]
            if r.get("internal"):
                res["mypy"]["internal"] = r["internal"][:2]
        else:
            res["mypy"] = None

        # --- (c) stubtest ------------------------------------------------------------------------
        res["stubtest"] = None
        if have and not skip_stubtest and res["mypy"] and res["mypy"]["status"] in (0, 1):
            bad_files = {ln.split(":", 1)[0] for ln in res["mypy"]["lines"] if ": error:" in ln}
            clean = [m for m in have if rels[m] not in bad_files and pre["import"].get(m, {}).get("ok")]
            tops = sorted({m.split(".")[0] for m in modules})
            units: list[str] = []
            covered: list[str] = []
            for t in tops:
                members = [m for m in modules if m == t or m.startswith(t + ".")]
                if all(m in clean for m in members):
                    units.append(t)
                    covered += members
            st: dict[str, Any] = {"units": units, "covered": covered,
                                  "skipped": [m for m in modules if m not in covered]}
            if units:
                env = _env(src, MYPYPATH=out)
                r2 = _sub([common.PY, "-m", "mypy.stubtest", *units], empty, env, 300)
                st.update(status=r2["status"], out=r2["out"][-60000:], err=r2["err"][-3000:], timeout=bool(r2.get("timeout")))
                if r2["status"] not in (0, None) and "not checking stubs due to" in r2["out"] and len(units) > 1:
                    st["per_unit"] = {}
                    for u in units:
                        r3 = _sub([common.PY, "-m", "mypy.stubtest", u], empty, env, 300)
                        st["per_unit"][u] = {"status": r3["status"], "out": r3["out"][-30000:], "err": r3["err"][-2000:],
                                             "timeout": bool(r3.get("timeout"))}
            res["stubtest"] = st
        return res
    finally:
        shutil.rmtree(d, ignore_errors=True)
