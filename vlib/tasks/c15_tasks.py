"""Pool tasks for C15: compile harness modules with the real mypyc, drive compiled functions against the
interpreter evaluating the same source, pinpoint the operands behind a sanitizer report or a crash."""

from __future__ import annotations

import os
import re
import sys
from typing import Any

from vlib import c15_build, c15_gen as g, common

_loaded: dict[str, Any] = {}
if hasattr(sys, "set_int_max_str_digits"):
    sys.set_int_max_str_digits(0)  # witnesses carry reprs of big ints


def probe(source: str, wd: str) -> dict[str, Any]:
    return c15_build.probe_types(source, wd)


def compile_one(modname: str, source: str, outdir: str, config: str, def_lines: dict[str, str] | None = None,
                max_retries: int = 3) -> dict[str, Any]:
    """Compile; when mypyc itself rejects some functions (error lines), drop exactly those and retry."""
    dropped: dict[str, str] = {}
    c_dropped: dict[str, str] = {}
    wall = 0.0
    r: dict[str, Any] = {}
    for attempt in range(max_retries + 1):
        r = c15_build.compile_module(modname, source, outdir, config)
        wall += r.get("wall", 0.0)
        if r["ok"] or not (r.get("errors") or r.get("c_errors")):
            break
        lines = source.split("\n")
        bad: set[str] = set()
        for name, msg in r.get("c_errors", []):
            if f"def {name}(" in source:
                bad.add(name)
                c_dropped.setdefault(name, msg)
        for ln, msg in r["errors"]:
            i = min(ln, len(lines)) - 1
            while i >= 0 and not lines[i].startswith("def "):
                i -= 1
            if i >= 0:
                name = lines[i][4:lines[i].index("(")]
                bad.add(name)
                dropped.setdefault(name, msg)
        if not bad:
            break
        source = _drop_functions(source, bad)
    r["dropped"] = dropped
    r["c_dropped"] = c_dropped
    r["attempts"] = attempt + 1
    r["source"] = source
    r["wall"] = wall
    r["config"] = config
    r["modname"] = modname
    return r


def _drop_functions(source: str, names: set[str]) -> str:
    out: list[str] = []
    skip = False
    for ln in source.split("\n"):
        if ln.startswith("def "):
            skip = ln[4:ln.index("(")] in names
        if not skip:
            out.append(ln)
    return "\n".join(out)


def _call(fn: Any, args: tuple[Any, ...]) -> tuple[str, Any]:
    try:
        return ("v", fn(*args))
    except Exception as e:  # noqa: BLE001 - the exception type is the observation
        return ("e", type(e).__name__)


def _ext(modname: str, so: str) -> Any:
    m = _loaded.get(so)
    if m is None:
        m = c15_build.load_extension(modname, so)
        _loaded[so] = m
    return m


def _ref_ns(source: str) -> dict[str, Any]:
    ns: dict[str, Any] = {"__name__": "c15ref"}
    exec(compile(source, "<c15-reference>", "exec"), ns)
    return ns


def _jsonable(v: Any) -> Any:
    if isinstance(v, tuple):
        return [_jsonable(x) for x in v]
    if isinstance(v, complex):
        return repr(v)
    return v


def _san_new_text(path: str | None, pos: int) -> tuple[str, int]:
    if not path:
        return "", pos
    try:
        size = os.path.getsize(path)
    except OSError:
        return "", pos
    if size <= pos:
        return "", pos
    with open(path, "rb") as f:
        f.seek(pos)
        return f.read(20000).decode("utf-8", "replace"), size


def _parse_args(reprs: list[str]) -> tuple[Any, ...]:
    import math
    return tuple(eval(r, {"__builtins__": {}}, {"inf": math.inf, "nan": math.nan, "True": True, "False": False})
                 for r in reprs)


def drive(specs: list[dict[str, Any]], source: str, builds: dict[str, list[str]], boundary: bool, n_random: int,
          tag: str, marker: str | None = None, san_log: str | None = None, max_witness: int = 2, thin: int = 1,
          explicit: list[list[str]] | None = None) -> dict[str, Any]:
    """For every function and operand tuple: interpreter outcome -> demanded outcome -> compare every build.

    builds: {config: [modname, so_path]}. Returns per-function statistics, mismatches and sanitizer reports
    (each with a self-contained witness). `thin`>1 keeps every thin-th pair of the boundary cross product."""
    ns = _ref_ns(source)
    mods = {cfg: _ext(mn, so) for cfg, (mn, so) in builds.items()}
    san_path = f"{san_log}.{os.getpid()}" if san_log else None
    san_pos = [os.path.getsize(san_path) if san_path and os.path.exists(san_path) else 0]
    out: dict[str, Any] = {"funcs": {}, "mismatches": [], "san": [], "samples": []}
    expectation, same, rep_class, admissible = g.expectation, g.same, g.rep_class, g.admissible
    for spec in specs:
        name = spec["name"]
        ref = ns.get(name)
        fns = [(cfg, getattr(m, name, None)) for cfg, m in mods.items()]
        if ref is None or any(f is None for _, f in fns):
            out["funcs"][name] = {"missing": True}
            continue
        if marker:
            with open(marker, "w") as f:
                f.write(name)
        pt = spec["pt"]
        check_adm = spec["op"] in ("<<", "**")
        cells: dict[str, int] = {}
        evals = free = skipped = 0
        seen_keys: dict[str, int] = {}
        n_san = 0

        def witness(args: tuple[Any, ...], exp: Any, want: Any, got: Any, cfg: str) -> dict[str, Any]:
            return {"function": name, "config": cfg, "args": [_jsonable(a) for a in args],
                    "args_repr": [repr(a) for a in args], "interpreter": [exp[0], _jsonable(exp[1]), repr(exp[1])],
                    "demanded": [want[0], _jsonable(want[1]), repr(want[1])],
                    "compiled": [got[0], _jsonable(got[1]), repr(got[1])]}

        def one(args: tuple[Any, ...]) -> None:
            nonlocal evals, free, skipped, n_san
            if check_adm and not admissible(spec, args):
                skipped += 1
                return
            exp = _call(ref, args)
            if exp[0] == "v" and type(exp[1]) is complex:
                skipped += 1  # static type Any, runtime complex: outside int/bool/float
                return
            want = expectation(spec, args, exp)
            rc = ",".join([rep_class(t, v) for t, v in zip(pt, args)])
            is_free = want[0] == "free"
            ck = rc + "|" + ("free" if is_free else "value" if want[0] == "value" else "exc:" + want[1][0])
            cells[ck] = cells.get(ck, 0) + 1
            for cfg, fn in fns:
                got = _call(fn, args)
                if san_path and cfg == "san":
                    try:
                        grown = os.stat(san_path).st_size > san_pos[0]
                    except OSError:
                        grown = False
                    if grown:
                        text, san_pos[0] = _san_new_text(san_path, san_pos[0])
                        n_san += 1
                        w = witness(args, exp, want, got, cfg)
                        w["report"] = text[:3000]
                        w["kinds"] = san_kinds(text)
                        w["mechanism"] = g.mechanism(spec, args)
                        out["san"].append(w)
                if is_free:
                    free += 1
                    continue
                evals += 1
                if want[0] == "value":
                    ok = got[0] == "v" and same(got[1], want[1])
                else:
                    ok = got[0] == "e" and got[1] in want[1]
                if not ok:
                    key = g.violation_key(spec, args, want, got)
                    n = seen_keys.get(key, 0)
                    seen_keys[key] = n + 1
                    if n < max_witness:
                        w = witness(args, exp, want, got, cfg)
                        w["key"] = key
                        out["mismatches"].append(w)
                elif len(out["samples"]) < 2 and want[0] == "value" and evals % 89 == 40:
                    out["samples"].append(witness(args, exp, want, got, cfg))

        if explicit is not None:
            for reprs in explicit:
                one(_parse_args(reprs))
        if boundary:
            if thin <= 1:
                for args in g.iter_boundary(spec):
                    one(args)
            else:
                for i, args in enumerate(g.iter_boundary(spec)):
                    if (i * 7 + i // 101) % thin == 0:
                        one(args)
        if n_random and pt:
            r = common.rng_for("C15", "random-operands", name.split("_", 1)[1], tag)
            for _ in range(n_random):
                one(g.random_operands(spec, r))
        st: dict[str, Any] = {"evals": evals, "free": free, "skipped": skipped, "cells": cells}
        if seen_keys:
            st["keys"] = seen_keys
        if n_san:
            st["san_reports"] = n_san
        out["funcs"][name] = st
    if marker:
        with open(marker, "w") as f:
            f.write("")
    return out


def pinpoint(spec: dict[str, Any], source: str, build: list[str], marker: str, san_log: str | None = None,
             n_random: int = 0, tag: str = "") -> dict[str, Any]:
    """Fresh process: replay one function's operand stream, writing each tuple to `marker` before the call
    (so a crash leaves the culprit behind) and stopping at the first growth of the sanitizer log."""
    ns = _ref_ns(source)
    mod = _ext(build[0], build[1])
    fn = getattr(mod, spec["name"])
    ref = ns[spec["name"]]
    san_path = f"{san_log}.{os.getpid()}" if san_log else None
    pos = os.path.getsize(san_path) if san_path and os.path.exists(san_path) else 0
    fd = os.open(marker, os.O_WRONLY | os.O_CREAT | os.O_TRUNC)

    def stream() -> Any:
        yield from g.iter_boundary(spec)
        if n_random and spec["pt"]:
            r = common.rng_for("C15", "random-operands", spec["name"].split("_", 1)[1], tag)
            for _ in range(n_random):
                yield g.random_operands(spec, r)

    reports = []
    for args in stream():
        if not g.admissible(spec, args):
            continue
        exp = _call(ref, args)
        os.lseek(fd, 0, 0)
        os.ftruncate(fd, 0)
        os.write(fd, repr([repr(a) for a in args]).encode())
        got = _call(fn, args)
        if san_path:
            text, pos = _san_new_text(san_path, pos)
            if text:
                reports.append({"args_repr": [repr(a) for a in args], "args": [_jsonable(a) for a in args],
                                "interpreter": [exp[0], repr(exp[1])], "compiled": [got[0], repr(got[1])],
                                "report": text[:3000]})
                if len(reports) >= 4:
                    break
    os.close(fd)
    os.unlink(marker)
    return {"reports": reports}


SAN_RE = re.compile(r"runtime error: (.*)")


def san_kinds(text: str) -> list[str]:
    """Normalised UBSan/ASan report kinds (numbers and type names abstracted) found in a log fragment."""
    kinds = []
    for m in SAN_RE.finditer(text):
        msg = re.sub(r"\(aka '[^']*'\)", "", m.group(1))
        msg = re.sub(r"-?\d+(\.\d+)?(e[+-]?\d+)?", "N", msg)
        msg = re.sub(r"'[^']*'", "T", msg)
        kinds.append("ubsan:" + re.sub(r"[^A-Za-z]+", "-", msg).strip("-")[:60])
    for m in re.finditer(r"ERROR: AddressSanitizer: ([a-zA-Z-]+)", text):
        kinds.append("asan:" + m.group(1))
    return sorted(set(kinds))
