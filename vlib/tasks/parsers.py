"""Pool task for C14: the same files checked with the default parser and with --native-parser."""

from __future__ import annotations

import re

from typing import Any

from vlib import diag
from vlib.tasks import basic

POS_FLAGS = ["--show-column-numbers", "--show-error-end", "--hide-error-context"]


def check_positions(out: str, files: dict[str, str]) -> list[dict[str, Any]]:
    bad = []
    for e in diag.parse(out):
        if e["file"] is None or e["line"] is None:
            continue
        text = files.get(e["file"])
        if text is None:
            continue
        # the (empty) line after a final newline exists: EOF positions may legitimately point there
        lines = re.split(r"\r\n|\r|\n", text)   # the line terminators Python's tokenizer knows (not \f, \v, \x1c..)
        nl = max(len(lines), 1)
        why = None
        excess = None
        if not (1 <= e["line"] <= nl):
            why = f"line {e['line']} outside 1..{nl}"
        else:
            ln = lines[e["line"] - 1] if lines else ""
            blen = max(len(ln), len(ln.encode("utf-8", "replace")))  # columns may be utf-8 byte offsets: both accepted
            if e["col"] is not None and not (1 <= e["col"] <= blen + 1):
                why = f"column {e['col']} outside line of length {len(ln)}"
                excess = e["col"] - (blen + 1)
        if why is None and e["eline"] is not None:
            if (e["eline"], e["ecol"]) < (e["line"], e["col"] or 0):
                why = f"end {e['eline']}:{e['ecol']} before start {e['line']}:{e['col']}"
            elif not (1 <= e["eline"] <= nl):
                why = f"end line {e['eline']} outside 1..{nl}"
            else:
                eln = lines[e["eline"] - 1] if lines else ""
                eblen = max(len(eln), len(eln.encode("utf-8", "replace")))
                if e["ecol"] is not None and not (0 <= e["ecol"] <= eblen + 1):
                    why = f"end column {e['ecol']} outside line of length {len(eln)}"
        if why:
            bad.append({"why": why, "raw": e["raw"], "excess": excess})
    return bad


def both(files: dict[str, str], flags: list[str], targets: list[str]) -> dict[str, Any]:
    res: dict[str, Any] = {}
    for name, pf in (("default", "--no-native-parser"), ("native", "--native-parser")):
        r = basic.check_typeshed(files, ["--show-traceback", pf, *POS_FLAGS, *flags], targets)
        res[name] = {"out": r["out"] + r["err"], "status": r["status"],
                     "failed": (r.get("crash") or {}).get("key") or (str(r["internal"][0])[:300] if r.get("internal") else None)}
        res[name]["bad_pos"] = check_positions(res[name]["out"], files)
        res[name]["syntax"] = [(e["file"], e["line"]) for e in diag.parse(res[name]["out"])
                               if e["sev"] == "error" and e["raw"].rstrip().endswith("[syntax]")]
    return res
