"""C11 pool tasks: real in-process builds with a read-after-write contract on `State.write_cache`.

Each time the real build is about to write module M, a *forked child* of the worker (so nothing the
contract does can leak into the build it observes) serializes M's live tree with the repository's
writers in both formats, reads both back with the repository's readers, installs the reload in the
(child's copy of the) live module map, runs the repository's `State.fix_cross_refs` and lazy
`SymbolTableNode.node` fixups, and compares:  live vs JSON reload, live vs binary reload (modulo
c11_walk.PROJECTION), JSON reload vs binary reload (no exclusions), re-serialization of each
reload vs the first bytes (idempotence, also across formats), two serializations of the same live
tree, and - back in the parent - the interface hash the real `write_cache` computed vs the hash of
the child's bytes.  Then per-node *flag vectors*: every flag listed in the classes' own flag tables
is set/cleared on real nodes of the module (child only) and sent through both codecs.
"""

from __future__ import annotations

import json
import os
import select
import shutil
import signal
import sys
import time
import traceback
from typing import Any

from vlib import common, inproc
from vlib.tasks.basic import _ROOT, _WDIR, fresh_dir

_installed = False
_active = False
_records: list[dict[str, Any]] = []
_cfg: dict[str, Any] = {"flips": 0, "scope": "all", "child_timeout": 300.0}


# ------------------------------------------------------------------------------------------
# child side
# ------------------------------------------------------------------------------------------
def _exc_key(e: BaseException) -> str:
    tb = traceback.extract_tb(e.__traceback__)
    inner = None
    for fr in reversed(tb):
        if "/mypy/" in fr.filename or "/mypyc/" in fr.filename:
            inner = fr
            break
    where = f"{os.path.basename(inner.filename)}:{inner.name}" if inner else "?"
    return f"{type(e).__name__}@{where}"


def _ser(tree: Any, fmt: str) -> bytes:
    from mypy.util import json_dumps
    if fmt == "binary":
        from librt.internal import WriteBuffer
        wb = WriteBuffer()
        tree.write(wb)
        return wb.getvalue()
    return json_dumps(tree.serialize())


def _deser(data: bytes, fmt: str) -> Any:
    from mypy.nodes import MypyFile
    from mypy.util import json_loads
    if fmt == "binary":
        from librt.internal import ReadBuffer
        return MypyFile.read(ReadBuffer(data))
    return MypyFile.deserialize(json_loads(data))


def _contract(state: Any) -> dict[str, Any]:
    """Runs in the forked child."""
    import hashlib

    from mypy.plugin import ReportConfigContext
    from mypy.util import hash_digest_bytes, json_dumps

    from vlib import c11_walk as W

    manager = state.manager
    mid = state.id
    live = state.tree
    mods = manager.modules
    res: dict[str, Any] = {"id": mid, "path": state.path, "checks": 0, "diffs": {}, "raises": {}, "cells": {},
                           "bytes": {}, "idem": {}, "symbols": 0, "defined": 0}
    first: dict[str, bytes] = {}
    tm: dict[str, float] = {}
    t0 = time.time()
    res["tm"] = tm
    for fmt in ("binary", "json"):
        try:
            b1 = _ser(live, fmt)
            b2 = _ser(live, fmt)
        except BaseException as e:
            res["raises"][f"serialize:{fmt}"] = {"key": _exc_key(e), "tb": traceback.format_exc()[-2500:]}
            continue
        first[fmt] = b1
        res["checks"] += 1
        res["bytes"][fmt] = {"len": len(b1), "sha": hashlib.sha1(b1).hexdigest()[:16]}
        if b1 != b2:
            res["idem"][f"same-tree-twice:{fmt}"] = _bytes_diff(b1, b2)
    if "json" in first:
        # digest of the JSON form with *fresh* type variable ids (positive raw id, empty namespace: allocated from the
        # process-global counter TypeVarId.next_raw_id) renumbered in order of first appearance; lets the parent tell
        # "same interface up to the numbering of fresh type variables" from any other difference between two builds
        try:
            res["bytes"]["json"]["sha_fresh_ids_renumbered"] = _alpha_sha(first["json"])
        except Exception:
            pass
    plugin_data = manager.plugin.report_config_data(ReportConfigContext(mid, state.path, is_check=False))
    own = "binary" if manager.options.fixed_format_cache else "json"
    if own in first:
        res["expect_hash"] = hash_digest_bytes(first[own] + json_dumps(plugin_data)).hex()
    res["own"] = own

    tm["ser"] = time.time() - t0
    t0 = time.time()
    reloads: dict[str, Any] = {}
    xrefs: dict[str, set[int]] = {}
    for fmt in ("json", "binary"):
        if fmt not in first:
            continue
        try:
            r = _deser(first[fmt], fmt)
            xrefs[fmt] = W.mark_cross_refs(r)
            mods[mid] = r
            state.tree = r
            state.fix_cross_refs()          # the repository's own fixup entry point
            W.force(r)                      # ... and its lazy per-symbol loader/fixer
            reloads[fmt] = r
        except BaseException as e:
            res["raises"][f"reload:{fmt}"] = {"key": _exc_key(e), "tb": traceback.format_exc()[-2500:]}
        finally:
            state.tree = live
    tm["reload"] = time.time() - t0
    t0 = time.time()
    # keep one of the reloads installed (as a warm run would have it); live objects stay reachable from `live`
    for fmt, r in reloads.items():
        d = W.Differ(True, mods, was_xref=xrefs[fmt])
        try:
            d.diff(live, r, mid, "MypyFile")
        except BaseException as e:
            res["raises"][f"compare:live-vs-{fmt}"] = {"key": _exc_key(e), "tb": traceback.format_exc()[-2500:]}
        res["checks"] += 1
        res["diffs"][f"live-vs-{fmt}"] = {"n": d.ndiffs, "by_key": d.by_key}
        if fmt == "binary" or "binary" not in reloads:
            res["cells"] = d.cells
            res["symbols"], res["defined"] = d.symbols, d.defined
    if len(reloads) == 2:
        d = W.Differ(False, mods, was_xref=xrefs["json"] | xrefs["binary"])
        try:
            d.diff(reloads["json"], reloads["binary"], mid, "MypyFile")
        except BaseException as e:
            res["raises"]["compare:json-vs-binary"] = {"key": _exc_key(e), "tb": traceback.format_exc()[-2500:]}
        res["checks"] += 1
        res["diffs"]["json-vs-binary"] = {"n": d.ndiffs, "by_key": d.by_key}
    tm["diff"] = time.time() - t0
    t0 = time.time()
    # idempotence: bytes(reload) == bytes(live), in the reload's own format and across formats
    for rfmt, r in reloads.items():
        for wfmt in ("json", "binary"):
            if wfmt not in first:
                continue
            try:
                mods[mid] = r
                again = _ser(r, wfmt)
            except BaseException as e:
                res["raises"][f"reserialize:{rfmt}-reload-as-{wfmt}"] = {"key": _exc_key(e), "tb": traceback.format_exc()[-2500:]}
                continue
            res["checks"] += 1
            if again != first[wfmt]:
                res["idem"][f"{rfmt}-reload-as-{wfmt}"] = _bytes_diff(first[wfmt], again, wfmt)
    mods[mid] = live
    tm["idem"] = time.time() - t0
    t0 = time.time()
    if _cfg.get("flips"):
        try:
            res["flips"] = _flag_vectors(live, mid, int(_cfg["flips"]))
        except BaseException as e:
            res["raises"]["flagvec"] = {"key": _exc_key(e), "tb": traceback.format_exc()[-2500:]}
    return res


def _alpha_sha(js: bytes) -> str:
    import hashlib
    doc = json.loads(js)
    ren: dict[int, int] = {}
    todo = [doc]
    # deterministic traversal: dict keys sorted, lists in order (iterative, explicit stack in reverse)
    while todo:
        x = todo.pop()
        if isinstance(x, dict):
            if x.get(".class") in ("TypeVarType", "ParamSpecType", "TypeVarTupleType") and isinstance(x.get("id"), int) \
                    and x["id"] > 0 and x.get("namespace", "") == "":
                x["id"] = ren.setdefault(x["id"], 1_000_000 + len(ren))
            for k in sorted(x, reverse=True):
                if isinstance(x[k], (dict, list)):
                    todo.append(x[k])
        elif isinstance(x, list):
            for v in reversed(x):
                if isinstance(v, (dict, list)):
                    todo.append(v)
    return hashlib.sha1(json.dumps(doc, sort_keys=True).encode()).hexdigest()[:16]


def _bytes_diff(a: bytes, b: bytes, fmt: str = "") -> dict[str, Any]:
    i = 0
    n = min(len(a), len(b))
    while i < n and a[i] == b[i]:
        i += 1
    out: dict[str, Any] = {"len_a": len(a), "len_b": len(b), "first_diff_at": i,
                           "a": repr(a[max(0, i - 60): i + 60]), "b": repr(b[max(0, i - 60): i + 60])}
    if fmt == "json":
        try:
            out["json_paths"] = _json_diff(json.loads(a), json.loads(b), "", [])[:6]
        except Exception:
            pass
    return out


def _json_diff(a: Any, b: Any, path: str, out: list[Any], cls: str | None = None, attr: str | None = None) -> list[Any]:
    """First few differing leaves of two JSON documents, each with the nearest enclosing '.class' and
    the attribute of that object under which the difference lies ("TypedDictType.items")."""
    if len(out) >= 6:
        return out
    if isinstance(a, dict) and isinstance(b, dict):
        if isinstance(a.get(".class"), str):
            cls, attr = a[".class"], None
        for k in sorted(set(a) | set(b)):
            at = attr if attr is not None else k
            if k not in a or k not in b:
                out.append({"path": f"{path}.{k}", "where": f"{cls}.{at}", "a": str(a.get(k, "<absent>"))[:160],
                            "b": str(b.get(k, "<absent>"))[:160]})
            else:
                _json_diff(a[k], b[k], f"{path}.{k}", out, cls, at)
    elif isinstance(a, list) and isinstance(b, list) and len(a) == len(b):
        for i, (x, y) in enumerate(zip(a, b)):
            _json_diff(x, y, f"{path}[{i}]", out, cls, attr)
    elif a != b or type(a) is not type(b):
        out.append({"path": path, "where": f"{cls}.{attr}", "a": str(a)[:160], "b": str(b)[:160]})
    return out


# ---- flag vectors -------------------------------------------------------------------------
def _collect_nodes(tree: Any) -> dict[str, list[Any]]:
    import mypy.nodes as N
    out: dict[str, list[Any]] = {"Var": [], "FuncDef": [], "OverloadedFuncDef": [], "TypeInfo": [], "Decorator": []}
    todo = [(tree.names, tree.fullname)]
    while todo:
        tab, prefix = todo.pop()
        for name in sorted(tab):
            stn = tab[name]
            n = stn._node
            if n is None or stn.no_serialize or isinstance(n, N.MypyFile):
                continue
            if n.fullname != f"{prefix}.{name}":
                continue
            if isinstance(n, N.TypeInfo):
                out["TypeInfo"].append(n)
                todo.append((n.names, n.fullname))
            elif isinstance(n, N.Decorator):
                out["Decorator"].append(n)
                out["FuncDef"].append(n.func)
                out["Var"].append(n.var)
            elif isinstance(n, N.OverloadedFuncDef):
                out["OverloadedFuncDef"].append(n)
            elif type(n).__name__ in out:
                out[type(n).__name__].append(n)
    return out


def _roundtrip_node(node: Any) -> tuple[Any, Any]:
    import mypy.nodes as N
    from librt.internal import ReadBuffer, WriteBuffer
    from mypy.cache import read_tag
    from mypy.util import json_dumps, json_loads
    bj = N.SymbolNode.deserialize(json_loads(json_dumps(node.serialize())))
    wb = WriteBuffer()
    node.write(wb)
    rb = ReadBuffer(wb.getvalue())
    tag = read_tag(rb)
    if isinstance(node, N.TypeInfo):
        bb: Any = N.TypeInfo.read(rb)
    else:
        bb = N.read_symbol(rb, tag)
    # the repository's fixer, so that both copies are in the state an importer would see
    from mypy.modules_state import modules_state
    fixer = modules_state.node_fixer
    assert fixer is not None
    for back in (bj, bb):
        if isinstance(back, N.TypeInfo):
            fixer.visit_type_info(back)
        else:
            back.accept(fixer)
    return bj, bb


def _flag_vectors(tree: Any, mid: str, budget: int) -> dict[str, Any]:
    """Set every flag of the classes' own flag tables on real nodes (this is the child: the live tree
    is ours to modify) and send the node through both codecs."""
    import mypy.nodes as N

    from vlib import c11_walk as W

    tables = {"Var": list(N.VAR_FLAGS), "FuncDef": list(N.FUNCDEF_FLAGS),
              "OverloadedFuncDef": list(N.FUNCBASE_FLAGS), "TypeInfo": list(N.TypeInfo.FLAGS)}
    rng = common.rng_for("C11", "flagvec", mid)
    nodes = _collect_nodes(tree)
    out: dict[str, Any] = {"evals": 0, "bad": [], "cells": {}}
    for cls, table in tables.items():
        cand = nodes.get(cls) or []
        if not cand:
            continue
        # one node of each shape (with / without a type), so that what is exercised does not depend on the draw
        with_t = [n for n in cand if getattr(n, "type", None) is not None]
        without_t = [n for n in cand if getattr(n, "type", None) is None]
        picks = [grp[rng.randrange(len(grp))] for grp in (with_t, without_t) if grp]
        for pi, node in enumerate(picks):
            saved = {f: getattr(node, f) for f in table}
            saved_names = None
            if cls == "TypeInfo":
                saved_names = node.names
                node.names = N.SymbolTable()     # flags do not depend on the members; keeps the round trip small
            vectors: list[dict[str, bool]] = []
            vectors.append({g: False for g in table})
            vectors.append({g: True for g in table})
            for f in table:                      # every single flag on, all others off; and its complement
                vectors.append({g: (g == f) for g in table})
                vectors.append({g: (g != f) for g in table})
            for _ in range(max(1, budget)):
                vectors.append({g: rng.random() < 0.5 for g in table})
            try:
                for vec in vectors:
                    for f, v in vec.items():
                        setattr(node, f, v)
                    out["evals"] += 1
                    try:
                        bj, bb = _roundtrip_node(node)
                    except BaseException as e:
                        out["bad"].append({"cls": cls, "flag": "<raises>", "pair": _exc_key(e), "vec": [f for f, v in vec.items() if v],
                                           "node": node.fullname})
                        continue
                    ons = [f for f, v in vec.items() if v]
                    if len(ons) <= 1:
                        on = ons[0] if ons else "-"
                    elif len(ons) == len(vec):
                        on = "all"
                    elif len(ons) == len(vec) - 1:
                        on = "all-but-" + next(f for f, v in vec.items() if not v)
                    else:
                        on = "random-subset"
                    out["cells"][f"flagvec:{cls}|{on}"] = out["cells"].get(f"flagvec:{cls}|{on}", 0) + 1
                    for f, v in vec.items():
                        gj, gb = getattr(bj, f, W.UNSET), getattr(bb, f, W.UNSET)
                        if gj is not v and len(out["bad"]) < 400:
                            out["bad"].append({"cls": cls, "flag": f, "pair": "live-vs-json", "want": v, "got": gj,
                                               "vec": [g for g, w in vec.items() if w], "node": node.fullname})
                        if gb is not v and len(out["bad"]) < 400:
                            out["bad"].append({"cls": cls, "flag": f, "pair": "live-vs-binary", "want": v, "got": gb,
                                               "vec": [g for g, w in vec.items() if w], "node": node.fullname})
                    d = W.Differ(False, {}, was_xref=set())
                    d.diff(bj, bb, node.fullname, cls)
                    flagged = {f"{cls}.{b['flag']}" for b in out["bad"] if b.get("cls") == cls}
                    for it in d.diffs[:5]:
                        if it["where"] in flagged:
                            continue      # same flag already reported against the live value
                        if len(out["bad"]) < 400:
                            out["bad"].append({"cls": cls, "flag": it["where"], "pair": "json-vs-binary", "a": it["a"], "b": it["b"],
                                               "vec": [g for g, w in vec.items() if w], "node": node.fullname, "struct": True})
            finally:
                for f, v in saved.items():
                    setattr(node, f, v)
                if saved_names is not None:
                    node.names = saved_names
    return out


# ------------------------------------------------------------------------------------------
# parent (worker) side
# ------------------------------------------------------------------------------------------
def _fork_contract(state: Any) -> dict[str, Any]:
    r, w = os.pipe()
    t_fork = time.time()
    sys.stdout.flush()
    sys.stderr.flush()
    pid = os.fork()
    if pid == 0:
        code = 0
        try:
            os.close(r)
            try:
                res = _contract(state)
            except BaseException as e:
                res = {"id": state.id, "path": state.path, "harness_exc": f"{type(e).__name__}: {e}",
                       "tb": traceback.format_exc()[-3000:]}
            data = json.dumps(res, default=repr).encode()
            with os.fdopen(w, "wb") as f:
                f.write(data)
        except BaseException:
            code = 3
        finally:
            os._exit(code)
    os.close(w)
    chunks: list[bytes] = []
    deadline = time.time() + float(_cfg["child_timeout"])
    timed_out = False
    while True:
        left = deadline - time.time()
        if left <= 0:
            timed_out = True
            break
        rr, _, _ = select.select([r], [], [], min(left, 2.0))
        if rr:
            c = os.read(r, 1 << 16)
            if not c:
                break
            chunks.append(c)
    os.close(r)
    if timed_out:
        try:
            os.kill(pid, signal.SIGKILL)
        except OSError:
            pass
    _, st = os.waitpid(pid, 0)
    if timed_out:
        return {"id": state.id, "path": state.path, "timeout": True}
    if os.WIFSIGNALED(st):
        return {"id": state.id, "path": state.path, "child_signal": os.WTERMSIG(st)}
    try:
        out = json.loads(b"".join(chunks))
        out["wall"] = round(time.time() - t_fork, 3)
        return out  # type: ignore[no-any-return]
    except ValueError:
        return {"id": state.id, "path": state.path, "harness_exc": f"child exit {os.WEXITSTATUS(st)} without a result"}


def install() -> None:
    global _installed
    if _installed:
        return
    _installed = True
    from mypy import build as B

    orig = B.State.write_cache

    def write_cache(self: Any) -> Any:
        rec = None
        if (_active and self.tree is not None and self.path and self.options.cache_dir != os.devnull
                and not self.options.fine_grained_incremental
                and (_cfg["scope"] == "all" or not self.tree.is_typeshed_file(self.options))):
            try:
                rec = _fork_contract(self)
            except BaseException as e:  # harness trouble is never a verdict
                rec = {"id": self.id, "path": self.path, "harness_exc": f"{type(e).__name__}: {e}"}
        result = orig(self)
        if rec is not None:
            rec["written"] = result is not None
            if rec.get("expect_hash") is not None:
                rec["got_hash"] = self.interface_hash.hex()
            _records.append(rec)
        return result

    B.State.write_cache = write_cache  # type: ignore[method-assign]


def build(files: dict[str, str] | None, args: list[str], cold: bool = False, ff: bool = True, flips: int = 0,
          scope: str = "all", base_flags: list[str] | None = None) -> dict[str, Any]:
    """`mypy <args>` in a fresh directory holding `files`, with the contract active on every module
    the build writes.  cold: empty cache (the whole import closure is written); otherwise a private
    copy of a typeshed-only base cache in the same format (only new modules are written; their
    dependencies are loaded from the cache, lazily, as in a real warm run).  scope="user": the contract
    skips typeshed modules (they are covered by the stdlib workload)."""
    global _active
    install()
    d = fresh_dir("c11-")
    fmt_flag = [] if ff else ["--no-fixed-format-cache"]
    try:
        if files:
            common.write_files(d, files, mtime=1_500_000_000)
        cache = os.path.join(d, ".vcache")
        if not cold:
            base = inproc.base_cache(_ROOT, [*(base_flags if base_flags is not None else []), *fmt_flag])
            shutil.copytree(base, cache)
        _cfg["flips"] = flips
        _cfg["scope"] = scope
        del _records[:]
        _active = True
        try:
            r = inproc.run_mypy(["--no-error-summary", "--cache-dir", cache, *fmt_flag, *args], cwd=d)
        finally:
            _active = False
        recs = list(_records)
        del _records[:]
        return {"status": r["status"], "crash": r.get("crash"), "internal": r.get("internal"),
                "out": (r.get("out") or "")[-600:], "err": (r.get("err") or "")[-600:], "records": recs}
    finally:
        shutil.rmtree(d, ignore_errors=True)
