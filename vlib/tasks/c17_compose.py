"""C17 composition stream: several sections that set DISJOINT options for overlapping module patterns, supplied as mypy.ini
and as the equivalent pyproject.toml (with `module = [..]` lists). Nothing conflicts, so the effective per-module options are
simply the union of what every matching section sets - and both formats must agree. Observed through the real
process_options + Options.clone_for_module."""

from __future__ import annotations

import io
import os
import re
import shutil
from contextlib import redirect_stderr, redirect_stdout
from typing import Any

from vlib import common
from vlib.tasks import basic

BOOL_OPTS = ["disallow_untyped_defs", "warn_return_any", "disallow_any_generics", "check_untyped_defs", "warn_unreachable",
             "disallow_untyped_calls", "strict_equality", "disallow_incomplete_defs", "implicit_optional", "disallow_untyped_decorators"]
CODE_OPTS = {"enable_error_code": ["truthy-bool", "redundant-expr", "possibly-undefined", "ignore-without-code"],
             "disable_error_code": ["arg-type", "assignment", "operator", "return-value"]}


def matches(pattern: str, module: str) -> bool:
    """Documented semantics: a '*' stands for zero or more module components."""
    parts = pattern.split(".")
    comps = module.split(".")

    def rec(pi: int, ci: int) -> bool:
        if pi == len(parts):
            return ci == len(comps)
        if parts[pi] == "*":
            return any(rec(pi + 1, cj) for cj in range(ci, len(comps) + 1))
        return ci < len(comps) and comps[ci] == parts[pi] and rec(pi + 1, ci + 1)

    return rec(0, 0)


def render_ini(sections: list[dict[str, Any]]) -> str:
    out = ["[mypy]\n"]
    for s in sections:
        out.append(f"[mypy-{','.join(s['patterns'])}]\n")
        for k, v in s["opts"].items():
            out.append(f"{k} = {', '.join(v) if isinstance(v, list) else v}\n")
    return "".join(out)


def render_toml(sections: list[dict[str, Any]]) -> str:
    out = ["[tool.mypy]\n"]
    for s in sections:
        out.append("[[tool.mypy.overrides]]\n")
        pats = s["patterns"]
        out.append("module = " + (repr(pats[0]).replace("'", '"') if len(pats) == 1 else "[" + ", ".join('"%s"' % p for p in pats) + "]") + "\n")
        for k, v in s["opts"].items():
            if isinstance(v, list):
                out.append(f"{k} = [" + ", ".join('"%s"' % x for x in v) + "]\n")
            else:
                out.append(f"{k} = {str(v).lower()}\n")
    return "".join(out)


def _effective(d: str, config_name: str, modules: list[str]) -> dict[str, Any]:
    from mypy.main import process_options
    out, err = io.StringIO(), io.StringIO()
    old = os.getcwd()
    try:
        os.chdir(d)
        with redirect_stdout(out), redirect_stderr(err):
            _, options = process_options(["--config-file", config_name, "-c", "pass"])
    except SystemExit as e:
        return {"rejected": str(e.code), "err": err.getvalue()[-400:]}
    finally:
        os.chdir(old)
    res: dict[str, Any] = {"err": err.getvalue()[-400:], "mods": {}}
    base = options
    for m in modules:
        o = options.clone_for_module(m)
        res["mods"][m] = {**{k: bool(getattr(o, k)) for k in BOOL_OPTS},
                          # the effective sets (the list attributes only hold the last section's increment)
                          "enable_error_code": sorted({c.code for c in o.enabled_error_codes} - {c.code for c in base.enabled_error_codes}),
                          "disable_error_code": sorted({c.code for c in o.disabled_error_codes} - {c.code for c in base.disabled_error_codes})}
    return res


def compose(sections: list[dict[str, Any]], modules: list[str], toml_sections: list[dict[str, Any]] | None = None) -> dict[str, Any]:
    """`toml_sections` (optional) is an equivalent decomposition for pyproject.toml in which a module may be named by several
    overrides that set different options (legal in TOML only)."""
    d = basic.fresh_dir("c17c")
    try:
        common.write_files(d, {"mypy.ini": render_ini(sections), "pyproject.toml": render_toml(toml_sections or sections)})
        ini = _effective(d, "mypy.ini", modules)
        toml = _effective(d, "pyproject.toml", modules)
        from mypy.options import Options
        defaults = Options()
        expected: dict[str, Any] = {}
        for m in modules:
            e: dict[str, Any] = {k: bool(getattr(defaults, k)) for k in BOOL_OPTS}
            e["enable_error_code"], e["disable_error_code"] = [], []
            for s in sections:
                if any(matches(p, m) for p in s["patterns"]):
                    for k, v in s["opts"].items():
                        if isinstance(v, list):
                            e[k] = sorted(set(e[k]) | set(v))
                        else:
                            e[k] = (v == "True")
            expected[m] = e
        return {"ini": ini, "toml": toml, "expected": expected}
    finally:
        shutil.rmtree(d, ignore_errors=True)
