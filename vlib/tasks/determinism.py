"""Pool tasks for C10: hash-seed independence (fresh processes), argument-order independence,
independence from earlier builds in the same interpreter."""

from __future__ import annotations

import hashlib
import json
import os
import shutil
import subprocess
from typing import Any

from vlib import common, inproc
from vlib.tasks import basic

TIME_FIELDS = ("mtime", "data_mtime")


def dump_cache(cache_dir: str) -> dict[str, Any]:
    """{record name: digest or decoded dict} for every record under cache_dir (filesystem store)."""
    from librt.internal import ReadBuffer

    from mypy.cache import CacheMeta

    out: dict[str, Any] = {}
    for root, _dirs, files in os.walk(cache_dir):
        for fn in sorted(files):
            p = os.path.join(root, fn)
            rel = os.path.relpath(p, cache_dir)
            if fn.endswith((".db", ".db-journal", ".gitignore", "CACHEDIR.TAG")) or fn.startswith("."):
                continue
            with open(p, "rb") as f:
                data = f.read()
            if fn.endswith(".meta.json"):
                d = json.loads(data)
                for k in TIME_FIELDS:
                    d.pop(k, None)
                out[rel] = d
            elif fn.endswith(".meta.ff"):
                try:
                    # two-byte format-version prefix, then CacheMeta.write() payload (see build.write_cache_meta)
                    m = CacheMeta.read(ReadBuffer(data[2:]), "x")
                    d = m.serialize() if m is not None else {"unreadable": True}
                    for k in TIME_FIELDS:
                        d.pop(k, None)
                    d["_prefix"] = list(data[:2])
                    out[rel] = d
                except Exception as e:
                    out[rel] = {"undecodable": repr(e), "sha": hashlib.sha1(data).hexdigest()}
            else:
                out[rel] = hashlib.sha1(data).hexdigest()
    return out


def seed_group(files: dict[str, str], flags: list[str], targets: list[str], seeds: list[str], fmt: str = "bin") -> dict[str, Any]:
    """Fresh `python -m mypy` processes, one per PYTHONHASHSEED, all in the SAME directory (cache records embed
    absolute paths of imported modules), each starting from an empty cache dir; filesystem store."""
    d = basic.fresh_dir("seed")
    out: dict[str, Any] = {}
    try:
        common.write_files(d, files, mtime=1_560_000_000)
        cache = os.path.join(d, ".c")
        fmtflag = "--fixed-format-cache" if fmt == "bin" else "--no-fixed-format-cache"
        for hs in seeds:
            shutil.rmtree(cache, ignore_errors=True)
            env = common.base_env()
            env["PYTHONHASHSEED"] = hs
            args = ["--no-sqlite-cache", fmtflag, "--cache-dir", ".c", *flags, *targets]
            r = common.run_cli(args, cwd=d, env=env, timeout=300)
            out[hs] = {"out": r["out"], "err": r["err"], "status": r["status"],
                       "cache": dump_cache(cache) if os.path.isdir(cache) else {}}
            if hs == seeds[0] and os.path.isdir(cache):
                shutil.rmtree(os.path.join(d, ".c0"), ignore_errors=True)
                shutil.copytree(cache, os.path.join(d, ".c0"))
        # warm replay: identical cache contents, identical files, only the hash seed differs
        if os.path.isdir(os.path.join(d, ".c0")):
            for hs in seeds:
                shutil.rmtree(cache, ignore_errors=True)
                shutil.copytree(os.path.join(d, ".c0"), cache)
                env = common.base_env()
                env["PYTHONHASHSEED"] = hs
                r = common.run_cli(["--no-sqlite-cache", fmtflag, "--cache-dir", ".c", *flags, *targets], cwd=d, env=env, timeout=300)
                out[hs]["warm"] = {"out": r["out"], "status": r["status"]}
        return out
    finally:
        shutil.rmtree(d, ignore_errors=True)


def order_run(files: dict[str, str], flags: list[str], order: list[str]) -> dict[str, Any]:
    r = basic.check_typeshed(files, ["--show-traceback", *flags], list(order), cold=True)
    return {"out": r["out"] + r["err"], "status": r["status"],
            "failed": (r.get("crash") or {}).get("key") or (str(r["internal"])[:200] if r.get("internal") else None)}


def _probe(files: dict[str, str], flags: list[str], targets: list[str]) -> dict[str, Any]:
    """Probe build in a directory whose path depends only on the program (shared by the compared runs; flock-serialised)."""
    import fcntl
    root = os.environ.get("VERIF_FIXED_ROOT") or basic._ROOT
    d = os.path.join(root, "fixed-" + common.fingerprint(files, flags))
    os.makedirs(root, exist_ok=True)
    with open(d + ".lock", "w") as lk:
        fcntl.flock(lk, fcntl.LOCK_EX)
        shutil.rmtree(d, ignore_errors=True)
        os.makedirs(d)
        try:
            common.write_files(d, files, mtime=1_560_000_000)
            cache = os.path.join(d, ".c")
            r = inproc.run_mypy(["--no-sqlite-cache", "--cache-dir", ".c", *flags, *targets], cwd=d)
            return {"out": r["out"], "err": r["err"], "status": r["status"], "cache": dump_cache(cache) if os.path.isdir(cache) else {},
                    "failed": (r.get("crash") or {}).get("key") or (str(r["internal"])[:200] if r.get("internal") else None)}
        finally:
            shutil.rmtree(d, ignore_errors=True)


def after_prelude(prelude: list[dict[str, Any]], files: dict[str, str], flags: list[str], targets: list[str],
                  daemon_prelude: bool = False) -> dict[str, Any]:
    """Run unrelated builds (and optionally a dmypy Server session) in THIS interpreter, then the probe build with an
    empty cache; the caller compares with the same probe made by a fresh process."""
    state: dict[str, Any] = {}
    for p in prelude:
        basic.check_typeshed(p["files"], p.get("flags", []), p.get("targets"), cold=bool(p.get("cold")))
    if daemon_prelude and prelude:
        from vlib.tasks import daemon
        daemon.run_history([prelude[0]["files"], prelude[-1]["files"]], [], ["main.py"], oracle_last_only=True)
    try:
        from mypy.build import SCC
        from mypy.types import TypeVarId
        state = {"TypeVarId.next_raw_id": getattr(TypeVarId, "next_raw_id", None), "SCC.id_counter": getattr(SCC, "id_counter", None)}
    except Exception:
        pass
    r = _probe(files, flags, targets)
    r["global_state_before_probe"] = state
    return r


def fresh_probe(files: dict[str, str], flags: list[str], targets: list[str]) -> dict[str, Any]:
    """The probe build in a brand-new interpreter (subprocess running this module's _probe)."""
    # same sys.path shape as a pool worker (mypy's in-process API derives package search paths from sys.path[1:])
    code = ("import json,sys; from vlib.tasks import determinism as D; "
            "a=json.load(sys.stdin); print('\\n@@RESULT@@'+json.dumps(D._probe(a['files'],a['flags'],a['targets'])))")
    env = common.base_env(VERIF_POOL_ROOT=basic._WDIR, VERIF_FIXED_ROOT=basic._ROOT)
    p = subprocess.run([common.PY, "-c", code], input=json.dumps({"files": files, "flags": flags, "targets": targets}),
                       capture_output=True, text=True, timeout=600, env=env, cwd=common.VERIF)
    if "@@RESULT@@" not in p.stdout:
        return {"failed": "fresh probe process failed: " + p.stderr[-400:]}
    return json.loads(p.stdout.split("@@RESULT@@", 1)[1])
