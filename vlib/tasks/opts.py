"""Pool tasks for C09: enumerate the live flag table; run option-toggle scenarios on one cache dir."""

from __future__ import annotations

import io
import os
import shutil
from typing import Any

from vlib import common, diag, inproc, witnesses
from vlib.tasks import basic

EXCLUDE = {
    "help": "not an analysis option", "version": "not an analysis option",
    "cache_dir": "selects another cache directory; nothing is shared", "incremental": "--no-incremental disables the cache",
    "skip_version_check": "cache validity override by design", "skip_cache_mtime_checks": "cache validity override by design",
    "cache_fine_grained": "daemon cache format (covered through C03)", "debug_cache": "debug output of the cache files",
    "pdb": "debugger", "raise_exceptions": "debug", "show_traceback": "debug", "custom_typing_module": "needs a custom typeshed",
    "custom_typeshed_dir": "needs a custom typeshed", "python_executable": "environment selection", "bazel": "bazel protocol",
    "cache_map": "bazel protocol", "package_root": "bazel protocol", "shadow_file": "takes files", "find_occurrences": "experimental dump",
    "junit_xml": "report output", "junit_format": "report output", "install_types": "runs pip", "non_interactive": "runs pip",
    "dump_build_stats": "stats", "timing_stats": "stats", "line_checking_stats": "stats", "dump_graph": "debug", "dump_deps": "debug",
    "dump_type_stats": "debug", "dump_inference_stats": "debug", "verbosity": "log output on stderr only", "quickstart_file": "mypyd cache",
    "config_file": "exercised through the ini variants", "files": "target selection", "special-opts:modules": "target selection",
    "special-opts:packages": "target selection", "special-opts:command": "target selection", "special-opts:files": "target selection",
    "num_workers": "parallel mode is C07", "export_ref_info": "undocumented dump", "logical_deps": "daemon", "use_fine_grained_cache": "daemon",
    "mypyc": "mypyc-internal", "preserve_asts": "api", "export_types": "api", "inspections": "daemon", "fast_exit": "process exit mode",
    "soft_error_limit": "hidden/testing", "use_builtins_fixtures": "testing", "semantic_analysis_only": "testing",
    "stats": "debug", "test_env": "testing", "no_colour": "tty only", "color_output": "tty only (output not a tty here)",
}

VALUES: dict[str, list[list[str]]] = {
    "python_version": [["--python-version", "3.10"], ["--python-version", "3.14"]],
    "platform": [["--platform", "win32"], ["--platform", "darwin"]],
    "follow_imports": [["--follow-imports", "skip"], ["--follow-imports", "silent"], ["--follow-imports", "error"]],
    "always_true": [["--always-true", "MY_FLAG"]],
    "always_false": [["--always-false", "MY_FLAG"]],
    "special-opts:disable_error_code": [["--disable-error-code", "assignment"], ["--disable-error-code", "import-not-found"],
                                         ["--disable-error-code", "operator"]],
    "disable_error_code": [["--disable-error-code", "assignment"], ["--disable-error-code", "import-not-found"],
                           ["--disable-error-code", "operator"]],
    "enable_error_code": [["--enable-error-code", "truthy-bool"], ["--enable-error-code", "redundant-expr"],
                          ["--enable-error-code", "possibly-undefined"], ["--enable-error-code", "ignore-without-code"],
                          ["--enable-error-code", "unused-awaitable"], ["--enable-error-code", "explicit-override"],
                          ["--enable-error-code", "mutable-override"], ["--enable-error-code", "deprecated"],
                          ["--enable-error-code", "exhaustive-match"], ["--enable-error-code", "redundant-self"],
                          ["--enable-error-code", "truthy-iterable"], ["--enable-error-code", "unimported-reveal"]],
    "exclude": [["--exclude", "skipme"], ["--exclude", "ns/"]],
    "enable_incomplete_feature": [["--enable-incomplete-feature", "PreciseTupleTypes"], ["--enable-incomplete-feature", "InlineTypedDict"]],
    "untyped_calls_exclude": [["--disallow-untyped-calls", "--untyped-calls-exclude", "untyped_lib"]],
    "many_errors_threshold": [["--many-errors-threshold", "2"]],
    "deprecated_calls_exclude": [["--enable-error-code", "deprecated", "--deprecated-calls-exclude", "helper"]],
    "report_deprecated_as_note": [["--enable-error-code", "deprecated", "--report-deprecated-as-note"]],
}


def enumerate_flags() -> list[dict[str, Any]]:
    """The complete flag table, read from the live argparse parser of the code under test."""
    from mypy.main import define_options
    from mypy.options import OPTIONS_AFFECTING_CACHE, PER_MODULE_OPTIONS

    parser, _strict_flags, _ = define_options(stdout=io.StringIO(), stderr=io.StringIO())
    out: list[dict[str, Any]] = []
    for a in parser._actions:
        if not a.option_strings:
            continue
        dest = a.dest
        longs = [s for s in a.option_strings if s.startswith("--")] or list(a.option_strings)
        boolean = a.nargs == 0
        d: dict[str, Any] = {"dest": dest, "opt": longs[0], "all": list(a.option_strings), "boolean": boolean,
                             "in_cache_key": dest in OPTIONS_AFFECTING_CACHE, "per_module": dest in PER_MODULE_OPTIONS,
                             "suppressed": a.help == "==SUPPRESS=="}
        key = dest
        if key in EXCLUDE or (dest.startswith("special-opts:") and "report" in dest) or dest.endswith("_report"):
            d["excluded"] = EXCLUDE.get(key, "report generator (disables cache reads)")
        elif boolean:
            d["variants"] = [[longs[0]]]
        elif key in VALUES:
            d["variants"] = VALUES[key]
        else:
            d["uncovered"] = "valued option without candidate values"
        out.append(d)
    return out


def _run(d: str, cache: str, flags: list[str], targets: list[str]) -> dict[str, Any]:
    r = inproc.run_mypy(["--no-error-summary", "--cache-dir", cache, *flags, *targets], cwd=d, capture=True)
    r["once"] = sorted({i["message"] for i in r.get("infos") or [] if i["only_once"]})
    r.pop("infos", None)
    return {"out": r["out"] + r["err"], "status": r["status"], "once": r["once"],
            "failed": (r.get("crash") or {}).get("key") or (str(r["internal"])[:200] if r.get("internal") else None)}


def _cold(d: str, flags: list[str], targets: list[str], true_cold: bool) -> dict[str, Any]:
    cache = os.path.join(d, ".oracle_cache")
    shutil.rmtree(cache, ignore_errors=True)
    if not true_cold:
        try:
            shutil.copytree(inproc.base_cache(basic._ROOT, flags), cache)
        except RuntimeError:
            pass
    try:
        return _run(d, cache, flags, targets)
    finally:
        shutil.rmtree(cache, ignore_errors=True)


def toggle(widx: int, flags_a: list[str], flags_b: list[str], config: list[str], true_cold: bool = False,
           ini_a: str | None = None, ini_b: str | None = None, files: dict[str, str] | None = None,
           targets: list[str] | None = None) -> dict[str, Any]:
    """run(a) -> run(b) -> run(a) on ONE cache dir; each warm run compared with a cold run of the same options."""
    w = {"files": files, "targets": targets or ["main.py"]} if files is not None else witnesses.ALL[widx]
    d = basic.fresh_dir("opt")
    try:
        common.write_files(d, w["files"], mtime=1_550_000_000)
        fa, fb = [*config, *flags_a], [*config, *flags_b]
        if ini_a is not None:
            common.write_files(d, {"a.ini": ini_a, "b.ini": ini_b or ""}, mtime=1_550_000_000)
            fa, fb = [*fa, "--config-file", "a.ini"], [*fb, "--config-file", "b.ini"]
        cache = os.path.join(d, ".warm_cache")
        try:
            shutil.copytree(inproc.base_cache(basic._ROOT, fa), cache)
        except RuntimeError:
            os.makedirs(cache, exist_ok=True)
        t = w["targets"]
        cold_a = _cold(d, fa, t, true_cold)
        cold_b = _cold(d, fb, t, true_cold)
        res: dict[str, Any] = {"cold_a": cold_a, "cold_b": cold_b, "flags_a": fa, "flags_b": fb,
                               "differs_cold": cold_a["out"] != cold_b["out"] or cold_a["status"] != cold_b["status"]}
        if cold_a["failed"] or cold_b["failed"]:
            res["failed"] = cold_a["failed"] or cold_b["failed"]
            return res
        if cold_a["status"] == 2 and "usage:" in cold_a["out"] or cold_b["status"] == 2 and "usage:" in cold_b["out"]:
            res["usage_error"] = True
            return res
        seq = [("a", fa, cold_a), ("b", fb, cold_b), ("a", fa, cold_a)]
        runs = []
        for name, fl, cold in seq:
            r = _run(d, cache, fl, t)
            cmp = diag.compare(r["out"], cold["out"], r["status"], cold["status"])
            e: dict[str, Any] = {"opts": name, "out": r["out"], "status": r["status"], "equal": cmp["equal"], "failed": r["failed"]}
            if not cmp["equal"]:
                e["diffs"] = cmp["diffs"]
                once = set(r["once"]) | set(cold["once"])
                e["equal_mod_once"] = bool(once) and diag.compare(r["out"], cold["out"], r["status"], cold["status"], drop_msgs=once)["equal"]
            runs.append(e)
        res["runs"] = runs
        return res
    finally:
        shutil.rmtree(d, ignore_errors=True)


def per_module_bools() -> list[tuple[str, bool, str]]:
    """(option name, default, module section) for every boolean per-module option of the live Options()."""
    from mypy.options import PER_MODULE_OPTIONS, Options

    o = Options()
    out = []
    for name in sorted(PER_MODULE_OPTIONS):
        v = getattr(o, name, None)
        if isinstance(v, bool):
            out.append((name, v, "main"))
            out.append((name, v, "helper"))
    return out
