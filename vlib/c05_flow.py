"""Parent-side orchestration shared by checks/c05.py and checks/c06.py: generate programs, build them with the
repository's mypyc (dropping units that mypy/mypyc reject and rebuilding), drive interpreted and compiled runs."""

from __future__ import annotations

import os
import re
from typing import Any, Iterable

from vlib import c05_program as P, common
from vlib.pool import Pool

MAX_REBUILDS = 4


def norm_msg(s: str) -> str:
    s = re.sub(r"0x[0-9a-fA-F]+", "ADDR", s)
    s = re.sub(r"\bu\d+(_?\w*)", "U", s)
    s = re.sub(r"\b\w+\.U\b", "U", s)  # module prefix of a generated class
    s = re.sub(r"'[^']*'", "'Q'", s)
    s = re.sub(r'"[^"]*"', '"Q"', s)
    s = re.sub(r"-?\d+(\.\d+)?(e[+-]?\d+)?", "N", s)
    return s[:110]


def generate_programs(tag: str, n: int, units: int, dialect: str) -> list[dict[str, Any]]:
    # C05: the compiled-vs-interpreted differences of the unchanged tree (exception wording above all) are dense enough
    # that every fresh seed meets a new member of a listed family; its programs come from the constant stream, so the
    # list of keys is complete for the workload that is run (DESIGN 2.9).  C06 (silent on the unchanged tree) stays seeded.
    rng_of = common.rng_fixed if tag == "C05" else common.rng_for
    return [P.generate(rng_of(tag, "program", dialect, k), f"p{k}", units, dialect) for k in range(n)]


def build_all(ctx: common.Ctx, pool: Pool, wd: str, progs: list[dict[str, Any]], primary: str,
              configs_for: dict[str, list[str]]) -> dict[tuple[str, str], dict[str, Any]]:
    """Build every program in its primary config first (units rejected by mypy/mypyc are dropped and the program is
    rebuilt), then in the remaining configs from the final source.  Returns {(program name, config): build result}.
    `progs` entries are replaced in place by their final versions."""
    built: dict[tuple[str, str], dict[str, Any]] = {}
    index = {p["name"]: i for i, p in enumerate(progs)}
    pending = [(p["name"], 0) for p in progs]
    dead: set[str] = set()
    while pending:
        tasks = [{"fn": "vlib.c05_harness:task_build",
                  "args": {"files": progs[index[n]]["files"], "outdir": os.path.join(wd, n, primary), "config": primary},
                  "_prog": n, "_attempt": a} for n, a in pending]
        pending = []
        deferred: list[tuple[str, int, dict[str, Any]]] = []
        for t, r in pool.imap(tasks, timeout=1800):
            name = t["_prog"]
            prog = progs[index[name]]
            if not r.get("ok"):
                ctx.inconc("build-task:" + ("timeout" if r.get("timeout") else "failed"))
                dead.add(name)
                continue
            res = r["res"]
            if res["ok"]:
                built[(name, primary)] = res
                ctx.cell(f"build:{primary}:ok")
                continue
            bad: dict[str, str] = {}
            for f, line, msg in res["errors"]:
                u = P.unit_at(prog, f, line)
                if u:
                    bad.setdefault(u, msg)
            if bad and t["_attempt"] < MAX_REBUILDS:
                for u, msg in bad.items():
                    kind = next(x["kind"] for x in prog["units"] if x["name"] == u)
                    ctx.inconc("unit-rejected-by-mypy/mypyc")
                    ctx.extra.setdefault("rejected_units", {}).setdefault(norm_msg(msg), []).append(kind)
                progs[index[name]] = P.drop_units(prog, set(bad))
                pending.append((name, t["_attempt"] + 1))
                continue
            if t["_attempt"] < MAX_REBUILDS and not res.get("timeout") and (res.get("c_units") or res.get("internal")):
                deferred.append((name, t["_attempt"], res))
                continue
            dead.add(name)
            why = "mypyc-internal-error" if res.get("internal") else "c-compiler-error" if res.get("c_errors") else "build-failed"
            ctx.inconc(f"program-not-built:{why}")
            ctx.extra.setdefault("build_failures", []).append(
                {"program": name, "config": primary, "why": why, "internal": (res.get("internal") or {}).get("last"),
                 "where": (res.get("internal") or {}).get("where"), "c_errors": res.get("c_errors"), "log": res.get("log", "")[-1200:]})
        for name, attempt, res in deferred:  # (outside the imap loop: the pool serves one stream of tasks at a time)
            prog = progs[index[name]]
            culprits: set[str] = set(res.get("c_units") or [])
            why2 = "unit-rejected-by-C-compiler"
            if not culprits and res.get("internal"):
                culprits = _bisect_internal(pool, wd, prog)
                why2 = "unit-crashes-mypyc"
            culprits &= {x["name"] for x in prog["units"]}
            if not culprits:
                dead.add(name)
                ctx.inconc("program-not-built:" + ("mypyc-internal-error" if res.get("internal") else "c-compiler-error"))
                ctx.extra.setdefault("build_failures", []).append(
                    {"program": name, "config": primary, "internal": (res.get("internal") or {}).get("last"),
                     "where": (res.get("internal") or {}).get("where"), "c_errors": res.get("c_errors"), "log": res.get("log", "")[-1200:]})
                continue
            for u in sorted(culprits):
                x = next(x for x in prog["units"] if x["name"] == u)
                ctx.inconc(why2)
                ctx.extra.setdefault("mypyc_compile_failures", []).append(
                    {"why": why2, "unit_kind": x["kind"], "detail": (res.get("c_errors") or [(res.get("internal") or {}).get("last")])[0],
                     "where": (res.get("internal") or {}).get("where"), "source": x["src"][:1500]})
            progs[index[name]] = P.drop_units(prog, culprits)
            pending.append((name, attempt + 1))
    tasks = []
    for p in progs:
        if p["name"] in dead:
            continue
        for cfg in configs_for.get(p["name"], []):
            if cfg == primary:
                continue
            tasks.append({"fn": "vlib.c05_harness:task_build",
                          "args": {"files": p["files"], "outdir": os.path.join(wd, p["name"], cfg), "config": cfg},
                          "_prog": p["name"], "_cfg": cfg})
    for t, r in pool.imap(tasks, timeout=2400):
        if not r.get("ok") or not r["res"]["ok"]:
            res = r.get("res") or {}
            why = "mypyc-internal-error" if res.get("internal") else "c-compiler-error" if res.get("c_errors") else "build-failed"
            ctx.inconc(f"program-not-built:{t['_cfg']}:{why}")
            ctx.extra.setdefault("build_failures", []).append(
                {"program": t["_prog"], "config": t["_cfg"], "why": why, "c_errors": res.get("c_errors"), "log": (res.get("log") or str(r))[-1200:]})
            continue
        built[(t["_prog"], t["_cfg"])] = r["res"]
        ctx.cell(f"build:{t['_cfg']}:ok")
    return built


def _bisect_internal(pool: Pool, wd: str, prog: dict[str, Any]) -> set[str]:
    """mypyc itself raised: run its front end + C generation on every unit alone (with the prelude) to find which."""
    tasks = [{"fn": "vlib.c05_harness:task_cgen", "args": {"source": P.standalone(u), "outdir": os.path.join(wd, prog["name"], "cgen-" + u["name"])},
              "_unit": u["name"]} for u in prog["units"]]
    bad: set[str] = set()
    for t, r in pool.imap(tasks, timeout=900):
        if r.get("ok") and not r["res"].get("ok") and r["res"].get("traceback"):
            bad.add(t["_unit"])
    return bad


def drive_tasks(wd: str, progs: list[dict[str, Any]], built: dict[tuple[str, str], dict[str, Any]], mode: str,
                run_modes: dict[str, str], spec_extra: dict[str, Any], timeout: float = 900) -> Iterable[dict[str, Any]]:
    """One interpreted drive per program plus one per built config.  run_modes: config -> plain|asan|valgrind."""
    for p in progs:
        cfgs = [c for (n, c) in built if n == p["name"]]
        if not cfgs:
            continue
        spec = P.spec_for(p, mode, **spec_extra)
        yield {"fn": "vlib.c05_harness:task_drive",
               "args": {"spec": spec, "cwd": os.path.join(wd, p["name"], "interp"), "out_path": os.path.join(wd, p["name"], "interp.out"),
                        "mode": "plain", "timeout": timeout, "files": p["files"]},
               "_prog": p["name"], "_cfg": "interp", "_timeout": timeout * 4}
        for c in cfgs:
            yield {"fn": "vlib.c05_harness:task_drive",
                   "args": {"spec": spec, "cwd": built[(p["name"], c)]["outdir"], "out_path": os.path.join(wd, p["name"], c + ".out"),
                            "mode": run_modes.get(c, "plain"), "timeout": timeout * (8 if run_modes.get(c) == "valgrind" else 1)},
                   "_prog": p["name"], "_cfg": c, "_timeout": timeout * 40}


def unit_ir(prog: dict[str, Any], ir: dict[str, Any]) -> dict[str, set[str]]:
    """unit name -> op names in the final IR of the functions defined in that unit."""
    out: dict[str, set[str]] = {}
    for key, ops in (ir.get("functions") or {}).items():
        mod, _, line = key.rsplit(":", 2)[0], None, key.rsplit(":", 1)[1]
        mod = key.split(":", 1)[0]
        try:
            ln = int(line)
        except ValueError:
            continue
        u = P.unit_at(prog, mod, ln)
        if u:
            out.setdefault(u, set()).update(ops)
    return out


def is_specialised(op: str) -> bool:
    return op.startswith(("c:", "prim:", "call:"))
